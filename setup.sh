#!/bin/bash
# Offline setup after a fresh restore: pre-build the harness crate's dependencies in the Kani target-dir pool,
# the native replay/txtool binaries (dev + release) and the MIR dump.  Checks rebuild on demand if this is skipped.
set -u
cd "$(dirname "$0")"
export CARGO_NET_OFFLINE=true CARGO_TERM_COLOR=never
mkdir -p build
cp /repo/Cargo.lock harness/Cargo.lock
N=${VERIF_SETUP_POOL:-6}
pids=()
for i in $(seq 0 $((N-1))); do
  ( cd harness && cargo kani --target-dir ../build/kani-w$i -Z stubbing --no-assertion-reach-checks --exact --harness c02::proofs::c02_push_opcode_class > ../build/setup-kani-$i.log 2>&1 ) &
  pids+=($!)
  sleep 2
done
( cd harness && CARGO_TARGET_DIR=../build/native-w0 cargo build --offline --bins > ../build/setup-native-dev.log 2>&1 && CARGO_TARGET_DIR=../build/native-w0 cargo build --offline --bins --release > ../build/setup-native-rel.log 2>&1 ) &
pids+=($!)
( python3-vt -c "import sys; sys.path.insert(0,'.'); from mirsym.mirgen import get_mir; print(get_mir()[1])" > build/setup-mir.log 2>&1 ) &
pids+=($!)
rc=0
for p in "${pids[@]}"; do wait $p || rc=1; done
grep -l 'VERIFICATION:- SUCCESSFUL' build/setup-kani-*.log | wc -l
tail -1 build/setup-mir.log
exit 0
