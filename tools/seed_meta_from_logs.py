#!/usr/bin/env python3
"""After tools/seed_sweep.sh: recompute 'failing_obligations' of every seeded/<id>/meta.json from the VIOLATION / UNDECIDED lines of the
sweep's log (/tmp/try_seed_<id>.log), so that an obligation that only reports an open known finding is not listed as having caught the seed."""
import json, os, re, sys
V = os.path.dirname(os.path.dirname(os.path.abspath(__file__)))
for sid in sorted(os.listdir(os.path.join(V, "seeded"))):
    log = f"/tmp/try_seed_{sid}.log"
    mp = os.path.join(V, "seeded", sid, "meta.json")
    if not os.path.exists(log):
        continue
    m = json.load(open(mp))
    det = m.get("detected_by", {})
    if "check_exit" not in det:
        continue
    txt = open(log).read()
    viol = sorted(set(re.findall(r"^\s+obligation=(\S+) ::", txt, re.M)))
    und = sorted(set(re.findall(r"^UNDECIDED \S+ (\S+):", txt, re.M)))
    det["failing_obligations"] = viol if viol else und
    det["known_findings_also_printed"] = len(re.findall(r"^KNOWN-FINDING", txt, re.M))
    m["detected_by"] = det
    json.dump(m, open(mp, "w"), indent=1)
    print(sid, det["result"], det["failing_obligations"])
