#!/usr/bin/env python3
"""Regenerates /verif/MANIFEST.json from the obligation tables (claimed = properties with obligations)."""
import json, sys, os
sys.path.insert(0, os.path.dirname(os.path.dirname(os.path.abspath(__file__))))
from vlib import obligations as OB

TB = ("Trusted: rustc (Kani codegen / nightly MIR faithful to the shipped code), Kani 0.68 + CBMC 6.11 + CaDiCaL, z3; the stubs/models listed in the evidence file "
      "(fmt::format, io::Error CustomOwner drop; E2: hashes/EC/DER/Base58 uninterpreted or opaque, Script opaque in the transaction layer, std models); the reference encodings in "
      "harness/src and mirsym/. Bounded: nothing outside the per-obligation bounds in the evidence is claimed.")
TECH = {
    "kani": "symbolic execution of the compiled crate by Kani/CBMC (SAT, CaDiCaL) against reference specifications in the harness; counterexamples via concrete playback, replayed natively (dev+release)",
    "mirsym": "symbolic execution of rustc MIR (mirsym) with QF_BV queries to z3 against independent reference encodings; counterexamples replayed natively through the public API",
}
NA = {
    "C15": "needs EC signature verification over transaction preimages inside the ScriptBit-based interpreter; neither is encodable within reach of CBMC or the MIR executor",
    "C17": "ASM rendering/parsing is string/format machinery over the recursive ScriptBit type (CBMC measured infeasible on the type; no std string models in the MIR executor)",
    "C18": "serde_json/ciborium round trips are external generic code over untagged recursive enums; not encodable within reach",
    "C20": "AES correctness/invertibility is a SAT-hard equivalence over external cipher crates; only an eight-arm dispatch lives in the repository",
}
DEFAULT_NA = "no solver-based check of this property returns verdicts in this framework yet (see DESIGN.md §5); not claimed"

props = [json.loads(l) for l in open("/verif/properties.jsonl")]
checks, na = [], []
for p in props:
    pid = p["id"]
    obs = OB.for_property(pid)
    if not obs:
        na.append({"property_id": pid, "reason": NA.get(pid, DEFAULT_NA)})
        continue
    engines = sorted({o["engine"] for o in obs})
    text = OB.EXPLANATION.get(pid, "") + " Level: bounded symbolic check (SAT/SMT verdict over all inputs inside the stated bounds), not a proof beyond them."
    checks.append({"property_id": pid, "quick_cmd": f"./check {pid} --tier quick", "thorough_cmd": f"./check {pid} --tier thorough", "evidence_file": f"/verif/evidence/{pid}.json",
                   "replay_cmd_template": f"./check {pid} --replay {{path}}", "engine": "+".join(engines),
                   "level_claimed": {"category": "other", "text": text, "design_ref": f"DESIGN.md §5 {pid}"}, "level_note": TB,
                   "technique": "; ".join(TECH[e] for e in engines)})
hooks_commits = [l.strip() for l in open("/verif/hook_commits.txt")] if os.path.exists("/verif/hook_commits.txt") else []
m = {"version": 1, "setup_cmd": "./setup.sh",
     "hooks": {"guard": "cfg(any(kani, bsv_verif))", "enable": "cargo kani sets --cfg kani for every crate; native replay builds would add RUSTFLAGS=--cfg bsv_verif (no hook is needed so far: E2 reads private items from MIR)",
               "baseline_off_cmd": "cd /repo && cargo test --workspace --no-fail-fast --offline", "source_commits": hooks_commits, "add_only": True},
     "engines": [{"name": "E1 kani", "path": "/verif/harness + /verif/vlib/kani_engine.py", "serves_properties": sorted({o["property"] for o in OB.OBLIGATIONS if o["engine"] == "kani"}),
                  "kind_free_text": "Kani 0.68 -> CBMC 6.11 (CaDiCaL) proof harnesses over kani::any() inputs on the compiled crate; concrete playback -> harness/src/bin/replay.rs"},
                 {"name": "E2 mirsym", "path": "/verif/mirsym + /verif/vlib/mirsym_engine.py", "serves_properties": sorted({o["property"] for o in OB.OBLIGATIONS if o["engine"] == "mirsym"}),
                  "kind_free_text": "symbolic executor for rustc MIR (-Zunpretty=mir regenerated from /repo on every run, cached by source hash), QF_BV queries to z3, native replay via harness/src/bin/txtool.rs"}],
     "checks": checks, "not_applicable": na,
     "notes": "Exit codes of ./check: 0 held within bounds; 1 violation reproduced natively (VIOLATION line); 2 undecided/machinery problem (never a pass)."}
json.dump(m, open("/verif/MANIFEST.json", "w"), indent=1)
print("claimed:", [c["property_id"] for c in checks], "n/a:", [x["property_id"] for x in na])
