#!/bin/bash
# usage: tools/try_seed.sh <seed-id> <property> [extra ./check args]   — applies a seeded mutation to /repo, runs the check, reverts
set -u
SEED=$1; PID=$2; shift 2
cd /verif
git -C /repo diff --quiet || { echo "/repo has uncommitted changes"; exit 9; }
git -C /repo apply /verif/seeded/$SEED/patch.diff || { echo "patch does not apply"; exit 9; }
./check $PID --no-evidence "$@" > /tmp/try_seed_$SEED.log 2>&1
rc=$?
git -C /repo checkout -- .
grep -E '^VIOLATION|^UNDECIDED|^KNOWN|obligations discharged' /tmp/try_seed_$SEED.log | cut -c1-400
echo "seed $SEED -> ./check $PID exit $rc"
exit $rc
