#!/bin/bash
# usage: tools/seed_sweep.sh [seed-id ...]   — runs every seeded mutation against the quick check of its property and records the outcome
cd /verif
ids="$@"; [ -z "$ids" ] && ids=$(ls seeded)
for s in $ids; do
  p=$(python3 -c "import json;print(json.load(open('seeded/$s/meta.json'))['property'])")
  if ! python3 -c "
import json,sys
m=json.load(open('/verif/MANIFEST.json'))
sys.exit(0 if any(c['property_id']=='$p' for c in m['checks']) else 1)"; then
    echo "$s property $p not claimed: skipped"
    python3 - "$s" "skipped" "property not claimed (not applicable in this framework)" <<'PY'
import json,sys
p=f'/verif/seeded/{sys.argv[1]}/meta.json'; m=json.load(open(p)); m['detected_by']={'result':sys.argv[2],'detail':sys.argv[3]}; json.dump(m,open(p,'w'),indent=1)
PY
    continue
  fi
  if ! git -C /repo apply --check /verif/seeded/$s/patch.diff 2>/dev/null; then
    echo "$s patch does not apply to the repaired tree"
    python3 - "$s" "patch-does-not-apply" "the seeded patch no longer applies after the fix commits (see DESIGN.md)" <<'PY'
import json,sys
p=f'/verif/seeded/{sys.argv[1]}/meta.json'; m=json.load(open(p)); m['detected_by']={'result':sys.argv[2],'detail':sys.argv[3]}; json.dump(m,open(p,'w'),indent=1)
PY
    continue
  fi
  out=$(tools/try_seed.sh $s $p --tier quick 2>&1)
  rc=$(echo "$out" | tail -1 | sed 's/.*exit //')
  viol=$(echo "$out" | grep -c '^VIOLATION')
  obs=$(grep -E '^\s+c[0-9]+_\S+\s+(fail|unreproduced|vacuous)' /tmp/try_seed_$s.log | awk '{print $1}' | sort -u | paste -sd, )
  echo "$s -> exit $rc, $viol violation line(s), failing obligations: $obs"
  python3 - "$s" "$rc" "$viol" "$obs" <<'PY'
import json,sys
p=f'/verif/seeded/{sys.argv[1]}/meta.json'; m=json.load(open(p))
rc=sys.argv[2]
m['detected_by']={'result':'detected' if rc=='1' else ('undecided' if rc=='2' else 'missed'),'check_exit':rc,'violation_lines':int(sys.argv[3]),'failing_obligations':sys.argv[4].split(',') if sys.argv[4] else [],'command':f"tools/try_seed.sh {sys.argv[1]} {m['property']} --tier quick"}
json.dump(m,open(p,'w'),indent=1)
PY
done
