"""E1: Kani/CBMC engine.  Runs one `cargo kani --harness H` per obligation in a
worker pool (one cargo target dir per worker, flock-protected so concurrent
./check invocations never share one), parses the verdict, extracts the
solver's counterexample via concrete playback and replays it natively against
the real crate (dev and release profile)."""
import fcntl, hashlib, json, os, re, shutil, subprocess, sys, time, threading
from concurrent.futures import ThreadPoolExecutor

VERIF = os.path.dirname(os.path.dirname(os.path.abspath(__file__)))
HARNESS = os.path.join(VERIF, "harness")
BUILD = os.path.join(VERIF, "build")
REPO = "/repo"
POOL = 16
ENV = dict(os.environ, CARGO_NET_OFFLINE="true", CARGO_TERM_COLOR="never")
MEM_KB = 20 * 1024 * 1024  # ulimit -v per cbmc/kani process tree member


def sync_lock():
    """Cargo.lock of the harness crate = /repo's lock (same dependency versions as the code under test)."""
    src = os.path.join(REPO, "Cargo.lock")
    dst = os.path.join(HARNESS, "Cargo.lock")
    base = open(src).read()
    # the harness crate adds itself to the lock; let cargo do that offline on first build
    if not os.path.exists(dst) or "name = \"bsvverif\"" not in open(dst).read():
        open(dst, "w").write(base)


class TargetDir:
    """A cargo target dir leased from the pool under an exclusive flock."""

    def __init__(self, kind="kani"):
        self.kind = kind
        self.fd = None
        self.path = None

    def __enter__(self):
        os.makedirs(BUILD, exist_ok=True)
        while True:
            for i in range(POOL):
                lock = os.path.join(BUILD, f"{self.kind}-w{i}.lock")
                fd = os.open(lock, os.O_CREAT | os.O_RDWR)
                try:
                    fcntl.flock(fd, fcntl.LOCK_EX | fcntl.LOCK_NB)
                    self.fd = fd
                    self.path = os.path.join(BUILD, f"{self.kind}-w{i}")
                    return self.path
                except OSError:
                    os.close(fd)
            time.sleep(1.0)

    def __exit__(self, *a):
        fcntl.flock(self.fd, fcntl.LOCK_UN)
        os.close(self.fd)


def _run(cmd, cwd, timeout, env=None, log=None, mem_kb=None):
    t0 = time.time()
    mem_kb = mem_kb or MEM_KB
    pre = f"ulimit -v {mem_kb}; exec " if mem_kb else "exec "
    p = subprocess.Popen(["bash", "-c", pre + " ".join(cmd)], cwd=cwd, env=env or ENV, stdout=subprocess.PIPE, stderr=subprocess.STDOUT, text=True, start_new_session=True)
    try:
        out, _ = p.communicate(timeout=timeout)
        to = False
    except subprocess.TimeoutExpired:
        try:
            os.killpg(p.pid, 9)
        except Exception:
            pass
        out, _ = p.communicate()
        to = True
    if log:
        open(log, "w").write(out)
    return p.returncode, out, to, time.time() - t0


CHECK_RE = re.compile(r"Check \d+: (\S+)\n\s+- Status: (\w+)\n\s+- Description: \"(.*?)\"\n\s+- Location: (.*?)\n", re.S)


def parse_kani(out):
    r = {"verdict": None, "failed": [], "unwind_fail": False, "covers": None, "stubs": [], "solver_s": 0.0, "symex_s": 0.0, "vars": 0, "clauses": 0, "steps": 0}
    if "VERIFICATION:- SUCCESSFUL" in out:
        r["verdict"] = "pass"
    elif "VERIFICATION:- FAILED" in out:
        r["verdict"] = "fail"
    for m in re.finditer(r"- Stub: (.*)", out):
        r["stubs"].append(re.sub(r"\s+", "", m.group(1)))
    for m in re.finditer(r"Runtime decision procedure: ([\d.]+)s", out):
        r["solver_s"] += float(m.group(1))
    for m in re.finditer(r"Runtime Symex: ([\d.]+)s", out):
        r["symex_s"] += float(m.group(1))
    m = re.search(r"(\d+) variables, (\d+) clauses", out)
    if m:
        r["vars"], r["clauses"] = int(m.group(1)), int(m.group(2))
    m = re.search(r"size of program expression: (\d+) steps", out)
    if m:
        r["steps"] = int(m.group(1))
    m = re.search(r"\*\* (\d+) of (\d+) cover properties satisfied", out)
    if m:
        r["covers"] = (int(m.group(1)), int(m.group(2)))
    n_checks = 0
    for m in CHECK_RE.finditer(out):
        n_checks += 1
        name, status, desc, loc = m.groups()
        if status == "FAILURE":
            if "unwinding assertion" in desc or ".unwind." in name:
                r["unwind_fail"] = True
            elif ".cover." in name or name.endswith("cover"):
                pass
            else:
                r["failed"].append({"check": name, "desc": desc, "loc": loc})
        if status in ("UNSATISFIABLE", "UNREACHABLE") and ".cover." in name:
            r.setdefault("covers_unsat", []).append(desc)
    r["n_checks"] = n_checks
    if re.search(r"Status: ERROR|CBMC failed|out of memory|std::bad_alloc|Killed", out) and r["verdict"] is None:
        r["verdict"] = "error"
    return r


PLAYBACK_RE = re.compile(r"/// Check for `(\w+)`: \"+(.*?)\"+\n(.*?)let concrete_vals: Vec<Vec<u8>> = vec!\[(.*?)\n    \];", re.S)


def parse_playback(out):
    """-> list of (kind, description, [[bytes],...])"""
    res = []
    for m in PLAYBACK_RE.finditer(out):
        kind, desc, _, body = m.groups()
        vals = []
        for v in re.finditer(r"vec!\[([\d, ]*)\]", body):
            s = v.group(1).strip()
            vals.append([int(x) for x in s.split(",") if x.strip()] if s else [])
        res.append((kind, desc, vals))
    return res


def build_replay(profile):
    """Build the native replay binary (same property code, real crate) in the given profile."""
    with TargetDir("native") as td:
        cmd = ["cargo", "build", "--offline", "--bin", "replay"] + (["--release"] if profile == "release" else [])
        rc, out, to, dt = _run(cmd, HARNESS, 1800, env=dict(ENV, CARGO_TARGET_DIR=td))
        if rc != 0:
            raise RuntimeError("native replay build failed:\n" + out[-3000:])
        src = os.path.join(td, profile if profile == "release" else "debug", "replay")
        dst = os.path.join(BUILD, f"replay-{profile}-{os.getpid()}")
        shutil.copy2(src, dst)
        return dst


_replay_bins = {}
_replay_lock = threading.Lock()


def replay_native(harness, vals, profiles=("debug", "release")):
    """-> dict profile -> (exit code, last line)."""
    res = {}
    with _replay_lock:
        for p in profiles:
            if p not in _replay_bins:
                _replay_bins[p] = build_replay(p)
    tmp = os.path.join(BUILD, f"vals-{os.getpid()}-{threading.get_ident()}.json")
    json.dump(vals, open(tmp, "w"))
    for p in profiles:
        pr = subprocess.run([_replay_bins[p], harness, tmp], stdout=subprocess.PIPE, stderr=subprocess.STDOUT, text=True, timeout=600)
        lines = [l for l in pr.stdout.strip().splitlines() if l.startswith("REPLAY-")]
        res[p] = (pr.returncode, lines[-1] if lines else pr.stdout.strip()[-300:])
    os.unlink(tmp)
    return res


def cleanup_replay_bins():
    for p in list(_replay_bins.values()):
        try:
            os.unlink(p)
        except OSError:
            pass


def run_harness(ob, tier, logdir):
    """Run one Kani obligation. Returns result dict."""
    h = ob["harness"]
    timeout = ob.get("timeout", {}).get(tier, ob.get("timeout_s", 900))
    extra = ob.get("kani_args", [])
    with TargetDir("kani") as td:
        cmd = ["cargo", "kani", "--target-dir", td, "-Z", "stubbing", "-Z", "concrete-playback", "--concrete-playback=print",
               "--no-assertion-reach-checks", "--exact", "--harness", ob["path"]] + extra
        log = os.path.join(logdir, h + ".log")
        rc, out, to, dt = _run(cmd, HARNESS, timeout, log=log, mem_kb=ob.get("mem_gb") and ob["mem_gb"] * 1024 * 1024)
    r = parse_kani(out)
    r.update({"harness": h, "wall_s": round(dt, 1), "timed_out": to, "rc": rc, "log": log})
    if "error: could not compile" in out or "error[E" in out:
        r["verdict"] = "build_error"
        r["build_tail"] = out[-2500:]
    if to:
        r["verdict"] = "timeout"
    if r["verdict"] is None:
        r["verdict"] = "error"
    r["playback"] = parse_playback(out) if r["verdict"] in ("fail", "pass") else []
    return r


def run_all(obs, tier, logdir, jobs):
    os.makedirs(logdir, exist_ok=True)
    sync_lock()
    with ThreadPoolExecutor(max_workers=max(1, jobs)) as ex:
        futs = [ex.submit(run_harness, ob, tier, logdir) for ob in obs]
        return [f.result() for f in futs]
