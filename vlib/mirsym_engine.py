"""E2 glue: runs mirsym queries (one python3-vt subprocess per obligation) and converts their JSON into check results."""
import json, os, subprocess, sys, time
from concurrent.futures import ThreadPoolExecutor

VERIF = os.path.dirname(os.path.dirname(os.path.abspath(__file__)))
PY = "python3-vt"


def run_one(ob, tier, logdir):
    spec = dict(ob["spec"])
    spec["tier"] = tier
    out = os.path.join(logdir, ob["name"] + ".mirsym.json")
    if os.path.exists(out):
        os.unlink(out)
    timeout = ob.get("timeout", {}).get(tier, ob.get("timeout_s", 1800))
    t0 = time.time()
    try:
        p = subprocess.run([PY, "-m", "mirsym.run", json.dumps(spec), out], cwd=VERIF, stdout=subprocess.PIPE, stderr=subprocess.STDOUT, text=True, timeout=timeout)
        log = p.stdout
        to = False
    except subprocess.TimeoutExpired as e:
        log = (e.stdout or b"").decode() if isinstance(e.stdout, bytes) else (e.stdout or "")
        to = True
    open(os.path.join(logdir, ob["name"] + ".mirsym.log"), "w").write(log)
    r = {"wall_s": round(time.time() - t0, 1), "timed_out": to}
    if to or not os.path.exists(out):
        r.update({"verdict": "timeout" if to else "error", "build_tail": log[-1500:]})
        return r
    d = json.load(open(out))
    r.update({"solver_s": d.get("solver_s", 0.0), "queries": d.get("queries", 0)})
    r["report"] = {"paths": d.get("paths"), "cases": d.get("cases"), "smt_queries": d.get("queries"), "functions_executed": d.get("functions", []),
                   "std_models_used": d.get("models", []), "translator_validated_inputs": d.get("translator_validated", 0), "mir": d.get("mir"), "second_solver": d.get("second_solver")}
    r["samples"] = [dict({"obligation": ob["name"]}, **s) if isinstance(s, dict) else {"obligation": ob["name"], "sample": s} for s in d.get("samples", [])]
    viol = d.get("violations", [])
    und = d.get("undecided", [])
    if viol or und:
        r["verdict"] = "fail"
        r["violations"] = [dict(v, values=v.get("request")) for v in viol]
        r["undecided"] = und
    else:
        r["verdict"] = "pass"
    return r


def run_all(obs, tier, logdir, jobs):
    os.makedirs(logdir, exist_ok=True)
    with ThreadPoolExecutor(max_workers=max(1, jobs)) as ex:
        futs = [ex.submit(run_one, ob, tier, logdir) for ob in obs]
        return [f.result() for f in futs]


def do_replay(rp, path):
    """E2 replays need the tooling venv (z3 is imported by the native bridge): delegate to vlib.mirsym_replay under python3-vt"""
    import subprocess
    p = subprocess.run(["python3-vt", "-m", "vlib.mirsym_replay", os.path.abspath(path)], cwd=VERIF)
    return p.returncode
