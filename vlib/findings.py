"""Known findings (committed file /verif/known_findings.json; never written at run time).

An OPEN finding suppresses exactly the violations it describes: same property,
same obligation, and the violation's failing-check text contains `check_contains`
(when given) and its input satisfies `input_class` (a small predicate language
over the replay values, when given).  Anything else is still a VIOLATION.
`fixed` entries are documentation only and suppress nothing."""
import json, os

PATH = os.path.join(os.path.dirname(os.path.dirname(os.path.abspath(__file__))), "known_findings.json")


def load():
    if not os.path.exists(PATH):
        return {"open": [], "fixed": []}
    return json.load(open(PATH))


def _le(vals, i):
    return int.from_bytes(bytes(vals[i]), "little")


def match(known, item):
    for kf in known.get("open", []):
        if kf["property"] != item["property"] or kf["obligation"] != item["obligation"]:
            continue
        cc = kf.get("check_contains")
        text = (item.get("check") or "") + " " + (item.get("message") or "")
        if cc and cc not in text:
            continue
        ic = kf.get("input_class")
        if ic:
            # {"value_index": i, "min": a, "max": b}: i-th drawn value (little-endian) in [a, b]
            try:
                v = _le(item["values"], ic["value_index"])
            except Exception:
                continue
            if not (ic.get("min", 0) <= v <= ic.get("max", 1 << 200)):
                continue
        return kf
    return None
