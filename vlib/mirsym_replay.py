"""Replay of an E2 (mirsym) violation file against the real crate: python3-vt -m vlib.mirsym_replay <path>.
The file holds the native request (txtool ops) and what a correct library returns; the verdict is recomputed from a fresh native run in
the dev and the release profile.  Exit 1 + VIOLATION line if the deviation is still there, 0 if the property holds on this input."""
import json, os, sys
VERIF = os.path.dirname(os.path.dirname(os.path.abspath(__file__)))
sys.path.insert(0, VERIF)


def deviates(res, exp, message="", recorded=None):
    """does one native op result violate the expectation recorded with the violation?"""
    if not isinstance(res, dict):
        return True
    if "toolerror" in res:
        return True
    crashed = "panic" in res or "abort" in res
    if isinstance(exp, str):
        e = exp.lower()
        if e.startswith("ok or err") or e.startswith("a state or an error"):
            return crashed
        if e in ("err", "error") or e.startswith("err"):
            return crashed or "ok" in res
        if "re-parsed from its own string equals" in e:
            return crashed or not (res.get("ok") or {}).get("reparsed_equal", False)
        if e.startswith("state_after_error == last_ok"):
            return crashed or ("err" in res and res.get("state_after_error") != res.get("last_ok"))
        if e == "any":
            return crashed
        if e == "fail":
            return crashed or "ok" in res
        if e == "ok":
            return crashed or "ok" not in res
        if e in ("ok: true", "verifies") or e.startswith("a bsm signature verifies"):
            return crashed or res.get("ok") is not True
        if recorded is not None and isinstance(recorded, dict) and not (set(recorded) & {"toolerror"}):
            # free-text expectation: the violation persists iff the real code still shows the recorded deviating behaviour
            return crashed or res == recorded
        return crashed or res.get("ok") != exp
    if isinstance(exp, dict):
        got = res.get("ok")
        if crashed or not isinstance(got, dict):
            return True
        return any(got.get(k) != v for k, v in exp.items())
    if exp is None:
        return crashed
    return crashed or res.get("ok") != exp


def main(path):
    from mirsym import concrete as C
    rp = json.load(open(path))
    pid = rp["property"]
    bad = False
    if not isinstance(rp.get("request"), dict) or not rp["request"].get("ops"):
        print("replay: this file carries no runnable native request (written by an older version of the checker); re-run ./check " + pid)
        return 2
    try:
        for prof in ("debug", "release"):
            out = C.Native.run(rp["request"], prof)
            exp = rp.get("expected")
            n_ops = len(rp["request"].get("ops", []))
            if rp.get("compare") == "pair":
                a, b = out[rp["pair"][0]], out[rp["pair"][1]]
                print(f"[{prof}] pair: {json.dumps(a)[:200]} vs {json.dumps(b)[:200]}")
                bad = bad or a != b
                continue
            # conformance requests carry several ops that share one expectation; single-input requests name their op
            idxs = range(len(out)) if (n_ops > 1 and isinstance(exp, (dict, str)) and "op_index" in rp and rp["op_index"] == 0 and len(out) == n_ops and n_ops > 1 and rp.get("engine") == "mirsym" and _shared(rp)) else [min(rp.get("op_index", len(out) - 1), len(out) - 1)]
            for i in idxs:
                res = out[i]
                rec = (rp.get("native") or {}).get(prof)
                if isinstance(rec, list):
                    rec = rec[i] if i < len(rec) else None
                d = deviates(res, exp, rp.get("message", ""), rec)
                print(f"[{prof}] op {i}: native {json.dumps(res)[:260]}")
                print(f"[{prof}] op {i}: expected {str(exp)[:200]} -> {'DEVIATES' if d else 'ok'}")
                bad = bad or d
    finally:
        C.Native.cleanup()
    if bad:
        print(f"VIOLATION property={pid} replay={path}")
        return 1
    print("replay: property holds on this input")
    return 0


def _shared(rp):
    ops = rp["request"].get("ops", [])
    kinds = {o.get("op") for o in ops}
    return len(kinds) == 1 and next(iter(kinds)) in ("ecdsa_check", "bip32", "ecies", "aes_check", "checksig")


if __name__ == "__main__":
    sys.exit(main(sys.argv[1]))
