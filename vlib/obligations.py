"""Obligation tables: which harness / MIR query decides which clause of which property."""

FMT = "std::fmt::format -> String::new()"
IOERR = "<core::io::CustomOwner as Drop>::drop -> no-op"

TRUSTED_BASE = [
    "rustc (Kani codegen / nightly MIR agree with the shipped code)",
    "Kani 0.68.0, CBMC 6.11.0, CaDiCaL (E1)",
    "z3 / cvc5 and the mirsym MIR executor with its std models (E2)",
    "stubs and reference specifications listed per obligation",
]

EXPLANATION = {}


def K(pid, name, mod, functions, bounds, cost=1, tiers=("quick", "thorough"), stubs=(FMT,), timeout=900, full_domain=False, **kw):
    d = {"property": pid, "name": name, "engine": "kani", "harness": name, "path": f"{mod}::proofs::{name}", "functions": functions,
         "bounds": bounds, "cost": cost, "tiers": list(tiers), "stubs": list(stubs), "timeout_s": timeout, "full_domain": full_domain}
    d.update(kw)
    return d


def M(pid, name, spec, functions, bounds, cost=2, tiers=("quick", "thorough"), timeout=1800, **kw):
    d = {"property": pid, "name": name, "engine": "mirsym", "spec": spec, "functions": functions, "bounds": bounds, "cost": cost,
         "tiers": list(tiers), "stubs": list(E2_MODELS), "timeout_s": timeout, "full_domain": False}
    d.update(kw)
    return d


E2_MODELS = ("E2: Hash::sha_256d/sha_256/hash_160/sha_512 are uninterpreted functions (no collision reasoning: equal digests only from provably equal inputs)",
             "E2: Script is an opaque byte-string carrier (to_bytes/get_script_length/clone/default exact; remove_codeseparators uninterpreted); prev_tx_id has 32 bytes",
             "E2: error payloads (format!/BSVErrors construction closures of ok_or_else/map_err) are not executed",
             "E2: Vec<TxIn>/Vec<TxOut> have the concrete lengths listed in the bounds; byte strings have symbolic length (64-bit length variable, <= 2^33)")

OBLIGATIONS = []

# ---------------------------------------------------------------- C01
EXPLANATION["C01"] = ("Transaction wire format. E1 (Kani/CBMC on the compiled crate): compact-size writer/reader/helpers against an independent "
                      "closed-form codec for ALL u64 values and all 9-byte windows, outpoint codec for all 36-byte strings.")
OBLIGATIONS += [
    K("C01", "c01_varint_write_read", "c01", ["VarIntWriter::write_varint (Vec<u8>, Cursor<Vec<u8>>)", "VarIntReader::read_varint (3 impls)", "VarInt::get_varint_size"],
      "all u64 values; unwind 12 (longest loop: 9-byte compare)", cost=5, stubs=(FMT, IOERR), full_domain=True),
    K("C01", "c01_varint_bytes_helper", "c01", ["VarInt::get_varint_bytes"], "all u64 values; unwind 12", cost=1, full_domain=True),
    K("C01", "c01_varint_read_any", "c01", ["VarIntReader::read_varint for Cursor<Vec<u8>>"], "all 9-byte windows x every truncation length 0..=9; unwind 12", cost=3, stubs=(FMT, IOERR), full_domain=True),
    K("C01", "c01_outpoint_roundtrip", "c01", ["TxIn::from_outpoint_bytes", "TxIn::get_outpoint_bytes", "TxIn::get_prev_tx_id", "TxIn::get_vout"],
      "all 36-byte outpoints; unwind 38 (36-byte copy loops)", cost=3, full_domain=True),
]

WIRE_FUNCS = ["Transaction::to_bytes_impl", "Transaction::get_id_impl", "TxIn::to_bytes_impl", "TxOut::to_bytes_impl", "VarIntWriter::write_varint (Vec<u8>) + closures", "Transaction::get_ninputs/get_noutputs", "TxOut::get_script_pub_key_size"]
for (ki, ko, tiers, cost) in ((1, 1, ("quick", "thorough"), 2), (2, 2, ("quick", "thorough"), 5), (0, 1, ("quick", "thorough"), 1), (3, 2, ("thorough",), 9), (1, 3, ("thorough",), 5)):
    OBLIGATIONS.append(M("C01", f"c01_wire_k{ki}x{ko}", {"q": "wire", "k_in": ki, "k_out": ko}, WIRE_FUNCS,
                         f"serialisation of a transaction with {ki} inputs x {ko} outputs vs the wire format (version, compact-size counts, outpoint, script length prefix, sequence, value, locktime) and "
                         "txid = byte-reversed SHA256D(serialisation); all scalars symbolic, every script length symbolic (<= 2^33: all four compact-size classes per script inside one query)", cost=cost, tiers=tiers))
for (ki, ko, tiers, cost, to) in ((1, 1, ("quick", "thorough"), 2, 900), (1, 2, ("thorough",), 8, 2400), (2, 1, ("thorough",), 9, 3600)):
    OBLIGATIONS.append(M("C01", f"c01_parse_k{ki}x{ko}", {"q": "parse", "k_in": ki, "k_out": ko}, ["Transaction::from_bytes_impl", "TxIn::read_in", "TxOut::read_in", "VarIntReader::read_varint (Cursor<Vec<u8>>)", "TxIn::is_coinbase_outpoint_impl", "HashCache::new"],
                         f"parse direction: from_bytes_impl applied to the reference serialisation of a symbolic transaction ({ki} inputs x {ko} outputs, every scalar symbolic, every script length symbolic over all four "
                         "compact-size classes) returns exactly that transaction (version, outpoints, script bytes, sequences, values, locktime, empty hash cache); scripts opaque (Script::from_bytes = identity constructor)",
                         cost=cost, tiers=tiers, timeout=to,
                         stubs=("E2 parse models: the input buffer is a list of pieces (bytes, opaque script atoms, compact-size ite pieces); Cursor reads hand back exactly those terms; misaligned reads are outside (undecided)",)))
for (ki, ko, tiers, cost) in ((1, 1, ("quick", "thorough"), 1), (2, 2, ("quick", "thorough"), 2), (0, 1, ("quick", "thorough"), 1), (3, 2, ("thorough",), 4)):
    OBLIGATIONS.append(M("C01", f"c01_accessors_k{ki}x{ko}", {"q": "accessors", "k_in": ki, "k_out": ko}, ["Transaction::get_size_impl", "Transaction::satoshis_out", "Transaction::satoshis_in", "Transaction::is_coinbase_impl", "TxIn::is_coinbase_outpoint_impl", "Transaction::get_outpoints_impl"],
                         f"accessors of a symbolic transaction ({ki} inputs x {ko} outputs, all scalars symbolic, every script length symbolic over all four compact-size classes): size = length of the reference serialisation; "
                         "output / input totals = sums of the value fields (amounts <= 2^60 each, so that the sums fit 64 bits; an input without a declared value makes the input total undefined); coinbase flag = exactly one input "
                         "with the all-zero transaction id and index 0xffffffff; outpoints = wire-order transaction id followed by the little-endian index", cost=cost, tiers=tiers))
EXPLANATION["C01"] += (" E2 (mirsym): Transaction/TxIn/TxOut::to_bytes_impl and get_id_impl MIR vs an independent wire-format encoding, scripts opaque with symbolic length. "
                       "Parse direction: from_bytes_impl(reference serialisation) == the transaction, 1x1 quick, 1x2 / 2x1 thorough. c01_accessors_*: size, totals, coinbase flag and outpoints vs the values the serialisation defines. Not decided: non-canonical/malformed inputs beyond totality (C09), the script codec inside a transaction, hex wrappers.")

# ---------------------------------------------------------------- C03
EXPLANATION["C03"] = ("FORKID sighash preimage. E2 (mirsym): the MIR of sighash_preimage_impl -> sighash_bip143 -> hash_inputs/hash_sequence/hash_outputs and all "
                      "their callees (write_varint, get_outpoint_bytes, TxOut::to_bytes_impl, closures, ...) is executed symbolically path by path; every path's "
                      "result is compared with an independent encoding of the replay-protected sighash specification (QF_BV queries, z3). Counterexamples are replayed natively.")
BIP143_FUNCS = ["Transaction::sighash_preimage_impl", "Transaction::sighash_bip143", "Transaction::hash_inputs", "Transaction::hash_sequence", "Transaction::hash_outputs",
                "TxIn::get_outpoint_bytes", "TxIn::get_prev_tx_id", "TxIn::get_sequence", "TxOut::to_bytes_impl", "VarIntWriter::write_varint (Vec<u8>) + closures", "Transaction::get_input/get_output"]
for (ki, ko, tiers, cost) in ((1, 1, ("quick", "thorough"), 2), (2, 1, ("quick", "thorough"), 3), (2, 2, ("quick", "thorough"), 4), (1, 2, ("thorough",), 3), (2, 0, ("thorough",), 2),
                              (3, 3, ("thorough",), 9), (3, 1, ("thorough",), 5)):
    OBLIGATIONS.append(M("C03", f"c03_bip143_k{ki}x{ko}", {"q": "bip143", "k_in": ki, "k_out": ko}, BIP143_FUNCS,
                         f"{ki} inputs x {ko} outputs, every input index 0..{ki} (incl. one past the end), all six FORKID flags, empty hash cache; all scalars, 64-bit value and "
                         "all script/subscript lengths symbolic (lengths <= 2^33, crossing 252/253, 65535/65536 and 2^32 inside one query)", cost=cost, tiers=tiers))
OBLIGATIONS.append(M("C03", "c03_sighash_leaves_cache_current", {"q": "cache_step", "k_in": 2, "k_out": 2, "only": ["sighash_preimage_impl"], "name": "cache_step_sighash_only"},
                     ["Transaction::sighash_preimage_impl and callees"],
                     "after a sighash call with any of the 14 SigHash values from an empty or fully cached 2x2 transaction, every cache slot is absent or current - so a later FORKID preimage of the same object cannot silently use a digest of other data (history-dependent C03 violations; the full inductive argument is C04)", cost=3))
EXPLANATION["C03"] += " Plus one obligation shared with C04: a sighash call leaves every cache slot absent-or-current."

# ---------------------------------------------------------------- C04
EXPLANATION["C04"] = ("Sighash independent of call history, decided as ONE INDUCTIVE STEP instead of enumerating histories: invariant Inv = every hash-cache slot is "
                      "absent or equals the digest of the CURRENT inputs/outputs. E2 executes the MIR of every function whose first parameter is `&mut Transaction` "
                      "(enumerated from the MIR, so new mutators are included automatically; all 14 SigHash values for those taking a flag) from symbolic states "
                      "satisfying Inv and asks z3 for a post-state violating Inv; plus: from every Inv state the FORKID preimage equals the specification on the "
                      "current contents (so a cached value is never observably different from a recomputed one). Violations are replayed as native call histories "
                      "(prime cache, mutate, sighash vs. sighash on a reparsed copy).")
OBLIGATIONS += [
    M("C04", "c04_cache_step_k2x2", {"q": "cache_step", "k_in": 2, "k_out": 2}, ["every fn(&mut Transaction, ..) of the crate: add_/prepend_/insert_/set_ input/output, set_version, set_nlocktime, add_inputs, add_outputs, get_outpoints, sighash_preimage(_impl), sighash_bip143, sighash_legacy, hash_inputs/sequence/outputs, sign_impl, sign_with_k_impl"],
      "pre-state: 2 inputs x 2 outputs, cache slots all-absent and all-current; arguments symbolic (indices concretised by forking over all positions incl. out of range); scripts <= 252 bytes (one compact-size class: cache logic is length independent); ECDSA signing opaque", cost=8),
    M("C04", "c04_cache_step_k1x1_allstates", {"q": "cache_step", "k_in": 1, "k_out": 1, "all_states": True}, ["same functions"], "1 input x 1 output, all 8 absent/current slot combinations", cost=8, tiers=("thorough",)),
    M("C04", "c04_cache_step_k3x2", {"q": "cache_step", "k_in": 3, "k_out": 2}, ["same functions"], "3 inputs x 2 outputs, slots all-absent / all-current", cost=9, tiers=("thorough",)),
    M("C04", "c04_bip143_from_inv_k2x2", {"q": "bip143", "k_in": 2, "k_out": 2, "inv_states": True, "name": "bip143_inv_k2x2"}, BIP143_FUNCS,
      "2x2, all six FORKID flags, every index, all 8 Inv cache states: preimage == specification(current contents)", cost=9),
]

# ---------------------------------------------------------------- C10
EXPLANATION["C10"] = ("Legacy (pre-fork) sighash preimage. E2 executes sighash_legacy's MIR (clone, script blanking closure, set_input, SINGLE/NONE output and sequence rewriting, "
                      "derived PartialOrd on SigHash for the ANYONECANPAY test, to_bytes_impl, 4-byte type) and compares each path with the original SignatureHash serialisation. "
                      "Code-separator removal is the same uninterpreted function on both sides (Script internals are outside E2).")
LEGACY_FUNCS = ["Transaction::sighash_preimage_impl", "Transaction::sighash_legacy (+closures)", "Transaction::to_bytes_impl", "TxIn::to_bytes_impl", "TxOut::to_bytes_impl", "TxIn::set_unlocking_script/set_sequence",
                "Transaction::set_input/set_output/add_input/get_input/get_output", "<SigHash as PartialOrd>::partial_cmp (derived)", "VarIntWriter::write_varint"]
for (ki, ko, tiers, cost) in ((1, 1, ("quick", "thorough"), 2), (2, 2, ("quick", "thorough"), 5), (2, 1, ("quick", "thorough"), 3), (3, 3, ("thorough",), 9), (3, 1, ("thorough",), 5), (1, 2, ("thorough",), 3)):
    OBLIGATIONS.append(M("C10", f"c10_legacy_k{ki}x{ko}", {"q": "legacy", "k_in": ki, "k_out": ko}, LEGACY_FUNCS,
                         f"{ki} inputs x {ko} outputs, every input index 0..{ki}, six legacy flags (0x01,0x02,0x03,0x81,0x82,0x83); all scalars and script lengths symbolic", cost=cost, tiers=tiers))

# ---------------------------------------------------------------- C02
EXPLANATION["C02"] = ("Push-encoding clause only. E1: minimal push prefix for every length 1..2^32-1 (and refusal above), push opcode classes for all u64, "
                      "encode_pushdata = prefix ++ payload at boundary lengths. Tokenizer / truncated pushes / IF nesting are outside (ScriptBit unreachable for CBMC).")
OBLIGATIONS += [
    K("C02", "c02_push_prefix", "c02", ["Script::get_pushdata_bytes", "Script::get_pushdata_prefix_bytes"], "all u64 lengths >= 1 (usize = u64); unwind 8", cost=3, stubs=(FMT, IOERR), full_domain=True),
    K("C02", "c02_push_opcode_class", "c02", ["VarInt::get_pushdata_opcode"], "all u64", cost=1, full_domain=True),
    K("C02", "c02_encode_pushdata_1", "c02", ["Script::encode_pushdata"], "all 1-byte payloads", cost=1, stubs=(FMT, IOERR)),
    K("C02", "c02_encode_pushdata_75", "c02", ["Script::encode_pushdata"], "all 75-byte payloads; unwind 78", cost=2, stubs=(FMT, IOERR)),
    K("C02", "c02_encode_pushdata_76", "c02", ["Script::encode_pushdata"], "all 76-byte payloads; unwind 79", cost=2, stubs=(FMT, IOERR)),
    K("C02", "c02_encode_pushdata_255", "c02", ["Script::encode_pushdata"], "all 255-byte payloads; unwind 258", cost=3, stubs=(FMT, IOERR), tiers=("thorough",)),
    K("C02", "c02_encode_pushdata_256", "c02", ["Script::encode_pushdata"], "all 256-byte payloads; unwind 259", cost=3, stubs=(FMT, IOERR), tiers=("thorough",)),
]

# ---------------------------------------------------------------- C06
EXPLANATION["C06"] = ("Signature encodings. E1 on the compiled crate with the real k256 scalar parsing: compact 65-byte form for all inputs (thorough) and all wrong lengths (quick).")
OBLIGATIONS += [
    K("C06", "c06_compact_len_0", "c06", ["Signature::from_compact_bytes"], "empty buffer", cost=1),
    K("C06", "c06_compact_len_1", "c06", ["Signature::from_compact_bytes"], "all 1-byte buffers", cost=1),
    K("C06", "c06_compact_len_33", "c06", ["Signature::from_compact_bytes"], "all 33-byte buffers", cost=1),
    K("C06", "c06_compact_len_64", "c06", ["Signature::from_compact_bytes"], "all 64-byte buffers", cost=1),
    K("C06", "c06_compact_len_66", "c06", ["Signature::from_compact_bytes"], "all 66-byte buffers", cost=1),
    M("C06", "c06_compact_glue", {"q": "compact"}, ["Signature::from_compact_impl", "Signature::to_compact_bytes (+closure)", "RecoveryInfo::from_byte", "RecoveryInfo::default (derived)"],
      "all 256 header bytes x symbolic r,s (curve-order range check = uninterpreted predicate VALID_RS) x all 8 RecoveryInfo values; buffer lengths 0,1,32,33,64,66 refused", cost=1,
      stubs=("E2: k256 Signature::from_scalars/r/s/Scalar::to_bytes are opaque constructors/accessors with an uninterpreted validity predicate",)),
    M("C06", "c06_der_and_flag", {"q": "der"}, ["Signature::from_der_impl", "SighashSignature::from_bytes_impl", "<SigHash as TryFrom<u8>>::try_from"],
      "from_der on prefix++[last byte] with prefix of symbolic length <= 80 and every last byte; from_bytes_impl(DER ++ flag) for all 14 SigHash values and DER lengths 8..80 (both sides of the 72-byte branch); "
      "DER validity is an uninterpreted predicate (k256's DER parser is not executed)", cost=1,
      stubs=("E2: ecdsa::Signature::from_der is an opaque parser: Ok(sig(bytes)) iff DER_VALID(bytes) (uninterpreted)",)),
    K("C06", "c06_compact_parse_any", "c06", ["Signature::from_compact_bytes", "Signature::to_compact_bytes", "Signature::r", "Signature::s", "k256 Signature::from_scalars (real code)"],
      "all 65-byte strings; unwind 67", cost=30, tiers=("thorough",), timeout=5400, full_domain=True, mem_gb=40),
    K("C06", "c06_compact_recovery_matrix", "c06", ["Signature::from_compact_bytes", "Signature::to_compact_bytes(Some(RecoveryInfo))", "RecoveryInfo::new/from_byte"],
      "all 65-byte strings with header 27..=34 x all 8 RecoveryInfo values; unwind 67", cost=40, tiers=("thorough",), timeout=5400, full_domain=True, mem_gb=40),
]

# ---------------------------------------------------------------- C07
EXPLANATION["C07"] = ("Partial: address algebra only. E2 executes from_pubkey_hash_impl, set_chain_params_impl, from_pubkey_impl and to_unlocking_script_impl with SHA256D/HASH160 uninterpreted: "
                      "prefix / hash / checksum = SHA256D(prefix||hash)[0..4] for every prefix and hash; an address accepts exactly its own key (HASH160(key) == hash) for every prefix. "
                      "Plus the WIF payload layout of from_wif (key bytes and compression flag exactly as encoded, for every key). Base58 arithmetic, to_wif's string formatting, SEC1 validation and (de)compression are outside.")
OBLIGATIONS += [
    M("C07", "c07_address_algebra", {"q": "address"}, ["P2PKHAddress::from_pubkey_hash_impl", "P2PKHAddress::set_chain_params_impl", "P2PKHAddress::from_pubkey_impl", "P2PKHAddress::to_unlocking_script_impl", "PublicKey::to_bytes_impl"],
      "all 20-byte hashes, all prefix bytes, all 33-byte keys (opaque); hashes uninterpreted; asm/hex rendering opaque", cost=1),
    M("C07", "c07_wif_layout", {"q": "wif"}, ["PrivateKey::from_wif_impl (+is_compressed)", "PrivateKey::from_hex_impl", "PrivateKey::from_bytes_impl", "PrivateKey::compress_public_key"],
      "decoded payload version || 32 symbolic key bytes [|| 0x01] || SHA256D checksum, both compression forms, every version byte; Base58 and hex are inverse constructors, key validity is an uninterpreted predicate", cost=1),
]

# ---------------------------------------------------------------- C12
EXPLANATION["C12"] = ("Partial: framing and comparison logic. E2: BSM::prepend_magic_bytes == varint(24)||magic||varint(len)||msg for every message length (crossing 253 and 65536 in one query); "
                      "sign_impl/sign_with_k_impl hand exactly that string to the signer with Sha256d; verify_message_impl accepts iff the recovered key's HASH160 equals the address hash and the "
                      "signature verifies, for EVERY network prefix (recovery/verification are uninterpreted predicates); compact 65-byte round trip via the C06 glue query. "
                      "That real signatures verify / wrong ones fail is EC arithmetic (outside).")
OBLIGATIONS += [
    M("C12", "c12_bsm_magic", {"q": "bsm_magic"}, ["BSM::prepend_magic_bytes", "BSM::sign_impl", "BSM::sign_with_k_impl", "VarIntWriter::write_varint"], "message of symbolic length <= 2^33; signer opaque", cost=1),
    M("C12", "c12_bsm_verify", {"q": "bsm_verify"}, ["BSM::verify_message_impl", "P2PKHAddress::from_pubkey_impl", "P2PKHAddress::from_pubkey_hash_impl", "P2PKHAddress::to_string_impl", "P2PKHAddress::to_pubkey_hash"],
      "all prefixes, hashes, checksums; message <= 252 bytes; key recovery and ECDSA verification are uninterpreted predicates; Base58 is an injective constructor", cost=1),
    M("C12", "c12_compact_glue", {"q": "compact", "name": "compact_glue_c12"}, ["Signature::from_compact_impl", "Signature::to_compact_bytes", "RecoveryInfo::from_byte"], "as C06 c06_compact_glue", cost=1),
]

# ---------------------------------------------------------------- C19
EXPLANATION["C19"] = ("E2 executes Script::match_impl on STRUCTURED scripts (lists of ScriptBit values) against templates (lists of MatchToken values): every token kind x every element kind, "
                      "all five length comparisons with symbolic lengths, extraction order and tags, unequal lengths; and Transaction::match_output(s)/match_input(s) with every "
                      "present/absent combination of template/exact/min/max on symbolic values (template = uninterpreted predicate). Template TEXT parsing, Signature/PublicKey decoding "
                      "(summarised as predicates) and self-templates (ASM) are outside.")
OBLIGATIONS += [
    M("C19", "c19_template_match", {"q": "template"}, ["Script::match_impl (+closures)", "Script::test_impl", "derived PartialEq on OpCodes / Vec<u8>"],
      "templates and scripts of 0..2 elements: 12 token kinds x 5 element kinds, opcodes equal/different, push payloads of symbolic length <= 300, symbolic Data(len) bound", cost=1,
      stubs=("E2: Signature::from_der_impl and PublicKey::from_bytes_impl are uninterpreted acceptance predicates in this query",)),
    M("C19", "c19_criteria_k2", {"q": "criteria", "k": 2}, ["Transaction::match_output", "Transaction::match_outputs", "Transaction::match_input", "Transaction::match_inputs", "Transaction::is_matching_output", "Transaction::is_matching_input", "TxIn::get_finalised_script_impl"],
      "2 outputs / 2 inputs (inputs carry satoshis and locking script), all 16 present/absent combinations of (template, exact, min, max), all 64-bit values and bounds", cost=2),
    M("C19", "c19_criteria_k3", {"q": "criteria", "k": 3}, ["same"], "3 outputs / 3 inputs", cost=6, tiers=("thorough",)),
]

# ---------------------------------------------------------------- C14 / C16 (interpreter)
EXPLANATION["C14"] = ("One step of the interpreter on a symbolic stack: E2 executes the MIR of Interpreter::match_opcode and of the ScriptStack number/bool codec "
                      "(push_number, pop_number, push_bigint, pop_bigint, to_bigint, pop_bool, push_bool) for every claimed non-signature opcode, every stack depth 0..arity+1 and every "
                      "combination of operand lengths from the stated alphabet with ALL byte values symbolic, and compares the resulting main/alt stacks and the success/failure outcome "
                      "with a reference written from the Bitcoin SV opcode specification (QF_BV queries). num-bigint is modelled as 128-bit integers (mul/div/rem uninterpreted and shared "
                      "with the reference; OP_LSHIFT/OP_RSHIFT are byte-string shifts). Plus c14_if_branch: which branch Interpreter::match_script_bit splices for OP_IF / OP_NOTIF for every truthiness class of the "
                      "condition item. Arbitrary whole scripts, OP_2MUL/OP_2DIV, CLTV/CSV and operands longer than the alphabet are outside.")
EXPLANATION["C16"] = ("Totality of one interpreter step: the same symbolic executions as C14, asking instead for ANY reachable panic (arithmetic overflow, slice/index bounds, unwrap, "
                      "division by zero, ...) in match_opcode and the stack codec for every claimed opcode, every depth 0..arity+1 and operand lengths of the alphabet; plus: after a failing "
                      "Interpreter::match_script_bit step (opcodes and IF/NOTIF) the interpreter's main and alt stacks equal those before the step; c16_interp_tx_total: Interpreter::from_transaction for every "
                      "input index and the signature-opcode step from states with out-of-range code-separator offsets / declared counts never panic; c16_step_vs_run: run_impl and repeated next_impl agree on "
                      "ten short script shapes and the step sequence ends after a failing step. Arbitrary whole scripts and ScriptBit::Coinbase (todo!()) are outside.")
import sys as _sys
_OPS_STACK = ["OP_0", "OP_1NEGATE"] + [f"OP_{i}" for i in range(1, 17)] + ["OP_NOP", "OP_VERIFY", "OP_RETURN", "OP_TOALTSTACK", "OP_FROMALTSTACK", "OP_IFDUP", "OP_DEPTH", "OP_DROP", "OP_DUP", "OP_NIP",
              "OP_OVER", "OP_PICK", "OP_ROLL", "OP_ROT", "OP_SWAP", "OP_TUCK", "OP_2DROP", "OP_2DUP", "OP_3DUP", "OP_2OVER", "OP_2ROT", "OP_2SWAP"]
_OPS_ARITH = ["OP_1ADD", "OP_1SUB", "OP_NEGATE", "OP_ABS", "OP_NOT", "OP_0NOTEQUAL", "OP_ADD", "OP_SUB", "OP_MUL", "OP_DIV", "OP_MOD", "OP_BOOLAND", "OP_BOOLOR", "OP_NUMEQUAL", "OP_NUMEQUALVERIFY",
              "OP_NUMNOTEQUAL", "OP_LESSTHAN", "OP_GREATERTHAN", "OP_LESSTHANOREQUAL", "OP_GREATERTHANOREQUAL", "OP_MIN", "OP_MAX", "OP_WITHIN"]
_OPS_SPLICE = ["OP_CAT", "OP_SPLIT", "OP_NUM2BIN", "OP_BIN2NUM", "OP_SIZE", "OP_INVERT", "OP_AND", "OP_OR", "OP_XOR", "OP_LSHIFT", "OP_RSHIFT", "OP_EQUAL", "OP_EQUALVERIFY", "OP_RIPEMD160", "OP_SHA1", "OP_SHA256", "OP_HASH160",
               "OP_HASH256", "OP_CODESEPARATOR", "OP_NOP1", "OP_NOP4", "OP_NOP5", "OP_NOP6", "OP_NOP7", "OP_NOP8", "OP_NOP9", "OP_NOP10", "OP_VER", "OP_VERIF", "OP_VERNOTIF", "OP_RESERVED", "OP_RESERVED1", "OP_RESERVED2"]
INTERP_FUNCS = ["Interpreter::match_opcode (+closures)", "ScriptStack for Vec<Vec<u8>>: push_number/pop_number/push_bigint/pop_bigint/push_bool/pop_bool/push_bytes/pop_bytes", "stack_trait::to_bigint", "Interpreter::verify"]
INTERP_STUBS = ("E2: num_bigint::BigInt is a 128-bit two's-complement bit-vector (from/to bytes, add, sub, neg, comparisons exact; mul/div/rem uninterpreted functions shared with the reference; shifts <= 40)",
                "E2: hash opcodes use the uninterpreted hash functions", "E2: Vec<Vec<u8>> is a list of byte strings of concrete length with symbolic content")
for _prop in ("C14", "C16"):
    for _nm, _ops in (("stack", _OPS_STACK), ("arith", _OPS_ARITH), ("splice", _OPS_SPLICE)):
        for _tier, _lens in (("quick", [0, 1, 2]), ("thorough", [0, 1, 2, 4, 5])):
            OBLIGATIONS.append(M(_prop, f"{_prop.lower()}_ops_{_nm}" + ("" if _tier == "quick" else "_long"), {"q": "opcode", "prop": _prop, "ops": _ops, "lens": _lens, "name": f"opcode_{_prop}_{_nm}"}, INTERP_FUNCS,
                                 f"{len(_ops)} opcodes ({', '.join(_ops[:6])}, ...); stack depth 0..arity+1; operand lengths from {_lens} bytes (all byte values symbolic; MUL/DIV/MOD/WITHIN/NUM2BIN lengths <= 1 in the quick tier); one alt-stack item",
                                 cost=5 if _tier == "quick" else 9, tiers=(_tier,), stubs=INTERP_STUBS, timeout=3000))
OBLIGATIONS.append(M("C16", "c16_step_error_state", {"q": "step_error"}, ["Interpreter::match_script_bit", "Interpreter::match_opcode"],
                     "every claimed opcode and IF/NOTIF as a single script step; stack depth 0..arity; operand length 1 (5 for number/bool consuming opcodes)", cost=2, stubs=INTERP_STUBS))

# ---------------------------------------------------------------- C09
EXPLANATION["C09"] = ("Decoder totality, decided on control flow with content-free inputs: E2 executes the MIR of each decoding entry point on a buffer/string of SYMBOLIC LENGTH "
                      "(reads return fresh values, slices return opaque strings of the computed length) and asks z3 for (a) any feasible path into a panic — the MIR's own overflow/bounds "
                      "assertions, slice-range and index checks, GenericArray length assertions, unwraps — and (b) any allocation whose size comes from the input and can exceed 64x the input "
                      "length + 1 MiB. Models are turned into concrete inputs and replayed natively under a 3 GB address-space cap (panic or abort = reproduced). Entry points: "
                      "ECIESCiphertext::from_bytes, PrivateKey::from_wif, P2PKHAddress::from_string, ExtendedPrivateKey/ExtendedPublicKey::from_string, ECDSA::verify_hashbuf, "
                      "ECDSA::sign_digest_with_deterministic_k, Signature::recover_public_key_from_digest, AES encrypt/decrypt x 4 modes, TxIn::from_outpoint_bytes, Signature::from_compact_bytes, "
                      "SighashSignature::from_bytes, Script::from_bytes (inputs <= 5 bytes, opcode classes abstracted), TxIn::read_in, TxOut::read_in, Transaction::from_bytes. "
                      "ASM/template text, JSON/CBOR, hex wrappers, deep IF nesting and memory use in general are outside; EC/Base58/hex/cipher internals are accept-or-reject oracles.")
OBLIGATIONS += [
    M("C09", "c09_decoders_total", {"q": "decoders"}, ["23 decoding entry points (see explanation) and their crate-internal callees: read_varint (3 impls), TxIn::read_in, TxOut::read_in, from_hex_impl, from_bytes_impl, is_compressed, ..."],
      "input length symbolic (<= 2^20 bytes; digests/keys/IVs <= 4096/64; Script::from_bytes <= 5 bytes); loops over input-declared counts unrolled twice; element decoders opaque inside Transaction::from_bytes", cost=4,
      stubs=("E2 decode models: Cursor reads return fresh values when enough bytes remain; bs58/hex decode, SecretKey/EncodedPoint parsing, DER, CBC/CTR construction and the EC entry points are accept-or-reject oracles; "
             "Base58 length fact: n characters decode to between 5n/7-1 and n bytes",), timeout=2400),
]

# ---------------------------------------------------------------- structured scripts (C02 serialiser clause, C10 separator removal)
SCRIPT_BITS_FUNCS = ["Script::to_bytes", "Script::script_bits_to_bytes (+closure, recursive)", "Script::get_script_length", "Script::remove_codeseparators", "Script::remove_codeseparators_from_bits (+closures)", "derived PartialEq on ScriptBit"]
SCRIPT_BITS_BOUNDS = ("8 script shapes over all five element kinds (opcode, direct push 1..75 bytes, PUSHDATA1/2/4 with payloads of symbolic length up to their maximum, IF/NOTIF with missing/empty/non-empty else branch, "
                      "nesting depth 2, coinbase, empty script); code separators at top level and inside both branches")
OBLIGATIONS.append(M("C01", "c01_script_serialiser", {"q": "script_bits", "name": "script_bits_c01"}, SCRIPT_BITS_FUNCS, SCRIPT_BITS_BOUNDS, cost=1))
OBLIGATIONS.append(M("C02", "c02_script_serialiser", {"q": "script_bits", "name": "script_bits_c02"}, SCRIPT_BITS_FUNCS, SCRIPT_BITS_BOUNDS, cost=1))
OBLIGATIONS.append(M("C10", "c10_remove_codeseparators", {"q": "script_bits", "name": "script_bits_c10"}, SCRIPT_BITS_FUNCS, SCRIPT_BITS_BOUNDS, cost=1))
EXPLANATION["C02"] += (" E2 on STRUCTURED scripts (lists of ScriptBit values): Script::to_bytes/script_bits_to_bytes emits exactly the script wire format for every element kind incl. nested "
                       "conditionals with missing/empty else branches and PUSHDATA1/2/4 payloads of symbolic length.")
EXPLANATION["C10"] += (" Separately, on structured scripts, remove_codeseparators is shown to delete exactly the OP_CODESEPARATOR elements, also inside conditional branches.")

# ---------------------------------------------------------------- C13 (composition layer only)
EXPLANATION["C13"] = ("Partial: the COMPOSITION LAYER only. The primitive algorithms (sha2, sha-1, ripemd160, hmac, pbkdf2 crates) are uninterpreted functions of the bytes they are fed - their "
                      "equality with the published algorithms is NOT decided (SAT-hard, external code). E2 executes the crate's own code from MIR: Hash::sha_256d = SHA256(SHA256(x)), "
                      "hash_160 = RIPEMD160(SHA256(x)), the other four call the right primitive on exactly the input; the streaming adapters Sha256d / Sha256r / Hash160 give F(a||b) for "
                      "update(a), update(b) through every finaliser (finalize_fixed, finalize_into, finalize_fixed_reset, finalize_into_reset / finalize_into_dirty), reversed mode is exactly the "
                      "byte reversal, and after a resetting finaliser the engine is empty; the six HMAC wrappers compute HMAC_X(key, input) with the whole key; KDF::pbkdf2 maps the enum to "
                      "PBKDF2-HMAC-SHA1/256/512 with (password, salt, rounds, output_length) in that order and stores the salt.")
OBLIGATIONS.append(M("C13", "c13_hash_composition", {"q": "hash_layer"}, ["Hash::{sha_256,sha_1,ripemd_160,sha_512,sha_256d,hash_160}", "Hash::hmac + six *_hmac wrappers", "Sha256d/Sha256r/Hash160: Default, reverse, update, finalize_* , reset", "KDF::pbkdf2_impl"],
                     "inputs, keys, salts, chunks: byte strings of symbolic length; both reverse modes; all finalisers; all three PBKDF2 algorithms, symbolic rounds and output length (<= 2^20)", cost=1,
                     stubs=("E2 hash models: primitive engines (Sha256, Sha1, Ripemd160, Sha512) accumulate the bytes they are fed and finalise to an uninterpreted function of them; Hmac<T> and pbkdf2::<Hmac<T>> are uninterpreted functions of their arguments; "
                            "the digest crate's blanket Digest impl (new/update/chain/finalize/digest) is modelled in terms of the crate's own Default/Update/FixedOutput impls",)))

# ---------------------------------------------------------------- C11 (BIE1 framing glue only)
EXPLANATION["C11"] = ("Partial: the FRAMING GLUE only. Elliptic-curve arithmetic (ECDH point, public-key derivation, point (de)compression and validation), SHA-512, AES-128-CBC and "
                      "HMAC-SHA256 are uninterpreted functions of the bytes they are given - their agreement with the standards is NOT decided here. E2 executes the crate's own code from MIR and "
                      "decides, for all keys, messages and both inclusion modes: iv/ke/km are bytes 0..16 / 16..32 / 32..64 of SHA-512(compressed ECDH point); encrypt puts AES-128-CBC(ke, iv, message) "
                      "in the body, the sender's COMPRESSED public key in the key slot (for either compression flag of the sender key) and HMAC-SHA256(km, 'BIE1' || key || body) in the MAC; to_bytes is "
                      "'BIE1' || key || body || MAC and from_bytes(to_bytes(c)) returns the same three parts for every body length; decrypt of an ARBITRARY ciphertext value returns plaintext only on "
                      "paths where the stored MAC equals HMAC-SHA256(km, 'BIE1' || embedded key || body) - so every body, key and MAC byte is covered - and then returns AES-128-CBC^-1(ke, iv, body); "
                      "a matching MAC with valid padding is never rejected. decrypt(encrypt(m)) = m follows from these equalities together with ECDH symmetry and AES invertibility, which are assumed.")
OBLIGATIONS.append(M("C11", "c11_bie1_glue", {"q": "ecies"}, ["ECIES::derive_cipher_keys_impl", "ECIES::encrypt_impl", "ECIES::decrypt_impl", "ECIESCiphertext::to_bytes", "ECIESCiphertext::from_bytes_impl",
                                                              "PrivateKey::to_public_key_impl", "PublicKey::{to_compressed_impl,to_bytes_impl,from_bytes_impl,from_encoded_point}", "AES::{encrypt_impl,decrypt_impl} (CBC-128 arm)", "Hash::{sha_512,sha_256_hmac,hmac}"],
                     "all 32-byte secrets, both compression flags, public-key encodings of symbolic length <= 65, messages/bodies of symbolic length (64-bit), both inclusion modes; MAC field 32 bytes and embedded key 33 bytes in the round-trip query (the only sizes the constructors produce); decrypt from an arbitrary ciphertext value with an embedded key of any length <= 65", cost=1,
                     stubs=("E2 ECIES models: SecretKey::to_nonzero_scalar, PublicKey::from_sec1_bytes / to_projective / Mul / to_affine / from_affine / to_encoded_point -> ECDH_COMPRESSED(secret, peer key bytes); "
                            "PrivateKey::get_point -> PUBKEY_(UN)COMPRESSED(secret); PublicKey::to_decompressed_impl -> POINT_DECOMPRESS; sec1 EncodedPoint::from_bytes -> validity predicate, compress -> POINT_COMPRESS; "
                            "Cbc::new_from_slices / encrypt_vec / decrypt_vec -> CBC_<cipher>_<padding>_{ENCRYPT,DECRYPT,DECRYPT_OK}(key, iv, data) with the key/IV size test; hash engines and Hmac as in C13",
                            "assumed: public keys held in PublicKey values are valid point encodings (constructor invariant)")))

# ---------------------------------------------------------------- C20 (mode dispatch only)
EXPLANATION["C20"] = ("Partial: the MODE DISPATCH only. The block cipher, CBC/PKCS#7 and CTR implementations (aes, block-modes crates) are uninterpreted functions - equality with standard AES, "
                      "the padding rule, ciphertext lengths and decrypt-inverts-encrypt inside those crates are NOT decided. E2 executes AES::encrypt_impl / decrypt_impl / aes_ctr from MIR for each of the "
                      "four modes and decides, for keys, IVs and messages of arbitrary length: the call fails iff the key size is not 16 (AES-128) / 32 (AES-256) or the IV size is not 16 (or, CBC decryption, "
                      "the primitive reports bad padding); otherwise the result is exactly CBC_<cipher>_PKCS7 encrypt/decrypt of (key, iv, message) for the cipher the mode names, or the CTR keystream of "
                      "(key, iv) for that cipher applied from offset 0 to the whole message, returned unmodified.")
OBLIGATIONS.append(M("C20", "c20_mode_dispatch", {"q": "aes_dispatch"}, ["AES::encrypt_impl", "AES::decrypt_impl", "AES::aes_ctr::<Aes128Ctr>", "AES::aes_ctr::<Aes256Ctr>"],
                     "all four AESAlgorithms variants x both directions; key and IV of symbolic length <= 64, message of symbolic length (64-bit)", cost=1,
                     stubs=("E2 AES models: Cbc::<C, P>::new_from_slices / encrypt_vec / decrypt_vec and <T as NewCipher>::new_from_slices / StreamCipherSeek::seek / StreamCipher::apply_keystream are uninterpreted functions named after the concrete cipher type at the call site, with the key/IV size test of the real constructors",)))

# ---------------------------------------------------------------- C08 (BIP32 glue only)
EXPLANATION["C08"] = ("Partial: the BIP32 GLUE only. Scalar addition mod n, point addition / generator multiplication, key and point validity, HMAC-SHA512, HASH160, SHA256d and the Base58 alphabet "
                      "are uninterpreted (Base58 as a constructor that decode inverts) - equality with an independent BIP32 implementation therefore holds modulo those primitives and is additionally "
                      "spot-checked natively against an independent implementation on two fixed paths, which is not part of the solver claim. E2 executes the crate's own code from MIR and decides, for every "
                      "parent state and index: from_seed = split of HMAC-SHA512(key 'Bitcoin seed', data seed), depth 0, index 0, fingerprint 0; CKDpriv uses data 00||k||ser32(i) exactly for i >= 2^31 and "
                      "serP(K)||ser32(i) otherwise, key = chain code, child = parent + IL, chain = IR, fingerprint = HASH160(serP(K))[0..4], depth + 1, index i; CKDpub refuses exactly i >= 2^31, uses "
                      "the same data layout, child = point(IL) + K; the string payload is version || depth || fingerprint || ser32(index) || chain || (00||k | serP(K)) || SHA256d[0..4] with the xprv/xpub "
                      "version constants; from_string on an ARBITRARY 82-byte payload returns exactly those fields and accepts only when the last four bytes are the checksum of the first 78; "
                      "every well-formed path component digits[' h H] parses to the value plus 2^31 exactly when a suffix is present and is refused from 2^31 up. "
                      "NOT decided: derive_from_path's splitting of the path string on '/', paths deeper than one step (composition of the step claim), mnemonic seeds.")
OBLIGATIONS.append(M("C08", "c08_bip32_glue", {"q": "bip32"}, ["ExtendedPrivateKey::{from_seed_impl,derive_impl,to_string_impl,from_string_impl}", "ExtendedPublicKey::{derive_impl,to_string_impl,from_string_impl}", "PrivateKey::{from_bytes_impl,to_bytes}", "PublicKey::{from_private_key_impl,from_bytes_impl,to_bytes_impl}", "Hash::{sha_512_hmac,hash_160,sha_256d}"],
                     "all parent states (32-byte secret / 33-byte key, chain code, depth < 255, index, fingerprint), all 2^32 child indices, seeds of symbolic length, all 82-byte string payloads", cost=1,
                     stubs=("E2 BIP32 models: SecretKey::from_be_bytes -> validity predicate; Scalar add -> SCALAR_ADD_MOD_N (commutative); from_sec1_bytes -> point validity; GENERATOR * s -> POINT_MUL_G; point add -> POINT_ADD (commutative); from_affine -> identity test; "
                            "PrivateKey::get_point -> PUBKEY_COMPRESSED(secret); content-aware std::io::Cursor<Vec<u8>> (fixed-size reads/writes, set_position, read_to_end, get_ref); chunks_exact; bs58 encode/decode as inverse constructors; hash engines and Hmac as in C13",
                            "assumed: the public_key field of an ExtendedPrivateKey is the compressed key of its private key (established by every constructor); parent depth < 255")))
OBLIGATIONS.append(M("C08", "c08_path_components", {"q": "bip32_path", "max_digits": 10}, ["ExtendedPrivateKey::parse_str_to_idx", "ExtendedPublicKey::parse_str_to_idx"],
                     "every component of 1..10 decimal digits (all values up to 9999999999, so both sides of 2^31 and of u32 overflow) with no suffix or one of ' h H; ASCII only", cost=1,
                     stubs=("E2 string models for byte strings of known length: str::ends_with(char), to_lowercase (ASCII), trim_end_matches(char), parse::<u32> (optional '+', digits, overflow)",)))

# ---------------------------------------------------------------- C05 (signing / verification glue only)
EXPLANATION["C05"] = ("Partial: the SIGNING GLUE only. Scalar reduction mod n, RFC 6979 nonce generation, the ECDSA sign and verify primitives (including low-S normalisation, which k256's "
                      "try_sign_prehashed performs), recovery ids and Diffie-Hellman are uninterpreted functions - that signatures verify, are low-S, equal an independent RFC 6979 implementation and that "
                      "ECDH is symmetric is therefore NOT decided by the solver (it is spot-checked natively on two fixed keys, outside the claim). E2 executes the crate's own code from MIR and decides, "
                      "for all keys, messages and both hash choices: every signing entry point (deterministic nonce in both byte-order modes, randomised nonce in both modes, caller nonce, pre-hashed digest) hands "
                      "the primitive the signer's scalar and the BIG-ENDIAN reduction of exactly SHA-256 / double-SHA-256 of the message (resp. of the digest) - the value the verifier uses; deterministic nonces come "
                      "from RFC 6979 over the crate's SHA-256 engine keyed with the signer's scalar, fed the (byte-reversed, in that mode) digest, with no extra entropy; the caller's nonce is used unchanged; the "
                      "returned Signature is the primitive's output with recovery info (y_odd, x_reduced, key-compression flag) from its recovery id; verify_digest / verify_hashbuf accept exactly when the "
                      "primitive holds for (key bytes, that reduction, signature); derive_shared_key returns the primitive's output for (own scalar, peer key bytes).")
OBLIGATIONS.append(M("C05", "c05_signing_glue", {"q": "ecdsa_glue"}, ["ECDSA::{sign_with_deterministic_k_impl,sign_with_random_k_impl,sign_with_k_impl,sign_digest_with_deterministic_k_impl}", "ECDSA::{sign_preimage_deterministic_k,sign_preimage_random_k,sign_digest_bytes_deterministic_k}",
                                                                    "ECDSA::{verify_digest_impl,verify_hashbuf_impl}", "ECDH::derive_shared_key_impl", "get_hash_digest", "Sha256r adapter (update/finalize/reverse)"],
                     "all 256-bit private scalars and nonces, messages of symbolic length (64-bit), all 32-byte digests, both SigningHash values, both reverse_k modes, both key-compression flags; public keys of symbolic length <= 65; arbitrary signature values", cost=1,
                     stubs=("E2 signing models: Scalar::from_{be,le}_bytes_reduced / from_uint_reduced(U256::from_{le,be}_slice) -> REDUCE_MOD_N of the big-endian value; rfc6979_generate_k::<_, D> -> RFC6979_K_<D>(x, h, entropy); OsRng::fill_bytes -> fresh bytes; "
                            "SignPrimitive::try_sign_prehashed -> (signature, recovery id) as functions of (d, k, z) or an error; recoverable::Signature::new / recovery_id / From, RecoveryId::{is_y_odd,is_x_reduced} -> functions of that signature; "
                            "EncodedPoint::from_bytes, VerifyingKey::from_encoded_point, AffinePoint::from_encoded_point -> validity predicates; DigestVerifier::verify_digest / VerifyPrimitive::verify_prehashed -> ECDSA_VERIFY(key bytes, z, signature); diffie_hellman -> ECDH_SHARED_X; hash engines as in C13",)))

OBLIGATIONS.append(M("C09", "c09_pubkey_use_total", {"q": "pubkey_use"}, ["PublicKey::from_bytes_impl", "PublicKey::{to_decompressed_impl,to_compressed_impl}", "ECDSA::{verify_hashbuf_impl,verify_digest_impl}", "ECDH::derive_shared_key_impl", "P2PKHAddress::from_pubkey_impl"],
                     "PublicKey::from_bytes_impl on every byte string of symbolic length <= 65, followed by each listed operation on the accepted key: no panic path (the anchor 'unwrap on decompression of unvalidated points')", cost=1,
                     stubs=("E2 point models: SEC1 format validity, curve membership and encoding kind (identity/compact/compressed/uncompressed) are uninterpreted predicates of the key bytes; EncodedPoint::from_bytes accepts iff the format is valid, "
                            "k256 PublicKey::from_sec1_bytes / VerifyingKey::from_encoded_point iff additionally on the curve, AffinePoint::decompress / from_encoded_point return a CtOption that is present iff on the curve (or the identity); CtOption::unwrap / Option::unwrap panic when absent",
                            "stated fact: an encoding of a non-identity curve point is of the compressed or uncompressed kind")))

# ---------------------------------------------------------------- C15 (signature-opcode glue, one step)
EXPLANATION["C15"] = ("Partial: the GLUE of the signature opcodes, one interpreter step. ECDSA verification, DER and curve-point validity are uninterpreted predicates; the sighash preimage function "
                      "(Transaction::sighash_preimage_impl) is an uninterpreted function of the flag in the step queries, whose ARGUMENTS are checked there; the function itself is decided against the published formats "
                      "by two further obligations (the C03 / C10 queries at 1 input x 1 output, all twelve standard flags). E2 executes "
                      "match_opcode -> checksig / multisig -> verify_tx_signature / calculate_sighash_preimage -> SighashSignature::from_bytes_impl, Transaction::_verify, ECDSA::verify_hashbuf_impl and "
                      "PublicKey::from_bytes_impl from MIR on a symbolic stack and spending context and decides: key = top item, signature = item below; the flag is the signature's last byte; the preimage is "
                      "requested for the input being verified, with the locking-script elements after the last executed code separator and the declared value of the spent output; OP_CHECKSIG(VERIFY) accepts "
                      "exactly when the item minus its flag byte is valid DER, the key is a curve point and ECDSA verification holds over double-SHA256 of that preimage (not its byte-reversed digest), and "
                      "rejects when operands, locking script, value or input are missing; OP_CHECKMULTISIG(VERIFY) accepts exactly when the signatures match distinct keys in order (reference matching over the "
                      "same verification predicate); the step removes exactly its operands (and the dummy) and pushes canonical true/false. c15_separator_context decides over WHOLE RUNS (run_impl on unlocking ++ locking elements) which subscript reaches the sighash after executed "
                      "conditionals, several separators and separators in branches that do not run; c15_separator_in_branch isolates the open known finding (separator executing inside a branch). "
                      "NOT decided: end-to-end spends with real signatures (exercised only by the native replay suite), run shapes other than the ten listed, that real signatures verify (EC).")
for _op in ("OP_CHECKSIG", "OP_CHECKSIGVERIFY"):
    OBLIGATIONS.append(M("C15", f"c15_{_op[3:].lower()}_step", {"q": "checksig", "part": "single", "ops": [_op]}, ["Interpreter::match_opcode (" + _op + ")", "checksig", "verify_tx_signature", "calculate_sighash_preimage", "SighashSignature::from_bytes_impl", "Signature / k256 from_der (predicate)", "Transaction::_verify", "ECDSA::verify_hashbuf_impl", "PublicKey::from_bytes_impl"],
                         "stack depth 0..3; signature item 0, 1, 9 or 74 bytes and key item 0, 33 or 65 bytes with symbolic content; flag bytes 0x01, 0x41, 0xc3, 0x40 and every non-flag byte (thorough: all 256); code-separator offset 0..4 over a 2-element unlocking and 3-element locking script; locking script / value / input present or absent; a signature item that is itself complete DER (no flag byte) is outside the bound", cost=6))
OBLIGATIONS.append(M("C15", "c15_multisig_step_n2", {"q": "checksig", "part": "multi", "max_n": 2}, ["Interpreter::match_opcode (OP_CHECKMULTISIG, OP_CHECKMULTISIGVERIFY)", "multisig", "verify_tx_signature", "calculate_sighash_preimage"],
                     "1 <= m <= n <= 2, signatures 9 bytes (valid DER + flag 0x41 / 0x01 in three assignments), keys 33 bytes on the curve, all verification outcomes symbolic", cost=1))
OBLIGATIONS.append(M("C15", "c15_multisig_step_n3", {"q": "checksig", "part": "multi", "max_n": 3, "min_n": 3}, ["Interpreter::match_opcode (OP_CHECKMULTISIG, OP_CHECKMULTISIGVERIFY)", "multisig", "verify_tx_signature", "calculate_sighash_preimage"],
                     "1 <= m <= n = 3, as above", cost=2))
# the preimage function the step queries treat as uninterpreted, decided against the published formats for the twelve standard flag bytes (the C03 / C10 queries at 1x1, registered here because C15's statement includes "over the specified signature-hash preimage")
OBLIGATIONS.append(M("C15", "c15_preimage_forkid_k1x1", {"q": "bip143", "k_in": 1, "k_out": 1, "name": "c15_bip143_k1x1"}, BIP143_FUNCS,
                     "1 input x 1 output, input index 0..1, six FORKID flags (0x41 0x42 0x43 0xc1 0xc2 0xc3), all scalars, value and script lengths symbolic", cost=2))
OBLIGATIONS.append(M("C15", "c15_preimage_legacy_k1x1", {"q": "legacy", "k_in": 1, "k_out": 1, "name": "c15_legacy_k1x1"}, LEGACY_FUNCS,
                     "1 input x 1 output, input index 0..1, six legacy flags (0x01 0x02 0x03 0x81 0x82 0x83), all scalars and script lengths symbolic", cost=2))
for _op in ("OP_CHECKSIG", "OP_CHECKSIGVERIFY"):
    OBLIGATIONS.append(M("C15", f"c15_{_op[3:].lower()}_step_allflags", {"q": "checksig", "part": "single", "ops": [_op], "flags": None}, ["Interpreter::match_opcode (" + _op + ")", "checksig", "verify_tx_signature", "calculate_sighash_preimage", "SighashSignature::from_bytes_impl"],
                         "as the quick obligation with all 256 values of the flag byte (all fourteen SigHash values)", cost=20, tiers=("thorough",), timeout=5400))

# whole runs with a spending context: which subscript reaches the sighash once conditionals / several separators have executed
OBLIGATIONS.append(M("C15", "c15_separator_context", {"q": "checksig", "part": "context"}, ["Interpreter::run_impl", "Interpreter::next_impl", "Interpreter::match_script_bit (splice of executed branches)", "Interpreter::match_opcode (OP_CODESEPARATOR, OP_CHECKSIG, OP_CHECKSIGVERIFY, OP_CHECKMULTISIG)", "checksig", "multisig", "calculate_sighash_preimage"],
                     "nine run shapes over a 9-byte signature item, a 33-byte key and a symbolic condition byte: no separator; one / two top-level separators; IF..ELSE..ENDIF, NOTIF (condition pushed by the unlocking script) and a nested IF executed BEFORE the separator; a separator in a branch that does not run; a conditional after the separator; 1-of-1 CHECKMULTISIG after a conditional and a separator. Decided: the subscript argument of sighash_preimage_impl (compared in serialisation order), input index, value. sighash / DER / point / ECDSA are accept-or-reject oracles", cost=2))
OBLIGATIONS.append(M("C15", "c15_separator_in_branch", {"q": "checksig", "part": "context_inbranch"}, ["Interpreter::run_impl", "Interpreter::match_script_bit", "Interpreter::match_opcode (OP_CODESEPARATOR, OP_CHECKSIG)", "calculate_sighash_preimage"],
                     "one run shape: OP_1 OP_IF OP_CODESEPARATOR OP_NOP OP_ENDIF <key> OP_CHECKSIG (the separator executes inside a branch; the reference subscript is the remaining serialisation OP_NOP OP_ENDIF <key> OP_CHECKSIG)", cost=1))

OBLIGATIONS.append(M("C16", "c16_interp_tx_total", {"q": "interp_tx_total"}, ["Interpreter::from_transaction", "Interpreter::match_opcode (OP_CHECKSIG, OP_CHECKMULTISIG)", "checksig", "multisig", "calculate_sighash_preimage", "verify_tx_signature"],
                     "from_transaction: transactions with 0..2 inputs x every usize index; signature-opcode step: code-separator offset up to 3 beyond unlocking + locking script length (states reached through spliced conditional branches), OP_CHECKMULTISIG on stacks of 1..3 one-byte items with every declared count; sighash preimage, DER, point and ECDSA outcomes are accept-or-reject oracles", cost=1))

OBLIGATIONS.append(M("C14", "c14_if_branch", {"q": "if_branch"}, ["Interpreter::match_script_bit (ScriptBit::If)", "ScriptStack::pop_bool", "Vec::splice"],
                     "OP_IF and OP_NOTIF, with and without an else branch, stack depth 0..2, condition item of 0, 1, 2 or 5 bytes with symbolic content (every truthiness class incl. negative zero): the spliced-in branch, the consumed item, the untouched remainder", cost=1))
OBLIGATIONS.append(M("C16", "c16_step_vs_run", {"q": "step_vs_run"}, ["Interpreter::run_impl", "Interpreter::next_impl", "Interpreter::match_script_bit", "Interpreter::match_opcode"],
                     "twelve short scripts (arithmetic, stack, alt stack, VERIFY, IF/ELSE, NOTIF, nested IF, too many DROPs, empty, OP_RETURN followed by more elements at top level and inside an executed branch) on two symbolic one-byte operands: run_impl and repeated next_impl executed on the same path end in the same outcome and stacks; the step sequence ends after a failing step; nothing runs after an executed OP_RETURN", cost=1))

OBLIGATIONS.append(M("C02", "c02_truncated_direct_push", {"q": "script_parse", "part": "direct_truncation"}, ["Script::from_bytes"],
                     "the shapes of c02_script_parse that end in a DIRECT push (1, 2, 3, 75 bytes), cut by one byte and by the whole payload: must be rejected - this is the open known finding (the library shortens the push)", cost=1,
                     stubs=("E2: content-aware std::io::Cursor over a byte string of known length (read_u8/u16/u32, partial read, position)",)))
OBLIGATIONS.append(M("C02", "c02_script_parse", {"q": "script_parse", "part": "no_direct_truncation"}, ["Script::from_bytes", "Script::if_statement_pass", "Script::read_if_statement", "Script::read_pass", "Script::read_fail", "OpCodes::from_u8 (num_derive)"],
                     "twelve structured script shapes (opcodes; direct pushes of 1, 2, 3, 75 bytes; PUSHDATA1 of 3, 76, 255; PUSHDATA2 of 256; IF/ELSE, NOTIF without ELSE, empty branches, two-level nesting; OP_0 before a push; the empty script) with symbolic payload bytes: parse(reference serialisation) = the structure; the same inputs cut short inside a final OP_PUSHDATA push and three unclosed conditionals must be rejected (truncated DIRECT pushes: see c02_truncated_direct_push)", cost=1,
                     stubs=("E2: content-aware std::io::Cursor over a byte string of known length (read_u8/u16/u32, partial read, position)",)))

for (_k, _tiers, _cost, _to) in ((3, ("quick",), 3, 1800), (4, ("thorough",), 30, 7200)):
    OBLIGATIONS.append(M("C02", f"c02_script_classes_{_k}", {"q": "script_enum", "max_elems": _k}, ["Script::from_bytes", "Script::if_statement_pass", "Script::read_if_statement", "Script::read_pass", "Script::read_fail", "OpCodes::from_u8 (num_derive)", "Script::to_bytes", "Script::script_bits_to_bytes"],
                         f"EVERY sequence of at most {_k} elements over 13 element classes (OP_0; direct pushes of 1 and 2 bytes; OP_PUSHDATA1 of 0 and 1 bytes; OP_PUSHDATA2 and OP_PUSHDATA4 of 1 byte - non-minimal forms; OP_IF, OP_NOTIF, OP_ELSE, OP_ENDIF in any "
                         "order incl. stray / doubled / unclosed; an ordinary opcode; a byte that is no opcode), payload bytes symbolic, plus every cut inside a final OP_PUSHDATA element. Decided per input: accepted => the REAL Script::to_bytes of the "
                         "parsed script and the serialisation order of the parsed structure are exactly the input bytes; balanced well-formed sequences are accepted; unclosed conditionals and truncated final OP_PUSHDATA pushes are rejected "
                         "(truncated DIRECT pushes: c02_truncated_direct_push)", cost=_cost, tiers=_tiers, timeout=_to,
                         stubs=("E2: content-aware std::io::Cursor over a byte string of known length (read_u8/u16/u32, partial read, position)",)))

OBLIGATIONS.append(M("C07", "c07_pubkey_derivation", {"q": "pubkey_derivation"}, ["PrivateKey::get_point", "PublicKey::from_private_key_impl"],
                     "symbolic secret scalar and compression flag; scalar multiplication (public point of the secret) and the SEC1 encoder are uninterpreted: decided is that the bytes returned are the encoding of THIS key's "
                     "public point in the form the key's flag states (compressed iff is_pub_key_compressed) and that from_private_key_impl stores those bytes with that flag", cost=1))
_REC_FUNCS = ["Signature::get_public_key", "Signature::get_public_key_from_digest", "get_hash_digest", "PublicKey::from_bytes_impl", "PublicKey::from_encoded_point"]
_REC_BOUNDS = ("both hash choices x recovery info present / absent (message of symbolic length); caller digests of 32, 31, 33 and 0 bytes; signature value, the three recovery booleans and the recovered point symbolic. "
               "The recovery primitive (recover_verify_key_from_digest[_bytes]) and the SEC1 encoder are uninterpreted: decided is which signature, recovery id and digest reach the primitive and that the returned key is the "
               "recovered point encoded compressed iff the signature's key-compression marker says so")
OBLIGATIONS.append(M("C12", "c12_recover_glue", {"q": "recover_glue", "name": "recover_glue_c12"}, _REC_FUNCS, _REC_BOUNDS, cost=1))
OBLIGATIONS.append(M("C06", "c06_recover_glue", {"q": "recover_glue"}, _REC_FUNCS, _REC_BOUNDS, cost=1))

EXPLANATION["C02"] += (" c02_script_classes_*: Script::from_bytes and then the real Script::to_bytes on EVERY sequence of at most 3 (thorough 4) elements over 13 element classes (incl. non-minimal OP_PUSHDATA forms, stray / doubled / "
                       "unclosed conditional opcodes, a non-opcode byte) plus every cut inside a final OP_PUSHDATA element, against an independent tokenizer's accept / reject / either verdict.")
EXPLANATION["C06"] += (" c06_recover_glue: Signature::get_public_key / get_public_key_from_digest with the recovery primitive and the SEC1 encoder uninterpreted (which signature, recovery id and digest reach the primitive; the key comes back "
                       "compressed iff the signature's key-compression marker says so).")
EXPLANATION["C12"] += (" c12_recover_glue: the recovery step BSM verification relies on, as C06 c06_recover_glue.")
EXPLANATION["C07"] += (" c07_pubkey_derivation: PrivateKey::get_point / PublicKey::from_private_key_impl encode this key's public point in the form the key's compression flag states (scalar multiplication and SEC1 encoder uninterpreted).")

# ---------------------------------------------------------------- C17 (token level)
EXPLANATION["C17"] = ("Partial: TOKEN LEVEL only. Text is modelled as a list of tokens separated by single spaces: opcode names and decimal literals are concrete strings (names are the OpCodes variant "
                      "identifiers read from the source, as strum renders and parses them), hex::encode of a byte string is 'the lower-case hex of these bytes', hex::decode inverts it, and a comparison of such a "
                      "token with a string literal is the byte-wise condition under which the rendering equals the literal. E2 executes Script::to_asm_string_impl(extended = false) -> script_bits_to_asm_string "
                      "(incl. its closure and the recursion into conditional branches) and then Script::from_asm_string -> map_string_to_script_bit -> if_statement_pass from MIR on structured scripts with "
                      "symbolic push payloads and decides that the re-parsed script is the original: element kinds, opcode identities, push class chosen from the data length (direct / PUSHDATA1 / PUSHDATA2), "
                      "payload bytes, conditional nesting with empty and missing branches. NOT decided: character-level behaviour (whitespace runs, line breaks, upper-case or odd-length hex, what exactly is "
                      "rejected), the extended rendering, strum's generated name tables.")
OBLIGATIONS.append(M("C17", "c17_asm_extended", {"q": "asm_roundtrip", "part": "extended", "name": "asm_extended"}, ["Script::to_asm_string_impl(extended = true)", "Script::script_bits_to_asm_string (+closure, format! executed)"],
                     "the EXTENDED rendering of fourteen minimally pushed structured scripts (one listing EVERY named opcode except the conditional and OP_PUSHDATA opcodes; direct pushes of 1, 2, 3, 75 bytes; PUSHDATA1 of 76 and 255; PUSHDATA2 of 256; IF/ELSE, NOTIF, empty branches, two-level nesting; OP_0), payload bytes symbolic: "
                     "every direct push renders as `OP_PUSH <decimal length> <hex>`, every OP_PUSHDATAn push as `<opcode name> <decimal length> <hex>`, OP_0 as its name, at every nesting depth; format! templates of the compiled "
                     "format_args! are expanded by the model (length-prefixed literal pieces, 0xc0 = next argument)", cost=1))
OBLIGATIONS.append(M("C17", "c17_asm_alias_values", {"q": "asm_roundtrip", "alias": "include"}, ["Script::to_asm_string_impl", "Script::from_asm_string", "Script::map_string_to_script_bit"],
                     "the same fourteen scripts with NO restriction on the payloads: the only deviation is the open known finding (a one-byte push 0x10..0x16 renders as '10'..'16' and is read back as OP_10..OP_16); any other deviation on these paths is reported", cost=1))
OBLIGATIONS.append(M("C17", "c17_asm_tokens", {"q": "asm_roundtrip", "alias": "exclude"}, ["Script::to_asm_string_impl", "Script::script_bits_to_asm_string (+closure)", "Script::from_asm_string (+closure)", "Script::map_string_to_script_bit", "Script::if_statement_pass / read_if_statement / read_pass / read_fail", "VarInt::get_pushdata_opcode"],
                     "fourteen minimally-pushed structured scripts (one listing EVERY named opcode except the conditional - incl. OP_VERIF / OP_VERNOTIF, which the parser treats as openers - and OP_PUSHDATA opcodes; opcodes; direct pushes of 1, 2, 3, 75 bytes; PUSHDATA1 of 76 and 255; PUSHDATA2 of 256; IF/ELSE, NOTIF without ELSE, empty branches, two-level nesting; OP_0; the empty script) with ALL payload bytes symbolic except that one-byte payloads are assumed outside 0x10..0x16 (those seven values are the subject of c17_asm_alias_values) - every other one- and two-byte payload whose hex text is all digits is covered", cost=1,
                     stubs=("E2 text models: <OpCodes as ToString>::to_string / <i32 as ToString>::to_string -> literal tokens; hex::encode / hex::decode -> inverse token constructors; [String]::join(\" \") / str::split(' ') / str::trim / String::is_empty / <str as PartialEq>::eq on tokens; <OpCodes as FromStr>::from_str by variant name; collect::<Result<Vec<_>, _>>",)))

OBLIGATIONS.append(M("C07", "c07_address_string", {"q": "address_string"}, ["P2PKHAddress::to_string_impl", "P2PKHAddress::from_string_impl"],
                     "all 256 prefixes x all 20-byte hashes (incl. every count of leading zero bytes): from_string(to_string(a)) = a", cost=1,
                     stubs=("E2: Base58 is an injective constructor (decode inverts encode); the length of a Base58 string is an uninterpreted function of the payload constrained by the exact digit-count bounds for each number of leading zero bytes",)))


def for_property(pid):
    return [dict(o) for o in OBLIGATIONS if o["property"] == pid]


def assumptions_for(obs):
    s = []
    for o in obs:
        for st in o.get("stubs", []):
            t = f"stub: {st}"
            if t not in s:
                s.append(t)
        for asm in o.get("assumes", []):
            t = f"{o['name']}: {asm}"
            if t not in s:
                s.append(t)
    s.append("dev-profile semantics (overflow checks on) are what E1 models; counterexamples are replayed natively in dev and release")
    s.append("bounded verdicts: nothing is claimed outside the per-obligation bounds")
    return s
