"""Obligation tables: which harness / MIR query decides which clause of which property."""

FMT = "std::fmt::format -> String::new()"
IOERR = "<core::io::CustomOwner as Drop>::drop -> no-op"

TRUSTED_BASE = [
    "rustc (Kani codegen / nightly MIR agree with the shipped code)",
    "Kani 0.68.0, CBMC 6.11.0, CaDiCaL (E1)",
    "z3 / cvc5 and the mirsym MIR executor with its std models (E2)",
    "stubs and reference specifications listed per obligation",
]

EXPLANATION = {}


def K(pid, name, mod, functions, bounds, cost=1, tiers=("quick", "thorough"), stubs=(FMT,), timeout=900, full_domain=False, **kw):
    d = {"property": pid, "name": name, "engine": "kani", "harness": name, "path": f"{mod}::proofs::{name}", "functions": functions,
         "bounds": bounds, "cost": cost, "tiers": list(tiers), "stubs": list(stubs), "timeout_s": timeout, "full_domain": full_domain}
    d.update(kw)
    return d


OBLIGATIONS = []

# ---------------------------------------------------------------- C01
EXPLANATION["C01"] = ("Transaction wire format. E1 (Kani/CBMC on the compiled crate): compact-size writer/reader/helpers against an independent "
                      "closed-form codec for ALL u64 values and all 9-byte windows, outpoint codec for all 36-byte strings.")
OBLIGATIONS += [
    K("C01", "c01_varint_write_read", "c01", ["VarIntWriter::write_varint (Vec<u8>, Cursor<Vec<u8>>)", "VarIntReader::read_varint (3 impls)", "VarInt::get_varint_size"],
      "all u64 values; unwind 12 (longest loop: 9-byte compare)", cost=5, stubs=(FMT, IOERR), full_domain=True),
    K("C01", "c01_varint_bytes_helper", "c01", ["VarInt::get_varint_bytes"], "all u64 values; unwind 12", cost=1, full_domain=True),
    K("C01", "c01_varint_read_any", "c01", ["VarIntReader::read_varint for Cursor<Vec<u8>>"], "all 9-byte windows x every truncation length 0..=9; unwind 12", cost=3, stubs=(FMT, IOERR), full_domain=True),
    K("C01", "c01_outpoint_roundtrip", "c01", ["TxIn::from_outpoint_bytes", "TxIn::get_outpoint_bytes", "TxIn::get_prev_tx_id", "TxIn::get_vout"],
      "all 36-byte outpoints; unwind 38 (36-byte copy loops)", cost=3, full_domain=True),
]


def for_property(pid):
    return [dict(o) for o in OBLIGATIONS if o["property"] == pid]


def assumptions_for(obs):
    s = []
    for o in obs:
        for st in o.get("stubs", []):
            t = f"stub: {st}"
            if t not in s:
                s.append(t)
        for asm in o.get("assumes", []):
            t = f"{o['name']}: {asm}"
            if t not in s:
                s.append(t)
    s.append("dev-profile semantics (overflow checks on) are what E1 models; counterexamples are replayed natively in dev and release")
    s.append("bounded verdicts: nothing is claimed outside the per-obligation bounds")
    return s
