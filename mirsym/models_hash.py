"""Models for the hash/HMAC/PBKDF2 composition layer (C13): the primitive engines of the sha2 / sha-1 / ripemd160 / hmac / pbkdf2 crates are
uninterpreted functions of the bytes they were fed; the crate's own adapters (Sha256d, Sha256r, Hash160), wrappers and the algorithm
dispatch are executed from MIR."""
import re
import z3
from .values import *
from .executor import Unsupported, PathPanic
from .models import ok, err, some, NONE, deref, uf, generic_arg
from .models_decode import typenum

HMODELS = []


def model(pattern):
    def deco(fn):
        HMODELS.append((re.compile(pattern), fn))
        return fn
    return deco


PRIM = {"Sha256": ("SHA256", 256), "Sha1": ("SHA1", 160), "Ripemd160": ("RIPEMD160", 160), "Sha512": ("SHA512", 512)}


class Engine:
    """a primitive hash engine: everything fed so far"""

    def __init__(self, kind, acc=None):
        self.kind = kind
        self.acc = z3.Empty(SEQ) if acc is None else acc


def digest_arr(kind, seq):
    name, bits = PRIM[kind]
    return Arr([Int(b, "u8") for b in be_bytes(uf(name, SEQ, z3.BitVecSort(bits))(seq), bits // 8)])


def clone_engine(v):
    return Engine(v.kind, v.acc) if isinstance(v, Engine) else v


@model(r"^<(Sha256|Sha1|Ripemd160|Sha512) as Default>::default$|^<(Sha256|Sha1|Ripemd160|Sha512) as Digest>::new$")
def m_engine_default(ex, a, callee, canon):
    return Engine(re.search(r"<(\w+) as", canon).group(1))


@model(r"^<(Sha256|Sha1|Ripemd160|Sha512) as Clone>::clone$")
def m_engine_clone(ex, a, callee, canon):
    return clone_engine(deref(a[0]))


@model(r"^<(Sha256|Sha1|Ripemd160|Sha512) as (Digest|Update)>::update$")
def m_engine_update(ex, a, callee, canon):
    p = a[0]
    e = p.get()
    while isinstance(e, Ptr):
        p, e = e, e.get()
    p.set(Engine(e.kind, seq_concat(e.acc, ex.bytes_of(a[1]))))
    return UNIT


@model(r"^<(Sha256|Sha1|Ripemd160|Sha512) as Digest>::finalize$|^<(Sha256|Sha1|Ripemd160|Sha512) as FixedOutput>::finalize_fixed$")
def m_engine_finalize(ex, a, callee, canon):
    e = deref(a[0])
    return digest_arr(e.kind, e.acc)


@model(r"^<(Sha256|Sha1|Ripemd160|Sha512) as Digest>::finalize_reset$")
def m_engine_finalize_reset(ex, a, callee, canon):
    p = a[0]
    e = deref(p)
    out = digest_arr(e.kind, e.acc)
    q = p
    while isinstance(q.get(), Ptr):
        q = q.get()
    q.set(Engine(e.kind))
    return out


@model(r"^<(Sha256|Sha1|Ripemd160|Sha512) as Digest>::digest$")
def m_engine_digest(ex, a, callee, canon):
    return digest_arr(re.search(r"<(\w+) as", canon).group(1), ex.bytes_of(a[0]))


@model(r"^<impl AsRef<\[u8\]> as AsRef<\[u8\]>>::as_ref$|^<.* as AsRef<\[u8\]>>::as_ref$")
def m_as_ref(ex, a, callee, canon):
    return a[0]


@model(r"^<GenericArray<u8, .*> as Default>::default$")
def m_ga_default(ex, a, callee, canon):
    n = typenum(canon)
    if n is None:
        raise Unsupported("GenericArray length: " + canon[:80])
    return Arr([Int(0, "u8") for _ in range(n)])


@model(r"^core::slice::<impl \[u8\]>::copy_from_slice$")
def m_copy_from_slice(ex, a, callee, canon):
    dst = a[0]
    while isinstance(dst.get(), Ptr):
        dst = dst.get()
    d = dst.get()
    src = ex.seq_items(ex.bytes_of(a[1]))
    if src is None or not isinstance(d, Arr):
        raise Unsupported("copy_from_slice on symbolic-length data")
    if len(src) != len(d.f):
        raise PathPanic("copy_from_slice: source slice length does not match destination")
    dst.set(Arr([Int(t, "u8") for t in src]))
    return UNIT


# ---- crate adapters through the blanket impls of the digest crate
def _adapter(canon):
    return re.search(r"<((?:\w+::)*)(Sha256d|Sha256r|Hash160) as", canon).group(2)


def _call(ex, path, args):
    d = ex.P.resolve(path)
    if d is None:
        raise Unsupported("cannot resolve " + path)
    return ex.call_fn(d, args)


def adapter_finalize_fixed(ex, ad, val):
    if ad == "Hash160":
        # FixedOutput for T: FixedOutputDirty + Reset — finalize_fixed = finalize_into_dirty on the value
        out = [Arr([Int(0, "u8") for _ in range(20)])]
        cell = [val]
        _call(ex, "<Hash160 as FixedOutputDirty>::finalize_into_dirty", [Ptr(cell, 0), Ptr(out, 0)])
        return out[0]
    return _call(ex, f"<{ad} as FixedOutput>::finalize_fixed", [val])


@model(r"^<(\w+::)*(Sha256d|Sha256r|Hash160) as Digest>::digest$")
def m_adapter_digest(ex, a, callee, canon):
    ad = _adapter(canon)
    cell = [_call(ex, f"<{ad} as Default>::default", [])]
    _call(ex, f"<{ad} as Update>::update", [Ptr(cell, 0), a[0]])
    return adapter_finalize_fixed(ex, ad, cell[0])


@model(r"^<(\w+::)*(Sha256d|Sha256r|Hash160) as Digest>::chain$")
def m_adapter_chain(ex, a, callee, canon):
    ad = _adapter(canon)
    cell = [a[0]]
    _call(ex, f"<{ad} as Update>::update", [Ptr(cell, 0), a[1]])
    return cell[0]


@model(r"^<(\w+::)*(Sha256d|Sha256r|Hash160) as Digest>::finalize$")
def m_adapter_finalize(ex, a, callee, canon):
    return adapter_finalize_fixed(ex, _adapter(canon), a[0])


@model(r"^<(\w+::)*(Sha256d|Sha256r|Hash160) as Digest>::new$")
def m_adapter_new(ex, a, callee, canon):
    return _call(ex, f"<{_adapter(canon)} as Default>::default", [])


# ---- HMAC
class HmacV:
    def __init__(self, algo, key, acc=None):
        self.algo, self.key = algo, key
        self.acc = z3.Empty(SEQ) if acc is None else acc


HMAC_BITS = {"Sha512": 512, "Sha256": 256, "Sha256d": 256, "Sha1": 160, "Ripemd160": 160, "Hash160": 160}


@model(r"^<Hmac<T> as NewMac>::new_from_slice$|^<Hmac<(\w+)> as NewMac>::new_from_slice$")
def m_hmac_new(ex, a, callee, canon):
    m = re.search(r"Hmac<(\w+)>", canon)
    algo = m.group(1)
    if algo == "T":
        site = getattr(ex, "callsite_stack", [""])[-1]
        mm = re.search(r"hmac::<(?:\w+::)*(\w+)>", site)
        if not mm:
            raise Unsupported("HMAC digest type not recoverable from " + site[:80])
        algo = mm.group(1)
    return ok(HmacV(algo, ex.bytes_of(a[0])))


@model(r"^<Hmac<.*> as Mac>::update$")
def m_hmac_update(ex, a, callee, canon):
    p = a[0]
    h = p.get()
    while isinstance(h, Ptr):
        p, h = h, h.get()
    p.set(HmacV(h.algo, h.key, seq_concat(h.acc, ex.bytes_of(a[1]))))
    return UNIT


@model(r"^<Hmac<.*> as Mac>::finalize$")
def m_hmac_finalize(ex, a, callee, canon):
    h = deref(a[0])
    declared = re.search(r"Hmac<(?:\w+::)*(\w+)>", canon).group(1)
    if declared != "T" and declared != h.algo:
        raise Unsupported(f"HMAC engine type confusion: {declared} vs {h.algo}")
    bits = HMAC_BITS[h.algo]
    f = uf("HMAC_" + h.algo.upper(), SEQ, SEQ, z3.BitVecSort(bits))
    return Struct("MacOutput", [Arr([Int(b, "u8") for b in be_bytes(f(h.key, h.acc), bits // 8)])])


@model(r"crypto_mac::Output::into_bytes$|^Output::into_bytes$")
def m_mac_into_bytes(ex, a, callee, canon):
    return a[0].f[0]


# ---- PBKDF2
@model(r"^pbkdf2::pbkdf2$|^pbkdf2$")
def m_pbkdf2(ex, a, callee, canon):
    m = re.search(r"Hmac<(?:\w+::)*(\w+)>", callee)
    algo = m.group(1) if m else "?"
    password, salt, rounds, outp = a
    tgt = outp
    while isinstance(tgt.get(), Ptr):
        tgt = tgt.get()
    outlen = ex.seq_len(ex.bytes_of(tgt.get()))
    f = uf("PBKDF2_" + algo.upper(), SEQ, SEQ, z3.BitVecSort(32), z3.BitVecSort(64), SEQ)
    res = f(ex.bytes_of(password), ex.bytes_of(salt), rounds.t, outlen)
    if not hasattr(ex, "len_vars"):
        ex.len_vars = {}
    ex.len_vars[res.get_id()] = outlen
    ex.__dict__.setdefault("_keep_alive", []).append(res)   # ids key the table: the term must stay alive
    tgt.set(Bytes(res))
    return UNIT


@model(r"^(std::vec::|alloc::vec::)?from_elem$")
def m_from_elem_hash(ex, a, callee, canon):
    v, n = a
    cn = n.concrete()
    if cn is not None and cn <= 4096:
        return Bytes(seq_of([v.t] * cn))
    s = ex.fresh("zerobuf", SEQ)
    if not hasattr(ex, "len_vars"):
        ex.len_vars = {}
    ex.len_vars[s.get_id()] = n.t
    ex.__dict__.setdefault("_keep_alive", []).append(s)   # ids key the table: the term must stay alive
    return Bytes(s)


@model(r"^<(\[u8\]|Vec<u8>) as Index(Mut)?<Range(From|To|Full)?<usize>>>::index(_mut)?$")
def m_index_range_hash(ex, a, callee, canon):
    from .models_decode import _range_terms
    v = deref(a[0])
    s = ex.bytes_of(v)
    items = ex.seq_items(s)
    n = ex.seq_len(s)
    lo, hi = _range_terms(ex, a[1], n)
    clo, chi = z3.simplify(lo), z3.simplify(hi)
    if items is not None and z3.is_bv_value(clo) and z3.is_bv_value(chi):
        if clo.as_long() > chi.as_long() or chi.as_long() > len(items):
            raise PathPanic("slice range out of bounds")
        return Ptr([Arr([Int(t, "u8") for t in items[clo.as_long():chi.as_long()]])], 0)
    if not ex.decide(z3.ULE(lo, hi)):
        raise PathPanic("slice index starts after its end")
    if not ex.decide(z3.ULE(hi, n)):
        raise PathPanic("range end index out of range for slice")
    if ex.decide(z3.And(lo == 0, hi == n)):
        return Ptr([Bytes(s)], 0)
    sl = uf("SLICE", SEQ, z3.BitVecSort(64), z3.BitVecSort(64), SEQ)(s, lo, hi)
    if not hasattr(ex, "len_vars"):
        ex.len_vars = {}
    ex.len_vars[sl.get_id()] = hi - lo
    ex.__dict__.setdefault("_keep_alive", []).append(sl)   # ids key the table: the term must stay alive
    return Ptr([Bytes(sl)], 0)
