"""E2 queries for the BIP32 glue (C08): HMAC key/data layout, IL/IR split, fingerprints, depth/index bookkeeping, the 78+4 byte
serialisation and its parsing.  Scalar/point arithmetic, HMAC-SHA512, HASH160, SHA256d and Base58 are uninterpreted (Base58 as a
constructor that decode inverts)."""
import json, re
import z3
from .executor import Unsupported, Exec
from .values import *
from .models import MODELS, uf, ok, err, some, NONE
from .models_hash import HMODELS
from .models_ecies import EMODELS, bvbytes
from .models_bip32 import BMODELS, SECRET_VALID, POINT_VALID
from .models_decode import m_bs58_decode, m_bs58_into_vec
from .txmodel import Ctx, sym_bytes
from . import concrete as C
from . import seqeq as SE
from .queries import QResult, finish, MAX_VIOLATIONS

XPRV, XPUB, HARD = 0x0488ADE4, 0x0488B21E, 0x80000000
SE.COMMUTATIVE.update({"SCALAR_ADD_MOD_N", "POINT_ADD"})


def units(name, n):
    return [z3.BitVec(f"{name}_{i}", 8) for i in range(n)]


def HM512(key, data):
    return be_bytes(uf("HMAC_SHA512", SEQ, SEQ, z3.BitVecSort(512))(key, data), 64)


def H160(seq):
    return be_bytes(uf("RIPEMD160", SEQ, z3.BitVecSort(160))(seq_of(be_bytes(uf("SHA256", SEQ, z3.BitVecSort(256))(seq), 32))), 20)


def SHA256D(seq):
    return be_bytes(uf("SHA256", SEQ, z3.BitVecSort(256))(seq_of(be_bytes(uf("SHA256", SEQ, z3.BitVecSort(256))(seq), 32))), 32)


def pubc(secret_seq):
    return bvbytes("PUBKEY_COMPRESSED", 264, secret_seq)


def native_bip32():
    ops = [{"op": "bip32", "seed": bytes(range(16)).hex(), "path": [HARD, 1, HARD + 2, 2, 1000000000]},
           {"op": "bip32", "seed": bytes(range(0xff, 0xbf, -1)).hex(), "path": [0, HARD + 2147483647, 1]}]
    req = {"tx": {"version": 1, "locktime": 0, "inputs": [], "outputs": []}, "ops": ops}
    nat = {p: C.Native.run(req, p) for p in ("debug", "release")}
    return req, nat


def q_bip32(env, name=None):
    qr = QResult(name or "bip32_glue")
    P = env.P
    base = [m for m in MODELS if not m[1].__name__.startswith(("m_sha256", "m_sha256d", "m_hash160", "m_sha512", "m_ripemd160", "m_sha1"))]
    b58 = [(re.compile(r"^bs58::decode$"), m_bs58_decode), (re.compile(r"DecodeBuilder<.*>::into_vec$|DecodeBuilder::into_vec$"), m_bs58_into_vec)]
    emod = [m for m in EMODELS if m[1].__name__ in ("m_to_scalar", "m_scalar_deref", "m_get_point", "m_encoded_point_from_bytes", "m_point_is_compressed", "m_point_as_bytes", "m_slice_into_vec")]

    def block_size(ex, c):
        site = getattr(ex, "callsite_stack", [""])[-1]
        mm = re.search(r"hmac::<(?:\w+::)*(\w+)>", site)
        if not mm:
            raise Unsupported("block size of an unknown digest type")
        return Int(128 if mm.group(1) == "Sha512" else 64, "usize")

    def new_exec():
        ex = Exec(P, BMODELS + b58 + emod + HMODELS + base)
        ex.const_hooks = [(re.compile(r"BlockInput>::BlockSize as .*Unsigned>::USIZE$"), block_size),
                          (re.compile(r"ProjectivePoint::GENERATOR$"), lambda ex, c: Opaque("Generator", None))]
        return ex

    S = P.structs

    def mk(name_, **kw):
        f = [None] * len(S[name_])
        for k, v in kw.items():
            f[S[name_].index(k)] = v
        assert all(x is not None for x in f), (name_, S[name_])
        return Struct(name_, f)

    def fld(v, name_, k):
        return v.f[S[name_].index(k)]

    _native = {}

    def native_item(kind):
        """kind: which aspect of the native report proves the violation"""
        if "r" not in _native:
            _native["r"] = native_bip32()
        req, nat = _native["r"]
        outs = [o.get("ok", o) for v in nat.values() for o in v]
        if kind == "corruption":
            bad = any(isinstance(o, dict) and o.get("corrupted_strings_accepted", 0) > 0 for o in outs)
            exp = {"corrupted_strings_accepted": 0}
        else:
            bad = any((not isinstance(o, dict)) or o.get("problems") or "toolerror" in o for o in outs)
            exp = {"problems": []}
        return {"request": req, "op_index": 0, "expected": exp, "native": nat, "reproduced": bad}

    def report(what, kind="derivation"):
        if len(qr.violations) >= MAX_VIOLATIONS:
            return
        item = native_item(kind)
        item["message"] = what
        if item["reproduced"]:
            if not any(v["message"] == what for v in qr.violations):
                qr.violations.append(item)
        else:
            qr.undecided.append(what + " — not reproduced natively: " + json.dumps(item["native"])[:300])

    def check(r, got, want, what, kind="derivation"):
        st = {}
        outs = SE.compare(list(r.pc), got, want, st)
        qr.queries += st.get("queries", 0)
        qr.solver_s += st.get("solver_s", 0.0)
        if any(o[0] == "unknown" for o in outs):
            qr.undecided.append(what + ": solver unknown")
        dif = [o for o in outs if o[0] == "differ"]
        if dif:
            report(what + " (" + dif[0][3][:160] + ")", kind)

    def sat(pc, *extra):
        st = {}
        r = SE.check_sat(list(pc), list(extra), st)
        qr.queries += st.get("queries", 0)
        qr.solver_s += st.get("solver_s", 0.0)
        return r

    def xprv_state(ctx):
        ctx.sec = units("parent_secret", 32)
        ctx.chain = units("parent_chain", 32)
        ctx.depth = z3.BitVec("parent_depth", 8)
        ctx.index = z3.BitVec("parent_index", 32)
        ctx.fp = units("parent_fp", 4)
        ctx.assumptions.append(SECRET_VALID(z3.Concat(*ctx.sec)))
        sk = mk("PrivateKey", secret_key=Opaque("SecretKey", Bytes(seq_of(ctx.sec))), is_pub_key_compressed=Bool(True))
        pk = mk("PublicKey", point=Bytes(pubc(seq_of(ctx.sec))), is_compressed=Bool(True))
        return mk("ExtendedPrivateKey", private_key=sk, public_key=pk, chain_code=Bytes(seq_of(ctx.chain)), depth=Int(ctx.depth, "u8"), index=Int(ctx.index, "u32"),
                  parent_fingerprint=Bytes(seq_of(ctx.fp)))

    def xpub_state(ctx):
        ctx.pub = units("parent_pub", 33)
        ctx.chain = units("parent_chain", 32)
        ctx.depth = z3.BitVec("parent_depth", 8)
        ctx.index = z3.BitVec("parent_index", 32)
        ctx.fp = units("parent_fp", 4)
        ctx.assumptions.append(POINT_VALID(seq_of(ctx.pub)))
        pk = mk("PublicKey", point=Bytes(seq_of(ctx.pub)), is_compressed=Bool(True))
        return mk("ExtendedPublicKey", public_key=pk, chain_code=Bytes(seq_of(ctx.chain)), depth=Int(ctx.depth, "u8"), index=Int(ctx.index, "u32"), parent_fingerprint=Bytes(seq_of(ctx.fp)))

    def scalar_fields(child, sname):
        prv = fld(child, sname, "private_key")
        return fld(prv, "PrivateKey", "secret_key").payload.s, fld(prv, "PrivateKey", "is_pub_key_compressed")

    # ---- B1: master key from seed
    f_seed = env.fn("extended_private_key::ExtendedPrivateKey::from_seed_impl")
    ex = new_exec()
    qr.cases += 1

    def setup1(ex):
        ctx = Ctx()
        ctx.seed, ctx.seedL = sym_bytes(ex, ctx, "seed")
        return f_seed, [Ptr([Bytes(ctx.seed)], 0)], ctx
    for r in ex.explore(setup1):
        qr.paths += 1
        I = HM512(seq_of([z3.BitVecVal(b, 8) for b in b"Bitcoin seed"]), r.ctx.seed)
        il = z3.Concat(*I[:32])
        if r.kind != "ok":
            report(f"from_seed: {r.kind} {r.msg}")
            continue
        if r.ret.variant != "Ok":
            if sat(r.pc, SECRET_VALID(il)) != z3.unsat:
                report("from_seed rejects a seed whose HMAC-SHA512('Bitcoin seed', seed) left half is a valid key")
            continue
        x = r.ret.f[0]
        sec, flag = scalar_fields(x, "ExtendedPrivateKey")
        check(r, sec, seq_of(I[:32]), "from_seed: master key is not the left half of HMAC-SHA512(key='Bitcoin seed', data=seed)")
        check(r, fld(x, "ExtendedPrivateKey", "chain_code").s, seq_of(I[32:]), "from_seed: chain code is not the right half of HMAC-SHA512(key='Bitcoin seed', data=seed)")
        check(r, fld(x, "ExtendedPrivateKey", "parent_fingerprint").s, seq_of([z3.BitVecVal(0, 8)] * 4), "from_seed: master fingerprint is not 00000000")
        check(r, fld(fld(x, "ExtendedPrivateKey", "public_key"), "PublicKey", "point").s, pubc(seq_of(I[:32])), "from_seed: stored public key is not the compressed key of the master secret")
        if sat(r.pc, z3.Or(fld(x, "ExtendedPrivateKey", "depth").t != 0, fld(x, "ExtendedPrivateKey", "index").t != 0, z3.Not(flag.t))) != z3.unsat:
            report("from_seed: master depth/index are not 0 or the key is not flagged compressed")
    finish(qr, ex)

    # ---- B2: CKDpriv
    f_dprv = env.fn("extended_private_key::ExtendedPrivateKey::derive_impl")
    ex = new_exec()
    qr.cases += 1

    def setup2(ex):
        ctx = Ctx()
        ctx.x = xprv_state(ctx)
        ctx.i = z3.BitVec("child_index", 32)
        ctx.assumptions.append(ctx.depth != 255)     # depth <= 255 is the property's bound: no derivation from depth 255
        return f_dprv, [Ptr([ctx.x], 0), Int(ctx.i, "u32")], ctx
    for r in ex.explore(setup2):
        qr.paths += 1
        c = r.ctx
        sec = seq_of(c.sec)
        hardened = z3.UGE(c.i, HARD)
        data = z3.If(hardened, seq_concat(z3.Unit(z3.BitVecVal(0, 8)), sec, seq_of(be_bytes(c.i, 4))), seq_concat(pubc(sec), seq_of(be_bytes(c.i, 4))))
        I = HM512(seq_of(c.chain), data)
        il = z3.Concat(*I[:32])
        child = uf("SCALAR_ADD_MOD_N", z3.BitVecSort(256), z3.BitVecSort(256), z3.BitVecSort(256))(z3.Concat(*c.sec), il)
        if r.kind != "ok":
            report(f"xprv derive: {r.kind} {r.msg}")
            continue
        if r.ret.variant != "Ok":
            if sat(r.pc, SECRET_VALID(il), SECRET_VALID(child)) != z3.unsat:
                report("xprv derive fails although IL and the child key are valid")
            continue
        x = r.ret.f[0]
        csec, flag = scalar_fields(x, "ExtendedPrivateKey")
        check(r, csec, seq_of(be_bytes(child, 32)), "xprv derive: child key is not (parent + IL) mod n with IL from HMAC-SHA512(chain, 00||k||i32 / serP(K)||i32)")
        check(r, fld(x, "ExtendedPrivateKey", "chain_code").s, seq_of(I[32:]), "xprv derive: child chain code is not IR of HMAC-SHA512(chain, data) (hardened: 00||k||i32, normal: serP(K)||i32)")
        check(r, fld(x, "ExtendedPrivateKey", "parent_fingerprint").s, seq_of(H160(pubc(sec))[:4]), "xprv derive: fingerprint is not the first 4 bytes of HASH160(compressed parent key)")
        check(r, fld(fld(x, "ExtendedPrivateKey", "public_key"), "PublicKey", "point").s, pubc(seq_of(be_bytes(child, 32))), "xprv derive: stored public key is not the compressed key of the child secret")
        if sat(r.pc, z3.Or(fld(x, "ExtendedPrivateKey", "depth").t != c.depth + 1, fld(x, "ExtendedPrivateKey", "index").t != c.i, z3.Not(flag.t))) != z3.unsat:
            report("xprv derive: child depth is not parent depth + 1, or the child index is not the requested index")
    finish(qr, ex)

    # ---- B3: CKDpub
    f_dpub = env.fn("extended_public_key::ExtendedPublicKey::derive_impl")
    ex = new_exec()
    qr.cases += 1

    def setup3(ex):
        ctx = Ctx()
        ctx.x = xpub_state(ctx)
        ctx.i = z3.BitVec("child_index", 32)
        ctx.assumptions.append(ctx.depth != 255)
        return f_dpub, [Ptr([ctx.x], 0), Int(ctx.i, "u32")], ctx
    for r in ex.explore(setup3):
        qr.paths += 1
        c = r.ctx
        pubs = seq_of(c.pub)
        hardened = z3.UGE(c.i, HARD)
        I = HM512(seq_of(c.chain), seq_concat(pubs, seq_of(be_bytes(c.i, 4))))
        il = z3.Concat(*I[:32])
        childp = uf("POINT_ADD", z3.BitVecSort(264), z3.BitVecSort(264), z3.BitVecSort(264))(z3.Concat(*c.pub), uf("POINT_MUL_G", z3.BitVecSort(256), z3.BitVecSort(264))(il))
        if r.kind != "ok":
            report(f"xpub derive: {r.kind} {r.msg}")
            continue
        if r.ret.variant != "Ok":
            okc = z3.And(z3.Not(hardened), SECRET_VALID(il), z3.Not(uf("POINT_IS_IDENTITY", z3.BitVecSort(264), z3.BoolSort())(childp)), POINT_VALID(seq_of(be_bytes(childp, 33))))
            if sat(r.pc, okc) != z3.unsat:
                report("xpub derive fails for a normal index although IL and the child point are valid")
            continue
        if sat(r.pc, hardened) != z3.unsat:
            report("xpub derive accepts a hardened index")
            continue
        x = r.ret.f[0]
        check(r, fld(fld(x, "ExtendedPublicKey", "public_key"), "PublicKey", "point").s, seq_of(be_bytes(childp, 33)), "xpub derive: child key is not point(IL) + Kpar with IL from HMAC-SHA512(chain, serP(K)||i32)")
        check(r, fld(x, "ExtendedPublicKey", "chain_code").s, seq_of(I[32:]), "xpub derive: child chain code is not IR of HMAC-SHA512(chain, serP(K)||i32)")
        check(r, fld(x, "ExtendedPublicKey", "parent_fingerprint").s, seq_of(H160(pubs)[:4]), "xpub derive: fingerprint is not the first 4 bytes of HASH160(parent key)")
        if sat(r.pc, z3.Or(fld(x, "ExtendedPublicKey", "depth").t != c.depth + 1, fld(x, "ExtendedPublicKey", "index").t != c.i)) != z3.unsat:
            report("xpub derive: child depth is not parent depth + 1, or the child index is not the requested index")
    finish(qr, ex)

    # ---- B4: serialisation layout (Base58 as a constructor)
    def wire(version, c, key_units):
        body = be_bytes(z3.BitVecVal(version, 32), 4) + [c.depth] + c.fp + be_bytes(c.index, 4) + c.chain + key_units
        return body, body + SHA256D(seq_of(body))[:4]

    for kind, fname, state in (("xprv", "extended_private_key::ExtendedPrivateKey::to_string_impl", xprv_state), ("xpub", "extended_public_key::ExtendedPublicKey::to_string_impl", xpub_state)):
        f = env.fn(fname)
        ex = new_exec()
        qr.cases += 1

        def setup4(ex, state=state):
            ctx = Ctx()
            ctx.x = state(ctx)
            return f, [Ptr([ctx.x], 0)], ctx
        try:
            res = ex.explore(setup4)
        except Unsupported as e:
            qr.undecided.append(f"{kind} to_string: {e}")
            res = []
        for r in res:
            qr.paths += 1
            c = r.ctx
            if r.kind != "ok" or r.ret.variant != "Ok":
                report(f"{kind} to_string fails: {r.kind} {r.msg if r.kind != 'ok' else ''}")
                continue
            sv = r.ret.f[0]
            if not (isinstance(sv, Opaque) and sv.tag == "b58string"):
                qr.undecided.append(f"{kind} to_string: result is not a Base58 string value ({sv!r})")
                continue
            if kind == "xprv":
                key_units = [z3.BitVecVal(0, 8)] + c.sec
            else:
                key_units = c.pub
            _, full = wire(XPRV if kind == "xprv" else XPUB, c, key_units)
            check(r, sv.payload.s, seq_of(full), f"{kind} to_string: payload is not version || depth || fingerprint || index(BE) || chain || key || SHA256d(...)[0..4]")
        finish(qr, ex)

    # ---- B5: parsing: fields of a well-formed payload, and no acceptance without a matching checksum
    for kind, fname, sname in (("xprv", "extended_private_key::ExtendedPrivateKey::from_string_impl", "ExtendedPrivateKey"), ("xpub", "extended_public_key::ExtendedPublicKey::from_string_impl", "ExtendedPublicKey")):
        f = env.fn(fname)
        ex = new_exec()
        qr.cases += 1

        def setup5(ex):
            ctx = Ctx()
            ctx.raw = units("payload", 82)
            return f, [Ptr([Opaque("b58string", Bytes(seq_of(ctx.raw)))], 0)], ctx
        try:
            res = ex.explore(setup5)
        except Unsupported as e:
            qr.undecided.append(f"{kind} from_string: {e}")
            res = []
        for r in res:
            qr.paths += 1
            raw = r.ctx.raw
            cs_ok = z3.Concat(*raw[78:82]) == z3.Concat(*SHA256D(seq_of(raw[:78]))[:4])
            if kind == "xprv":
                key_ok = z3.And(SECRET_VALID(z3.Concat(*raw[46:78])))
            else:
                key_ok = POINT_VALID(seq_of(raw[45:78]))
            if r.kind != "ok":
                report(f"{kind} from_string: {r.kind} {r.msg}", "corruption")
                continue
            if r.ret.variant != "Ok":
                ver = z3.Concat(*raw[0:4]) == (XPRV if kind == "xprv" else XPUB)
                pad = raw[45] == 0 if kind == "xprv" else z3.BoolVal(True)
                if sat(r.pc, cs_ok, key_ok, ver, pad) != z3.unsat:
                    report(f"{kind} from_string rejects a well-formed string (right version, checksum and key)")
                continue
            if sat(r.pc, z3.Not(cs_ok)) != z3.unsat:
                report(f"{kind} from_string accepts a payload whose last 4 bytes are not SHA256d(first 78 bytes)[0..4]: corrupted strings yield a different key instead of an error", "corruption")
            x = r.ret.f[0]
            check(r, fld(x, sname, "chain_code").s, seq_of(raw[13:45]), f"{kind} from_string: chain code offsets")
            check(r, fld(x, sname, "parent_fingerprint").s, seq_of(raw[5:9]), f"{kind} from_string: fingerprint offsets")
            if sat(r.pc, z3.Or(fld(x, sname, "depth").t != raw[4], fld(x, sname, "index").t != z3.Concat(*raw[9:13]))) != z3.unsat:
                report(f"{kind} from_string: depth is not byte 4 or the index is not the big-endian value of bytes 9..13")
            if kind == "xprv":
                sec, _ = scalar_fields(x, sname)
                check(r, sec, seq_of(raw[46:78]), "xprv from_string: key offsets")
            else:
                check(r, fld(fld(x, sname, "public_key"), "PublicKey", "point").s, seq_of(raw[45:78]), "xpub from_string: key offsets")
        finish(qr, ex)
    qr.samples.append({"obligation": qr.name, "parts": ["from_seed", "xprv derive (hardened and normal)", "xpub derive", "xprv/xpub to_string payload", "xprv/xpub from_string on an arbitrary 82-byte payload"]})
    return qr


def q_bip32_path(env, max_digits=3, name=None):
    """parse_str_to_idx (both copies) on every well-formed path component: digits{1..max_digits} followed by no suffix or one of ' h H"""
    qr = QResult(name or f"bip32_path_d{max_digits}")
    P = env.P
    fns = {"xprv": env.fn("extended_private_key::ExtendedPrivateKey::parse_str_to_idx"), "xpub": env.fn("extended_public_key::ExtendedPublicKey::parse_str_to_idx")}

    def native(comp):
        ops = [{"op": "bip32_path", "component": comp}]
        req = {"tx": {"version": 1, "locktime": 0, "inputs": [], "outputs": []}, "ops": ops}
        nat = {p: C.Native.run(req, p)[0] for p in ("debug", "release")}
        exp = {"problems": []}
        return {"request": req, "op_index": 0, "expected": exp, "native": nat, "reproduced": any(v.get("ok") != exp for v in nat.values())}

    for kind, f in fns.items():
        for d in range(1, max_digits + 1):
            for suffix in ("", "'", "h", "H"):
                qr.cases += 1
                ex = Exec(P, BMODELS + MODELS)

                def setup(ex, d=d, suffix=suffix):
                    ctx = Ctx()
                    ctx.digits = units("digit", d)
                    for t in ctx.digits:
                        ctx.assumptions.append(z3.And(z3.UGE(t, 0x30), z3.ULE(t, 0x39)))
                    s = ctx.digits + [z3.BitVecVal(ord(ch), 8) for ch in suffix]
                    return f, [Ptr([Bytes(seq_of(s))], 0)], ctx
                try:
                    res = ex.explore(setup)
                except Unsupported as e:
                    qr.undecided.append(f"{kind} parse_str_to_idx digits={d} suffix={suffix!r}: {e}")
                    continue
                for r in res:
                    qr.paths += 1
                    v = z3.BitVecVal(0, 64)
                    for t in r.ctx.digits:
                        v = v * 10 + z3.ZeroExt(56, t - 0x30)
                    in_range = z3.ULT(v, HARD)
                    want = z3.Extract(31, 0, v) + (HARD if suffix else 0)
                    bad = None
                    if r.kind != "ok":
                        bad, goal = f"{r.kind}: {r.msg}", z3.BoolVal(True)
                    elif r.ret.variant == "Ok":
                        bad, goal = "wrong index (value, or hardened offset not applied exactly for the ' h H suffixes), or an index >= 2^31 accepted", z3.Or(z3.Not(in_range), r.ret.f[0].t != want)
                    else:
                        bad, goal = "a well-formed component is rejected", in_range
                    s = z3.Solver()
                    for cnd in r.pc:
                        s.add(cnd)
                    s.add(goal)
                    qr.queries += 1
                    rr = s.check()
                    if rr == z3.unknown:
                        qr.undecided.append(f"{kind} component d={d}{suffix}: solver unknown")
                    if rr != z3.sat:
                        continue
                    m = s.model()
                    comp = "".join(chr(m.eval(t, model_completion=True).as_long()) for t in r.ctx.digits) + suffix
                    item = native(comp)
                    item["message"] = f"{kind} path component {comp!r}: {bad}"
                    if item["reproduced"]:
                        if len(qr.violations) < MAX_VIOLATIONS:
                            qr.violations.append(item)
                    else:
                        qr.undecided.append(item["message"] + " — not reproduced natively: " + json.dumps(item["native"])[:200])
                finish(qr, ex)
    qr.samples.append({"obligation": qr.name, "shapes": f"digits 1..{max_digits} x suffix in ['', \"'\", 'h', 'H'] x (xprv, xpub)"})
    return qr
