"""Symbolic Transaction/TxIn/TxOut builders and the independent reference
encodings (wire format, replay-protected FORKID sighash, original legacy
sighash) written from the published formats, as z3 terms."""
import z3
from .values import *


class Ctx:
    """per-path context handed back by a setup function"""

    def __init__(self):
        self.assumptions = []
        self.vars = {}
        self.ptrs = {}


def sym_bytes(ex, ctx, name, max_len=None):
    """fresh byte string of symbolic length with an explicit 64-bit length variable"""
    s = z3.Const(name, SEQ)
    L = z3.BitVec(name + "_len", 64)
    # NOTE: len(s) is the uninterpreted 64-bit variable L (registered in ex.len_vars); z3's own Length(s) is
    # deliberately NOT linked to it (bv2int/int2bv make every solver call crawl).  Both the executed code and
    # the reference encoding measure s only through L, so equality proofs are unaffected; counterexamples are
    # made consistent at replay time (content is resized to L) and judged natively.
    cap = max_len if max_len is not None else (1 << 33)
    ctx.assumptions.append(z3.ULE(L, z3.BitVecVal(cap, 64)))
    if not hasattr(ex, "len_vars"):
        ex.len_vars = {}
    ex.len_vars[s.get_id()] = L
    ex.__dict__.setdefault("_keep_alive", []).append(s)   # ids key the table: the term must stay alive
    ctx.vars[name] = s
    ctx.vars[name + "_len"] = L
    return s, L


def fixed_bytes(ctx, name, n):
    bs = [z3.BitVec(f"{name}_{i}", 8) for i in range(n)]
    ctx.vars[name] = bs
    return bs


def mk_struct(P, name, **fields):
    order = P.structs.get(name)
    if order is None:
        raise KeyError("struct " + name + " not found in source")
    missing = [f for f in order if f not in fields]
    extra = [f for f in fields if f not in order]
    if missing or extra:
        raise KeyError(f"struct {name}: fields changed (missing {missing}, unexpected {extra})")
    return Struct(name, [fields[f] for f in order])


def mk_interp(P, **fields):
    """an Interpreter value as its constructors build it: bookkeeping counters (fields other than the four given) start at zero"""
    from .values import Int
    for extra_f in P.structs.get("Interpreter", []):
        if extra_f not in fields:
            fields[extra_f] = Int(0, "usize")
    return mk_struct(P, "Interpreter", **fields)


def mk_script(seq):
    return Struct("Script", [Bytes(seq)])


def none():
    return Enum("Option", "None", 0, [])


def some(v):
    return Enum("Option", "Some", 1, [v])


class SymTx:
    """symbolic transaction with k_in inputs and k_out outputs; keeps the z3 terms for the spec side"""

    def __init__(self, ex, ctx, k_in, k_out, prefix="t", cache=(None, None, None), script_cap=None, extended=False):
        P = ex.P
        self.version = z3.BitVec(prefix + "_version", 32)
        self.locktime = z3.BitVec(prefix + "_locktime", 32)
        self.ins, self.outs = [], []
        in_vals, out_vals = [], []
        for i in range(k_in):
            pid = fixed_bytes(ctx, f"{prefix}_in{i}_prevtxid", 32)
            vout = z3.BitVec(f"{prefix}_in{i}_vout", 32)
            seq = z3.BitVec(f"{prefix}_in{i}_sequence", 32)
            us, usL = sym_bytes(ex, ctx, f"{prefix}_in{i}_script", script_cap)
            d = {"prev_tx_id": pid, "vout": vout, "sequence": seq, "script": us, "script_len": usL}
            lock = none()
            sats = none()
            if extended:
                ls, lsL = sym_bytes(ex, ctx, f"{prefix}_in{i}_lockscript", script_cap)
                d["lockscript"] = ls
                d["satoshis"] = z3.BitVec(f"{prefix}_in{i}_satoshis", 64)
                lock = some(mk_script(ls))
                sats = some(Int(d["satoshis"], "u64"))
            self.ins.append(d)
            in_vals.append(mk_struct(P, "TxIn", prev_tx_id=Bytes(seq_of(pid)), vout=Int(vout, "u32"), unlocking_script=mk_script(us),
                                     sequence=Int(seq, "u32"), locking_script=lock, satoshis=sats))
        for j in range(k_out):
            val = z3.BitVec(f"{prefix}_out{j}_value", 64)
            spk, spkL = sym_bytes(ex, ctx, f"{prefix}_out{j}_script", script_cap)
            self.outs.append({"value": val, "script": spk, "script_len": spkL})
            out_vals.append(mk_struct(P, "TxOut", value=Int(val, "u64"), script_pub_key=mk_script(spk)))
        slots = []
        self.cache_terms = []
        for n, c in zip(("hash_inputs", "hash_sequence", "hash_outputs"), cache):
            if c is None:
                slots.append(none())
                self.cache_terms.append(None)
            else:
                slots.append(some(Struct("Hash", [Bytes(c)])))
                self.cache_terms.append(c)
        hc = mk_struct(P, "HashCache", hash_inputs=slots[0], hash_sequence=slots[1], hash_outputs=slots[2])
        self.value = mk_struct(P, "Transaction", version=Int(self.version, "u32"), inputs=ListV(in_vals), outputs=ListV(out_vals),
                               n_locktime=Int(self.locktime, "u32"), hash_cache=hc)


# ----------------------------------------------------------------------------- reference encodings (the oracle)
def u32le(t):
    return seq_of(le_bytes(t, 4))


def u64le(t):
    return seq_of(le_bytes(t, 8))


def spec_varint(L):
    """compact-size encoding of a 64-bit length, as a Seq-sorted ite term"""
    b = lambda v: z3.BitVecVal(v, 8)
    return z3.If(z3.ULE(L, 252), seq_of([z3.Extract(7, 0, L)]),
                 z3.If(z3.ULE(L, 0xffff), seq_of([b(0xfd)] + le_bytes(z3.Extract(15, 0, L), 2)),
                       z3.If(z3.ULE(L, 0xffffffff), seq_of([b(0xfe)] + le_bytes(z3.Extract(31, 0, L), 4)),
                             seq_of([b(0xff)] + le_bytes(L, 8)))))


def H256d(seq):
    from .models import uf
    return seq_of(be_bytes(uf("SHA256D", SEQ, z3.BitVecSort(256))(seq), 32))


ZERO32 = seq_of([z3.BitVecVal(0, 8)] * 32)


def wire_outpoint(i):
    return seq_concat(seq_of(list(reversed(i["prev_tx_id"]))), u32le(i["vout"]))


def wire_txout(o):
    return seq_concat(u64le(o["value"]), spec_varint(o["script_len"]), o["script"])


def wire_txin(i, script=None, script_len=None, sequence=None):
    sc = i["script"] if script is None else script
    sl = i["script_len"] if script_len is None else script_len
    sq = i["sequence"] if sequence is None else sequence
    return seq_concat(wire_outpoint(i), spec_varint(sl), sc, u32le(sq))


def wire_tx(version, ins, outs, locktime):
    parts = [u32le(version), spec_varint(z3.BitVecVal(len(ins), 64))] + ins + [spec_varint(z3.BitVecVal(len(outs), 64))] + outs + [u32le(locktime)]
    return seq_concat(*parts)


def spec_wire(tx):
    return wire_tx(tx.version, [wire_txin(i) for i in tx.ins], [wire_txout(o) for o in tx.outs], tx.locktime)


def spec_bip143(tx, idx, flag, subscript, subscript_len, value):
    """Replay-protected (FORKID) sighash preimage.  flag: integer type byte (0x41..0xc3).
    Returns ('err',) when the library is permitted to refuse (SINGLE without matching output), else ('ok', seq)."""
    base = flag & 0x1f
    acp = bool(flag & 0x80)
    if not acp:
        hash_prevouts = H256d(seq_concat(*[wire_outpoint(i) for i in tx.ins])) if tx.ins else H256d(z3.Empty(SEQ))
    else:
        hash_prevouts = ZERO32
    if not acp and base not in (2, 3):
        hash_sequence = H256d(seq_concat(*[u32le(i["sequence"]) for i in tx.ins])) if tx.ins else H256d(z3.Empty(SEQ))
    else:
        hash_sequence = ZERO32
    if base not in (2, 3):
        hash_outputs = H256d(seq_concat(*[wire_txout(o) for o in tx.outs])) if tx.outs else H256d(z3.Empty(SEQ))
    elif base == 3:
        if idx < len(tx.outs):
            hash_outputs = H256d(wire_txout(tx.outs[idx]))
        else:
            return ("err",)
    else:
        hash_outputs = ZERO32
    me = tx.ins[idx]
    pre = seq_concat(u32le(tx.version), hash_prevouts, hash_sequence, wire_outpoint(me), spec_varint(subscript_len), subscript,
                     u64le(value), u32le(me["sequence"]), hash_outputs, u32le(tx.locktime), u32le(z3.BitVecVal(flag, 32)))
    return ("ok", pre)


def spec_legacy(tx, idx, flag, subscript_nocs, subscript_nocs_len):
    """Original Bitcoin SignatureHash serialisation (pre-fork).  subscript_nocs is the subscript with
    code separators removed (the same uninterpreted function on both sides)."""
    base = flag & 0x1f
    acp = bool(flag & 0x80)
    zero64 = z3.BitVecVal(0, 64)
    ins = []
    for k, i in enumerate(tx.ins):
        if k == idx:
            ins.append(wire_txin(i, script=subscript_nocs, script_len=subscript_nocs_len))
        else:
            if acp:
                continue
            sq = z3.BitVecVal(0, 32) if base in (2, 3) else None
            ins.append(wire_txin(i, script=z3.Empty(SEQ), script_len=zero64, sequence=sq))
    if base == 2:
        outs = []
    elif base == 3:
        if idx >= len(tx.outs):
            return ("err",)
        blank = seq_concat(u64le(z3.BitVecVal(0xffffffffffffffff, 64)), spec_varint(zero64))
        outs = [blank] * idx + [wire_txout(tx.outs[idx])]
    else:
        outs = [wire_txout(o) for o in tx.outs]
    pre = seq_concat(wire_tx(tx.version, ins, outs, tx.locktime), u32le(z3.BitVecVal(flag, 32)))
    return ("ok", pre)
