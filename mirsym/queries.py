"""Property queries of the mirsym engine (E2).  Each query explores the real MIR of the
named entry points from a symbolic state, and discharges SMT queries `path-condition ∧
impl ≠ spec`.  sat ⇒ the model is turned into a native request and replayed against the
real crate (dev + release); only reproducing violations are reported."""
import json, time, itertools
import z3
from .executor import Program, Exec, Unsupported, PathPanic
from .models import MODELS, uf, deref
from .txmodel import *
from .values import *
from . import concrete as C
from . import seqeq as SE

FORKID_FLAGS = [0x41, 0x42, 0x43, 0xc1, 0xc2, 0xc3]
LEGACY_FLAGS = [0x01, 0x02, 0x03, 0x81, 0x82, 0x83]
REPLAY_CAP = 70000
MAX_VIOLATIONS = 2


class QResult:
    def __init__(self, name):
        self.name = name
        self.violations = []
        self.undecided = []
        self.queries = 0
        self.paths = 0
        self.solver_s = 0.0
        self.functions = set()
        self.models = set()
        self.samples = []
        self.cases = 0
        self.validated = 0

    def as_dict(self):
        return {"name": self.name, "violations": self.violations, "undecided": self.undecided, "queries": self.queries, "paths": self.paths,
                "solver_s": round(self.solver_s, 3), "functions": sorted(self.functions), "models": sorted(self.models), "samples": self.samples[:6],
                "cases": self.cases, "translator_validated": self.validated}


class Env:
    def __init__(self, P, tier):
        self.P = P
        self.tier = tier

    def new_exec(self):
        return Exec(self.P, MODELS)

    def fn(self, callsite):
        d = self.P.resolve(callsite)
        if d is None:
            raise Unsupported("cannot resolve " + callsite)
        return d


def flag_enum(P, flag):
    for k, v in P.enums["SigHash"].items():
        if v == flag:
            return Enum("SigHash", k, flag)
    raise Unsupported(f"no SigHash variant with value {flag:#x}")


# ----------------------------------------------------------------------------- model -> concrete inputs
def bv_val(m, t):
    return m.eval(t, model_completion=True).as_long()


def seq_model_bytes(m, s):
    try:
        return C.seq_value_to_bytes(m.eval(s, model_completion=True))
    except Exception:
        return b""


class Binder:
    """collects (z3 var -> concrete value) pairs and the JSON view of the same values"""

    def __init__(self, m):
        self.m = m
        self.pairs = []

    def bv(self, t):
        v = bv_val(self.m, t)
        self.pairs.append((t, z3.BitVecVal(v, t.size())))
        return v

    def script(self, s, L, allow_cs=True):
        n = min(bv_val(self.m, L), REPLAY_CAP + 10)
        b = C.safe_script(seq_model_bytes(self.m, s), n, allow_cs)
        self.pairs.append((s, C.bytes_to_seq(b)))
        self.pairs.append((L, z3.BitVecVal(n, 64)))
        return b

    def fixed(self, bs):
        out = bytearray()
        for b in bs:
            out.append(self.bv(b))
        return bytes(out)

    def txin(self, d):
        j = {"prev_tx_id": self.fixed(d["prev_tx_id"]).hex(), "vout": self.bv(d["vout"]), "script": self.script(d["script"], d["script_len"]).hex(), "sequence": self.bv(d["sequence"])}
        if "satoshis" in d:
            j["satoshis"] = self.bv(d["satoshis"])
            j["lockscript"] = self.script(d["lockscript"], d["lockscript_len"]).hex() if "lockscript_len" in d else None
        return j

    def txout(self, d):
        return {"value": self.bv(d["value"]), "script": self.script(d["script"], d["script_len"]).hex()}

    def tx(self, tx):
        return {"version": self.bv(tx.version), "locktime": self.bv(tx.locktime), "inputs": [self.txin(i) for i in tx.ins], "outputs": [self.txout(o) for o in tx.outs]}


def small_model(pc, extra, len_vars, timeout=60000):
    """model of pc ∧ extra with every length variable <= REPLAY_CAP (replayable); falls back to any model"""
    s = z3.Solver()
    s.set("timeout", timeout)
    for c in pc:
        s.add(c)
    for c in extra:
        s.add(c)
    s.push()
    for L in len_vars:
        s.add(z3.ULE(L, z3.BitVecVal(REPLAY_CAP, 64)))
    r = s.check()
    if r == z3.sat:
        return s.model(), True
    s.pop()
    r = s.check()
    if r == z3.sat:
        return s.model(), False
    return None, False


CAPS = (3, 300, REPLAY_CAP)


def compare_small(pc, lens, a, b, st):
    """first 'differ' outcome under the smallest length cap that admits one (small replay inputs); (outcome, all_unknowns)"""
    for cap in CAPS:
        caps = [z3.ULE(L, z3.BitVecVal(cap, 64)) for L in lens]
        outs = SE.compare(list(pc) + caps, a, b, st)
        dif = [o for o in outs if o[0] == "differ"]
        if dif:
            return dif[0]
    return None


SEQ_UFS = {"REMOVE_CODESEPARATORS": C.remove_codeseparators}
BV_UFS = {"REMOVE_CODESEPARATORS_LEN": lambda b: len(C.remove_codeseparators(b))}


def eval_bytes(term, binder):
    C.REAL_UF.setdefault("REMOVE_CODESEPARATORS_LEN", BV_UFS["REMOVE_CODESEPARATORS_LEN"])
    return C.seq_value_to_bytes(C.evaluate(term, binder.pairs, SEQ_UFS))


def all_len_vars(ctx):
    return [v for k, v in ctx.vars.items() if k.endswith("_len")]


# ----------------------------------------------------------------------------- generic impl-vs-spec discharge
def discharge(env, qr, results, spec_of, request_of, what, expect_err_ok=True):
    """results: PathResults of a function returning Result<Vec<u8>,_> (or Vec<u8>).
    spec_of(ctx) -> ('ok', seq) | ('err',) | ('any',);  request_of(ctx, binder) -> (request_json, op_index)"""
    for r in results:
        qr.paths += 1
        ctx = r.ctx
        sp = spec_of(ctx)
        bad = None   # list of extra constraints characterising the violation on this path
        kind = None
        if r.kind == "panic":
            if sp[0] == "any":
                continue
            bad, kind = [], f"panic: {r.msg}"
        else:
            ret = r.ret
            if isinstance(ret, Enum) and ret.name == "Result":
                if ret.variant == "Err":
                    if sp[0] == "ok":
                        bad, kind = [], "refused (Err) where the specification defines a preimage/encoding"
                    else:
                        continue
                else:
                    got = ret.f[0]
            else:
                got = ret
            if bad is None:
                if sp[0] == "err":
                    bad, kind = [], "returned a value where an error is required"
                elif sp[0] == "any":
                    continue
                else:
                    gs = got.s if isinstance(got, Bytes) else None
                    if gs is None:
                        raise Unsupported(f"result is not a byte string: {got!r}")
                    bad, kind = [gs != sp[1]], "bytes differ from the reference encoding"
                    ctx._got = gs
        if len(qr.violations) >= MAX_VIOLATIONS:
            continue
        caps = [z3.ULE(L, z3.BitVecVal(REPLAY_CAP, 64)) for L in all_len_vars(ctx)]
        st = {}
        if bad and getattr(ctx, "_got", None) is not None and kind.startswith("bytes differ"):
            outcomes = SE.compare(list(r.pc), ctx._got, sp[1], st)
            qr.solver_s += st.get("solver_s", 0.0)
            qr.queries += st.get("queries", 0)
            unk = [o for o in outcomes if o[0] == "unknown"]
            dif = [o for o in outcomes if o[0] == "differ"]
            for o in unk:
                qr.undecided.append(f"{what}: solver returned unknown ({o[2]})")
            if not dif:
                continue
            st2 = {}
            so = compare_small(list(r.pc) + getattr(ctx, "replay_extra", []), all_len_vars(ctx), ctx._got, sp[1], st2)
            qr.solver_s += st2.get("solver_s", 0.0)
            qr.queries += st2.get("queries", 0)
            if so:
                m, small = so[2], True
                kind = f"bytes differ from the reference encoding ({so[3]})"
            else:
                m, small = dif[0][2], False
        else:
            t0 = time.time()
            qr.queries += 1
            m, small = small_model(list(r.pc) + getattr(ctx, "replay_extra", []), bad, all_len_vars(ctx))
            qr.solver_s += time.time() - t0
            if m is None:
                continue
        # a model: replay natively
        b = Binder(m)
        req, opi = request_of(ctx, b)
        item = {"message": f"{what}: {kind}", "request": req, "op_index": opi, "small_model": small}
        if not small:
            item["unreplayed"] = "the only counterexamples need a byte string longer than the replay cap"
            qr.undecided.append(f"{what}: {kind} — counterexample not replayable within {REPLAY_CAP} bytes")
            continue
        try:
            expected = None if sp[0] != "ok" else eval_bytes(sp[1], b)
            enc_got = eval_bytes(ctx._got, b) if getattr(ctx, "_got", None) is not None and r.kind == "ok" and sp[0] == "ok" and bad else None
        except Exception as e:
            qr.undecided.append(f"{what}: could not evaluate the model concretely: {e!r}")
            continue
        reproduced = False
        native = {}
        for prof in ("debug", "release"):
            out = C.Native.run(req, prof)
            res = out[opi] if opi < len(out) else out[-1]
            native[prof] = res
            if "toolerror" in res:
                continue
            if sp[0] == "ok":
                if res.get("ok") != expected.hex():
                    reproduced = True
                if enc_got is not None and "ok" in res and res["ok"] != enc_got.hex():
                    item["translator_mismatch"] = {"encoding": enc_got.hex()[:400], "native": res["ok"][:400]}
            elif sp[0] == "err":
                if "ok" in res or "panic" in res:
                    reproduced = True
            if r.kind == "panic" and "panic" in res:
                reproduced = True
        item["expected"] = expected.hex() if expected is not None else sp[0]
        item["native"] = native
        if "translator_mismatch" in item and not reproduced:
            qr.undecided.append(f"{what}: translator validation failed (encoding and real code disagree on a concrete input): {json.dumps(item['translator_mismatch'])[:300]}")
            continue
        if reproduced:
            qr.violations.append(item)
        else:
            qr.undecided.append(f"{what}: {kind} — SMT counterexample did not reproduce natively (expected {str(item['expected'])[:80]}, native {json.dumps(native)[:200]})")


def validate_translation(env, qr, results, request_of, n=1):
    """translator validation: on a concrete model of a path, the evaluated impl term must equal what the real code returns"""
    done = 0
    for r in results:
        if done >= n or r.kind != "ok":
            continue
        ret = r.ret
        got = ret.f[0] if isinstance(ret, Enum) and ret.name == "Result" and ret.variant == "Ok" else ret if isinstance(ret, Bytes) else None
        if not isinstance(got, Bytes):
            continue
        m, small = small_model(list(r.pc) + getattr(r.ctx, "replay_extra", []), [], all_len_vars(r.ctx))
        if m is None or not small:
            continue
        b = Binder(m)
        req, opi = request_of(r.ctx, b)
        try:
            enc = eval_bytes(got.s, b)
        except Exception as e:
            qr.undecided.append(f"translator validation: cannot evaluate encoding: {e!r}")
            return
        out = C.Native.run(req, "debug")
        res = out[opi] if opi < len(out) else out[-1]
        if res.get("ok") != enc.hex():
            qr.undecided.append(f"translator validation FAILED for {qr.name}: encoding {enc.hex()[:120]} vs native {json.dumps(res)[:160]}")
            return
        qr.validated += 1
        qr.samples.append({"translator_validation_input": req, "native_equals_encoding": True, "bytes": len(enc)})
        done += 1


def finish(qr, ex):
    qr.functions |= {f for f in ex.functions_run}
    qr.models |= ex.models_used
    qr.solver_s += ex.stats["solver_s"]
    qr.queries += ex.stats["feasibility_checks"]


# ----------------------------------------------------------------------------- C03: FORKID preimage
def cache_states(tier):
    return [(False, False, False)]


def q_bip143(env, k_in, k_out, flags=FORKID_FLAGS, inv_states=False, name=None):
    """sighash_preimage_impl (dispatch) -> sighash_bip143 and everything below it vs the replay-protected sighash spec"""
    qr = QResult(name or f"bip143_k{k_in}x{k_out}")
    P = env.P
    entry = env.fn("sighash::<impl transaction::Transaction>::sighash_preimage_impl")
    states = list(itertools.product([False, True], repeat=3)) if inv_states else [(False, False, False)]
    for flag in flags:
        for idx in range(k_in + 1):
            for st in states:
                qr.cases += 1
                ex = env.new_exec()

                def setup(ex, flag=flag, idx=idx, st=st):
                    ctx = Ctx()
                    # cache pre-state: each slot None or the CURRENT value (invariant 'absent or current')
                    pre = SymTx(ex, ctx, k_in, k_out)
                    if any(st):
                        cache = (H256d(seq_concat(*[wire_outpoint(i) for i in pre.ins])) if st[0] else None,
                                 H256d(seq_concat(*[u32le(i["sequence"]) for i in pre.ins])) if st[1] else None,
                                 H256d(seq_concat(*[wire_txout(o) for o in pre.outs])) if st[2] else None)
                        ctx2 = Ctx()
                        pre = SymTx(ex, ctx, k_in, k_out, cache=cache)
                    ctx.tx = pre
                    sub, subL = sym_bytes(ex, ctx, "subscript")
                    val = z3.BitVec("value", 64)
                    ctx.sub = (sub, subL, val)
                    ctx.txptr = Ptr([pre.value], 0)
                    args = [ctx.txptr, Int(idx, "usize"), flag_enum(P, flag), Ptr([mk_script(sub)], 0), Int(val, "u64")]
                    return entry, args, ctx

                try:
                    results = ex.explore(setup)
                except Unsupported as e:
                    qr.undecided.append(f"flag {flag:#x} idx {idx}: {e}")
                    continue

                def spec_of(ctx, flag=flag, idx=idx):
                    if idx >= k_in:
                        return ("err",)
                    sub, subL, val = ctx.sub
                    return spec_bip143(ctx.tx, idx, flag, sub, subL, val)

                def request_of(ctx, b, flag=flag, idx=idx, st=st):
                    txj = b.tx(ctx.tx)
                    sub, subL, val = ctx.sub
                    ops = prime_ops(st, txj)
                    ops.append({"op": "preimage", "flag": flag, "idx": idx, "subscript": b.script(sub, subL).hex(), "value": b.bv(val)})
                    return {"tx": txj, "ops": ops}, len(ops) - 1

                discharge(env, qr, results, spec_of, request_of, f"FORKID preimage flag={flag:#x} idx={idx} k_in={k_in} k_out={k_out} cache={st}")
                if flag == flags[0] and idx == 0 and not any(st):
                    validate_translation(env, qr, results, request_of)
                finish(qr, ex)
    return qr


def prime_ops(st, txj):
    """native call prefix that brings the hash cache into slot state st=(inputs, sequence, outputs) where reachable"""
    ops = []
    dummy = {"subscript": "51", "value": 1, "idx": 0}
    if st == (True, True, True):
        ops.append(dict(op="preimage", flag=0x41, **dummy))
    else:
        if st[0]:
            ops.append(dict(op="preimage", flag=0x42, **dummy))
        if st[2]:
            ops.append(dict(op="preimage", flag=0xc1, **dummy))
    return ops


# ----------------------------------------------------------------------------- C10: legacy preimage
def q_legacy(env, k_in, k_out, flags=LEGACY_FLAGS, name=None):
    qr = QResult(name or f"legacy_k{k_in}x{k_out}")
    P = env.P
    entry = env.fn("sighash::<impl transaction::Transaction>::sighash_preimage_impl")
    for flag in flags:
        for idx in range(k_in + 1):
            qr.cases += 1
            ex = env.new_exec()

            def setup(ex, flag=flag, idx=idx):
                ctx = Ctx()
                ctx.tx = SymTx(ex, ctx, k_in, k_out)
                sub, subL = sym_bytes(ex, ctx, "subscript")
                val = z3.BitVec("value", 64)
                ctx.sub = (sub, subL, val)
                # replay inputs carry no OP_CODESEPARATOR (its removal is Script-internal and uninterpreted here), so for
                # them - and only for model search, never for the proof - the separator-free length is the length itself
                ctx.replay_extra = [uf("REMOVE_CODESEPARATORS_LEN", SEQ, z3.BitVecSort(64))(sub) == subL]
                args = [Ptr([ctx.tx.value], 0), Int(idx, "usize"), flag_enum(P, flag), Ptr([mk_script(sub)], 0), Int(val, "u64")]
                return entry, args, ctx
            try:
                results = ex.explore(setup)
            except Unsupported as e:
                qr.undecided.append(f"legacy flag {flag:#x} idx {idx}: {e}")
                continue

            def spec_of(ctx, flag=flag, idx=idx):
                if idx >= k_in:
                    return ("err",)
                sub, subL, val = ctx.sub
                nocs = uf("REMOVE_CODESEPARATORS", SEQ, SEQ)(sub)
                nocs_len = uf("REMOVE_CODESEPARATORS_LEN", SEQ, z3.BitVecSort(64))(sub)
                return spec_legacy(ctx.tx, idx, flag, nocs, nocs_len)

            def request_of(ctx, b, flag=flag, idx=idx):
                txj = b.tx(ctx.tx)
                sub, subL, val = ctx.sub
                ops = [{"op": "preimage", "flag": flag, "idx": idx, "subscript": b.script(sub, subL, allow_cs=False).hex(), "value": b.bv(val)}]
                return {"tx": txj, "ops": ops}, 0
            discharge(env, qr, results, spec_of, request_of, f"legacy preimage flag={flag:#x} idx={idx} k_in={k_in} k_out={k_out}")
            if flag == flags[0] and idx == 0:
                validate_translation(env, qr, results, request_of)
            finish(qr, ex)
    return qr


# ----------------------------------------------------------------------------- C01: serialisation
def q_wire(env, k_in, k_out, name=None):
    """Transaction::to_bytes_impl / get_id_impl / get_size_impl vs the wire format"""
    qr = QResult(name or f"wire_k{k_in}x{k_out}")
    P = env.P
    for what, callsite in (("to_bytes", "transaction::Transaction::to_bytes_impl"), ("get_id", "transaction::Transaction::get_id_impl")):
        entry = env.fn(callsite)
        qr.cases += 1
        ex = env.new_exec()

        def setup(ex):
            ctx = Ctx()
            ctx.tx = SymTx(ex, ctx, k_in, k_out)
            return entry, [Ptr([ctx.tx.value], 0)], ctx
        try:
            results = ex.explore(setup)
        except Unsupported as e:
            qr.undecided.append(f"{what}: {e}")
            continue
        if what == "get_id":
            # Result<Hash, _> -> unwrap the Hash newtype to bytes
            for r in results:
                if r.kind == "ok" and r.ret.variant == "Ok":
                    h = r.ret.f[0]
                    r.ret = Enum("Result", "Ok", 0, [h.f[0]])

        def spec_of(ctx, what=what):
            w = spec_wire(ctx.tx)
            if what == "to_bytes":
                return ("ok", w)
            items = be_bytes(uf("SHA256D", SEQ, z3.BitVecSort(256))(w), 32)
            return ("ok", seq_of(list(reversed(items))))

        def request_of(ctx, b, what=what):
            return {"tx": b.tx(ctx.tx), "ops": [{"op": what}]}, 0
        discharge(env, qr, results, spec_of, request_of, f"wire {what} k_in={k_in} k_out={k_out}")
        validate_translation(env, qr, results, request_of)
        finish(qr, ex)
    return qr


def q_accessors(env, k_in, k_out, name=None):
    """C01 'every accessor reports what an independent decoder reads from the bytes': Transaction::get_size_impl, satoshis_out,
    satoshis_in, is_coinbase_impl, get_outpoints_impl on a symbolic transaction vs the values defined by its wire serialisation
    (size = length of the reference serialisation, totals = sums of the value fields, outpoints = wire-order txid || LE index,
    coinbase = exactly one input with the null outpoint)."""
    qr = QResult(name or f"accessors_k{k_in}x{k_out}")
    P = env.P
    b64 = lambda v: z3.BitVecVal(v, 64)

    def vlen(L):
        return z3.If(z3.ULE(L, 252), b64(1), z3.If(z3.ULE(L, 0xffff), b64(3), z3.If(z3.ULE(L, 0xffffffff), b64(5), b64(9))))

    def spec_size(tx):
        n = b64(4) + vlen(b64(len(tx.ins))) + vlen(b64(len(tx.outs))) + b64(4)
        for i in tx.ins:
            n = n + b64(36) + vlen(i["script_len"]) + i["script_len"] + b64(4)
        for o in tx.outs:
            n = n + b64(8) + vlen(o["script_len"]) + o["script_len"]
        return n

    def total(terms):
        t = b64(0)
        for x in terms:
            t = t + x
        return t

    cases = [("get_size", "transaction::Transaction::get_size_impl", False, None), ("satoshis_out", "transaction::Transaction::satoshis_out", False, None),
             ("satoshis_in", "transaction::Transaction::satoshis_in", True, None), ("is_coinbase", "transaction::Transaction::is_coinbase_impl", False, None),
             ("outpoints", "transaction::Transaction::get_outpoints_impl", False, None)]
    if k_in >= 1:
        cases.append(("satoshis_in", "transaction::Transaction::satoshis_in", True, k_in - 1))   # the last input carries no value: the total is undefined
    for what, callsite, extended, missing in cases:
        label = f"accessor {what} k_in={k_in} k_out={k_out}" + (f" (input {missing} without a declared value)" if missing is not None else "")
        try:
            entry = env.fn(callsite)
        except Unsupported as e:
            qr.undecided.append(f"{label}: {e}")
            continue
        qr.cases += 1
        ex = env.new_exec()

        def setup(ex, extended=extended, missing=missing):
            ctx = Ctx()
            ctx.tx = SymTx(ex, ctx, k_in, k_out, extended=extended)
            if missing is not None:
                iv = ctx.tx.value.f[P.structs["Transaction"].index("inputs")].f[missing]
                iv.f[P.structs["TxIn"].index("satoshis")] = none()
            # the totals are claimed for amounts whose sum fits 64 bits (any real amount: at most 21e14 per field)
            for o in ctx.tx.outs:
                ctx.assumptions.append(z3.ULE(o["value"], b64(1 << 60)))
            for i in ctx.tx.ins:
                if "satoshis" in i:
                    ctx.assumptions.append(z3.ULE(i["satoshis"], b64(1 << 60)))
            return entry, [Ptr([ctx.tx.value], 0)], ctx
        try:
            results = ex.explore(setup)
        except Unsupported as e:
            qr.undecided.append(f"{label}: {e}")
            continue
        for r in results:
            qr.paths += 1
            c = r.ctx
            tx = c.tx
            bad, msg = None, None
            if r.kind == "panic":
                bad, msg = [], f"panics: {r.msg.split(' @')[0][:80]}"
            elif r.kind != "ok":
                qr.undecided.append(f"{label}: {r.kind} {getattr(r, 'msg', '')}"[:200])
                continue
            else:
                ret = r.ret
                try:
                    if what == "get_size":
                        if ret.variant != "Ok":
                            bad, msg = [], "refuses (Err) to report the size of a serialisable transaction"
                        else:
                            bad, msg = [ret.f[0].t != spec_size(tx)], "the size differs from the length of the serialisation"
                    elif what == "satoshis_out":
                        bad, msg = [ret.t != total([o["value"] for o in tx.outs])], "the output total differs from the sum of the value fields"
                    elif what == "satoshis_in":
                        if missing is not None or not tx.ins:
                            if ret.variant != "None":
                                bad, msg = [], "reports an input total although an input has no declared value (or there is no input)"
                        elif ret.variant != "Some":
                            bad, msg = [], "reports no input total although every input declares its value"
                        else:
                            bad, msg = [ret.f[0].t != total([i["satoshis"] for i in tx.ins])], "the input total differs from the sum of the declared values"
                    elif what == "is_coinbase":
                        want = z3.BoolVal(False)
                        if len(tx.ins) == 1:
                            want = z3.And(*[b == 0 for b in tx.ins[0]["prev_tx_id"]], tx.ins[0]["vout"] == 0xffffffff)
                        got = ret.t if isinstance(ret, Bool) else (ret.t != 0)
                        bad, msg = [got != want], "the coinbase flag differs from 'exactly one input, with the null outpoint'"
                    elif what == "outpoints":
                        got = deref(ret).f
                        if len(got) != len(tx.ins):
                            bad, msg = [], f"returns {len(got)} outpoints for {len(tx.ins)} inputs"
                        else:
                            for g, i in zip(got, tx.ins):
                                st = {}
                                outs = SE.compare(list(r.pc), g.s, wire_outpoint(i), st)
                                qr.queries += st.get("queries", 0)
                                qr.solver_s += st.get("solver_s", 0.0)
                                if any(o[0] == "unknown" for o in outs):
                                    qr.undecided.append(f"{label}: solver unknown")
                                if any(o[0] == "differ" for o in outs):
                                    bad, msg = [g.s != wire_outpoint(i)], "an outpoint differs from the wire-order transaction id followed by the little-endian output index"
                except AttributeError as e:
                    qr.undecided.append(f"{label}: result of unexpected shape {ret!r}: {e}"[:200])
                    continue
            if bad is None or len(qr.violations) >= MAX_VIOLATIONS:
                continue
            t0 = time.time()
            qr.queries += 1
            m, small = small_model(list(r.pc) + getattr(c, "replay_extra", []), bad, all_len_vars(c))
            qr.solver_s += time.time() - t0
            if m is None:
                continue
            if not small:
                qr.undecided.append(f"{label}: {msg} — counterexample not replayable within {REPLAY_CAP} bytes")
                continue
            b = Binder(m)
            txj = b.tx(tx)
            if missing is not None:
                txj["inputs"][missing].pop("satoshis", None)
            nop = {"get_size": "get_size", "satoshis_out": "satoshis_out", "satoshis_in": "satoshis_in", "is_coinbase": "is_coinbase", "outpoints": "outpoints"}[what]
            req = {"tx": txj, "ops": [{"op": "to_bytes"}, {"op": nop}]}
            ins_j, outs_j = txj["inputs"], txj["outputs"]
            if what == "get_size":
                want_v = None     # taken from the native serialisation below
            elif what == "satoshis_out":
                want_v = sum(o["value"] for o in outs_j)
            elif what == "satoshis_in":
                want_v = None if (missing is not None or not ins_j) else sum(i["satoshis"] for i in ins_j)
            elif what == "is_coinbase":
                want_v = len(ins_j) == 1 and ins_j[0]["prev_tx_id"] == "00" * 32 and ins_j[0]["vout"] == 0xffffffff
            else:
                want_v = [bytes(reversed(bytes.fromhex(i["prev_tx_id"]))).hex() + i["vout"].to_bytes(4, "little").hex() for i in ins_j]
            native, reproduced = {}, False
            for prof in ("debug", "release"):
                out = C.Native.run(req, prof)
                native[prof] = out[1] if len(out) > 1 else out[-1]
                res = native[prof]
                if what == "get_size" and len(out) > 1 and "ok" in out[0]:
                    want_v = len(out[0]["ok"]) // 2
                if "panic" in res or ("ok" in res and res["ok"] != want_v):
                    reproduced = True
            item = {"message": f"{label}: {msg}", "request": req, "op_index": 1, "expected": {"ok": want_v}, "native": native}
            if reproduced:
                qr.violations.append(item)
            else:
                qr.undecided.append(f"{label}: {msg} — SMT counterexample did not reproduce natively (expected {want_v!r}, native {json.dumps(native)[:200]})")
        finish(qr, ex)
    return qr


QUERIES = {}


def register(name, fn, **meta):
    QUERIES[name] = (fn, meta)


# ----------------------------------------------------------------------------- C04: cache invariant, one inductive step per mutator
class TxView:
    """reference-side view (z3 terms) of a Transaction *value* of the executor"""

    def __init__(self, ex, P, txv):
        g = lambda sv, name: sv.f[P.structs[sv.name].index(name)]
        self.version = g(txv, "version").t
        self.locktime = g(txv, "n_locktime").t
        self.ins, self.outs = [], []
        for iv in g(txv, "inputs").f:
            pid = ex.seq_items(g(iv, "prev_tx_id").s)
            if pid is None or len(pid) != 32:
                raise Unsupported("prev_tx_id is not 32 concrete-length bytes")
            sc = g(iv, "unlocking_script").f[0].s
            self.ins.append({"prev_tx_id": pid, "vout": g(iv, "vout").t, "sequence": g(iv, "sequence").t, "script": sc, "script_len": ex.seq_len(sc)})
        for ov in g(txv, "outputs").f:
            sc = g(ov, "script_pub_key").f[0].s
            self.outs.append({"value": g(ov, "value").t, "script": sc, "script_len": ex.seq_len(sc)})
        hc = g(txv, "hash_cache")
        self.slots = [g(hc, n) for n in ("hash_inputs", "hash_sequence", "hash_outputs")]


def slot_specs(view):
    e = z3.Empty(SEQ)
    return (H256d(seq_concat(*[wire_outpoint(i) for i in view.ins]) if view.ins else e),
            H256d(seq_concat(*[u32le(i["sequence"]) for i in view.ins]) if view.ins else e),
            H256d(seq_concat(*[wire_txout(o) for o in view.outs]) if view.outs else e))


def fresh_txin(ex, ctx, P, name):
    pid = fixed_bytes(ctx, name + "_prevtxid", 32)
    d = {"prev_tx_id": pid, "vout": z3.BitVec(name + "_vout", 32), "sequence": z3.BitVec(name + "_sequence", 32)}
    d["script"], d["script_len"] = sym_bytes(ex, ctx, name + "_script")
    v = mk_struct(P, "TxIn", prev_tx_id=Bytes(seq_of(pid)), vout=Int(d["vout"], "u32"), unlocking_script=mk_script(d["script"]), sequence=Int(d["sequence"], "u32"),
                  locking_script=none(), satoshis=none())
    return d, v


def fresh_txout(ex, ctx, P, name):
    d = {"value": z3.BitVec(name + "_value", 64)}
    d["script"], d["script_len"] = sym_bytes(ex, ctx, name + "_script")
    return d, mk_struct(P, "TxOut", value=Int(d["value"], "u64"), script_pub_key=mk_script(d["script"]))


SLOT_NAMES = ("hash_inputs", "hash_sequence", "hash_outputs")
SLOT_READER = {0: 0x42, 1: 0x41, 2: 0xc1}   # a FORKID flag whose preimage reads the slot


def mutators(P):
    """every crate function whose first parameter is `&mut Transaction` (so a new mutator is picked up automatically)"""
    out = []
    for name, f in P.fns.items():
        if "{closure" in name or "promoted[" in name or not f.params:
            continue
        if re.sub(r"\s+", "", f.params[0][1]) in ("&muttransaction::Transaction", "&mutTransaction"):
            out.append(name)
    return sorted(out)


import re


def synth_args(ex, ctx, P, f, choice):
    """symbolic arguments for a `&mut Transaction` method from its parameter types; choice: dict of enumerated parameters"""
    args, desc = [], []
    for n, ty in f.params[1:]:
        t = re.sub(r"\s+", "", ty)
        pname = f"a{n}"
        if t == "usize":
            v = z3.BitVec(pname + "_usize", 64)
            ctx.vars[pname] = v
            args.append(Int(v, "usize"))
            desc.append(("usize", v))
        elif t in ("u32", "u64"):
            v = z3.BitVec(pname + "_" + t, INT_BITS[t])
            args.append(Int(v, t))
            desc.append((t, v))
        elif t.endswith("txin::TxIn") and t.startswith("&"):
            d, val = fresh_txin(ex, ctx, P, pname)
            args.append(Ptr([val], 0))
            desc.append(("txin", d))
        elif t.endswith("txout::TxOut") and t.startswith("&"):
            d, val = fresh_txout(ex, ctx, P, pname)
            args.append(Ptr([val], 0))
            desc.append(("txout", d))
        elif t in ("std::vec::Vec<transaction::txin::TxIn>", "Vec<txin::TxIn>", "std::vec::Vec<txin::TxIn>"):
            ds, vs = zip(*[fresh_txin(ex, ctx, P, f"{pname}_{i}") for i in range(2)])
            args.append(ListV(list(vs)))
            desc.append(("txins", list(ds)))
        elif t in ("std::vec::Vec<transaction::txout::TxOut>", "Vec<txout::TxOut>", "std::vec::Vec<txout::TxOut>"):
            ds, vs = zip(*[fresh_txout(ex, ctx, P, f"{pname}_{i}") for i in range(2)])
            args.append(ListV(list(vs)))
            desc.append(("txouts", list(ds)))
        elif t.endswith("sighash::SigHash"):
            args.append(flag_enum(P, choice["flag"]))
            desc.append(("flag", choice["flag"]))
        elif t.endswith("script::Script") and t.startswith("&"):
            s, L = sym_bytes(ex, ctx, pname + "_script")
            args.append(Ptr([mk_script(s)], 0))
            desc.append(("script", (s, L)))
        elif "PrivateKey" in t and t.startswith("&"):
            args.append(Ptr([Opaque("PrivateKey")], 0))
            desc.append(("key", None))
        else:
            raise Unsupported(f"cannot synthesise an argument of type {ty} for {f.name}")
    return args, desc


def q_cache_step(env, k_in, k_out, only=None, name=None, all_states=False, max_script=252):
    """C04 inductive step: from every state satisfying Inv (each cache slot absent or current), every `&mut Transaction`
    method leaves a state satisfying Inv."""
    qr = QResult(name or f"cache_step_k{k_in}x{k_out}")
    P = env.P
    all_flags = sorted(P.enums["SigHash"].values())
    stale = {}
    for mname in mutators(P):
        short = mname.split("::")[-1]
        if only and short not in only:
            continue
        f = P.fns[mname]
        has_flag = any(re.sub(r"\s+", "", ty).endswith("sighash::SigHash") for _, ty in f.params[1:])
        choices = [{"flag": fl} for fl in all_flags] if has_flag else [{}]
        for choice in choices:
            states = list(itertools.product([False, True], repeat=3)) if all_states else [(False, False, False), (True, True, True)]
            for st in states:
                if len(qr.violations) >= MAX_VIOLATIONS:
                    break
                qr.cases += 1
                ex = env.new_exec()

                def setup(ex, st=st, choice=choice):
                    ctx = Ctx()
                    base = SymTx(ex, ctx, k_in, k_out)
                    sp = slot_specs(base)
                    tx = SymTx(ex, ctx, k_in, k_out, cache=tuple(sp[i] if st[i] else None for i in range(3)))
                    ctx.tx = tx
                    ctx.txptr = Ptr([tx.value], 0)
                    args, desc = synth_args(ex, ctx, P, f, choice)
                    ctx.desc = desc
                    # cache behaviour does not depend on compact-size classes: one class only (C01/C03/C10 cover the others)
                    for L in all_len_vars(ctx):
                        ctx.assumptions.append(z3.ULE(L, z3.BitVecVal(max_script, 64)))
                    return mname, [ctx.txptr] + args, ctx
                try:
                    results = ex.explore(setup)
                except Unsupported as e:
                    qr.undecided.append(f"{short} {choice} cache={st}: {e}")
                    continue
                for r in results:
                    qr.paths += 1
                    if r.kind != "ok":
                        continue   # a panicking call returns no state (totality is not this property)
                    try:
                        view = TxView(ex, P, r.ctx.txptr.get())
                    except Unsupported as e:
                        qr.undecided.append(f"{short}: {e}")
                        continue
                    want = slot_specs(view)
                    for si, slot in enumerate(view.slots):
                        if slot.variant != "Some":
                            continue
                        h = slot.f[0].f[0].s
                        stt = {}
                        outs = SE.compare(list(r.pc), h, want[si], stt)
                        qr.solver_s += stt.get("solver_s", 0.0)
                        qr.queries += stt.get("queries", 0)
                        for o in outs:
                            if o[0] == "unknown":
                                qr.undecided.append(f"{short}: slot {SLOT_NAMES[si]}: solver unknown")
                        if not any(o[0] == "differ" for o in outs):
                            continue
                        key = (short, si)
                        stale.setdefault(key, {"reproduced": False, "note": None})
                        if stale[key]["reproduced"]:
                            continue
                        so = compare_small(r.pc, all_len_vars(r.ctx), h, want[si], stt)
                        if so is None:
                            stale[key]["note"] = "stale only for byte strings above the replay cap"
                            continue
                        item = cache_replay(env, r.ctx, so[2], short, choice, st, si, k_in, k_out)
                        if item.get("reproduced"):
                            stale[key]["reproduced"] = True
                            if len(qr.violations) < MAX_VIOLATIONS:
                                qr.violations.append(item)
                        else:
                            stale[key]["note"] = f"cache={st}: native replay showed no differing preimage: {json.dumps(item.get('native'))[:240]}"
                finish(qr, ex)
    for (short, si), v in stale.items():
        if not v["reproduced"]:
            qr.undecided.append(f"{short}: slot {SLOT_NAMES[si]} is not 'absent or current' after the call in the encoding, but no native history reproduced a differing preimage ({v['note']})")
    return qr


def cache_replay(env, ctx, m, short, choice, st, si, k_in, k_out):
    """history: build tx, prime the cache, call the mutator, then compare preimage(reader flag) with the same on a reparsed copy"""
    b = Binder(m)
    txj = b.tx(ctx.tx)
    ops = prime_ops(st, txj)
    op = {"op": short}
    vals = []
    for kind, d in ctx.desc:
        if kind == "usize":
            op["index"] = b.bv(d)
        elif kind in ("u32", "u64"):
            op["v"] = b.bv(d)
        elif kind == "txin":
            op["input"] = b.txin(d)
        elif kind == "txout":
            op["output"] = b.txout(d)
        elif kind == "flag":
            op["flag"] = d
        elif kind == "script":
            op["subscript"] = b.script(*d).hex()
        elif kind in ("txins", "txouts", "key"):
            op.setdefault("unsupported_native", []).append(kind)
    if short in ("sighash_preimage_impl", "sighash_bip143", "sighash_legacy", "sign_impl", "sign_with_k_impl"):
        op = {"op": "preimage", "flag": choice.get("flag", 0x41), "idx": op.get("index", 0), "subscript": op.get("subscript", "51"), "value": op.get("v", 1)}
    elif short in ("hash_inputs", "hash_sequence", "hash_outputs"):
        # private fill functions are reached through the public preimage call with the same flag
        op = {"op": "preimage", "flag": choice.get("flag", 0x41), "idx": op.get("index", 0), "subscript": "51", "value": 1}
    ops.append(op)
    reader = {"op": "preimage", "flag": SLOT_READER[si], "idx": 0, "subscript": "51", "value": 1}
    a_i = len(ops)
    ops += [reader, {"op": "reparse"}, dict(reader)]
    req = {"tx": txj, "ops": ops}
    item = {"message": f"after {short}{choice if choice else ''} from cache state {dict(zip(SLOT_NAMES, st))}, slot {SLOT_NAMES[si]} holds a stale hash: the next sighash differs from the one on a freshly parsed copy",
            "request": req, "op_index": a_i, "compare": "pair", "pair": [a_i, a_i + 2], "expected": "preimage(history) == preimage(reparsed copy)"}
    native = {}
    rep = False
    for prof in ("debug", "release"):
        out = C.Native.run(req, prof)
        native[prof] = {"history": out[a_i] if a_i < len(out) else out[-1], "reparsed": out[a_i + 2] if a_i + 2 < len(out) else None}
        if a_i + 2 < len(out) and "ok" in out[a_i] and "ok" in out[a_i + 2] and out[a_i] != out[a_i + 2]:
            rep = True
    item["native"] = native
    item["reproduced"] = rep
    return item


# ----------------------------------------------------------------------------- C01: parse direction
def q_parse(env, k_in, k_out, name=None):
    """Transaction::from_bytes_impl on the reference serialisation of a symbolic transaction returns exactly that transaction
    (version, outpoints, script bytes, sequences, values, locktime), for every compact-size class of every script length"""
    from .models_parse import PMODELS, Pieces, varint_pieces
    qr = QResult(name or f"parse_k{k_in}x{k_out}")
    P = env.P
    entry = env.fn("transaction::Transaction::from_bytes_impl")
    ex = Exec(P, PMODELS + MODELS, logic="QF_BV", timeout_ms=20000, max_paths=20000)

    def setup(ex):
        ctx = Ctx()
        tx = SymTx(ex, ctx, k_in, k_out)
        ctx.tx = tx
        u = lambda ts: [("u", t) for t in ts]
        p = u(le_bytes(tx.version, 4)) + varint_pieces(z3.BitVecVal(k_in, 64))
        for i in tx.ins:
            p += u(list(reversed(i["prev_tx_id"]))) + u(le_bytes(i["vout"], 4)) + varint_pieces(i["script_len"]) + [("a", i["script"], i["script_len"])] + u(le_bytes(i["sequence"], 4))
        p += varint_pieces(z3.BitVecVal(k_out, 64))
        for o in tx.outs:
            p += u(le_bytes(o["value"], 8)) + varint_pieces(o["script_len"]) + [("a", o["script"], o["script_len"])]
        p += u(le_bytes(tx.locktime, 4))
        return entry, [Ptr([Pieces(p)], 0)], ctx
    try:
        results = ex.explore(setup)
    except Unsupported as e:
        qr.undecided.append(f"from_bytes_impl: {e}")
        return qr
    qr.cases += 1
    coinbase_tokenised = []
    for r in results:
        qr.paths += 1
        if len(qr.violations) >= MAX_VIOLATIONS:
            break
        tx = r.ctx.tx
        bad_kind, pairs, structural = None, [], True
        if r.kind == "panic":
            bad_kind = f"panics: {r.msg}"
        elif r.ret.variant != "Ok":
            bad_kind = "rejects a well-formed serialisation"
        else:
            try:
                view = TxView(ex, P, r.ret.f[0])
            except Unsupported as e:
                qr.undecided.append(f"parse: {e}")
                continue
            if len(view.ins) != k_in or len(view.outs) != k_out:
                bad_kind = f"parsed {len(view.ins)} inputs / {len(view.outs)} outputs instead of {k_in} / {k_out}"
            else:
                pairs.append((view.version, tx.version))
                pairs.append((view.locktime, tx.locktime))
                for gi, wi in zip(view.ins, tx.ins):
                    pairs += list(zip(gi["prev_tx_id"], wi["prev_tx_id"])) + [(gi["vout"], wi["vout"]), (gi["sequence"], wi["sequence"])]
                    if gi["script"].get_id() != wi["script"].get_id():
                        structural = False
                for go, wo in zip(view.outs, tx.outs):
                    pairs.append((go["value"], wo["value"]))
                    if go["script"].get_id() != wo["script"].get_id():
                        structural = False
                if any(s.variant != "None" for s in view.slots):
                    bad_kind = "freshly parsed transaction has a non-empty hash cache"
                # the data of a coinbase input (null outpoint) is not a script: it must be kept verbatim, never run through the tokenizer
                # (Script::from_bytes is not the identity on arbitrary bytes: it refuses some strings and shortens a truncated direct push)
                ctors = [kw for nm, kw in getattr(r, "recorded", []) if nm == "script_ctor"]
                for wi in tx.ins:
                    null = z3.And(*[b == 0 for b in wi["prev_tx_id"]], wi["vout"] == 0xffffffff)
                    sc = z3.SolverFor("QF_BV")
                    for c in r.pc:
                        sc.add(c)
                    sc.add(z3.Not(null))
                    qr.queries += 1
                    if sc.check() != z3.unsat:
                        continue      # not a coinbase input on this path
                    mine = [kw for kw in ctors if kw["bytes"].get_id() == wi["script"].get_id()]
                    if any(kw["kind"] == "tokenised" for kw in mine):
                        coinbase_tokenised.append(r)
        s = z3.SolverFor("QF_BV")
        s.set("timeout", 60000)
        for c in r.pc:
            s.add(c)
        for L in all_len_vars(r.ctx):
            s.add(z3.ULE(L, z3.BitVecVal(300, 64)))
        if bad_kind is None:
            if structural:
                neq = [a != b for a, b in pairs if a.get_id() != b.get_id()]
                if not neq:
                    continue
                # full domain first
                s2 = z3.SolverFor("QF_BV")
                for c in r.pc:
                    s2.add(c)
                s2.add(z3.Or(*neq))
                qr.queries += 1
                rr = s2.check()
                if rr == z3.unsat:
                    continue
                if rr == z3.unknown:
                    qr.undecided.append("parse: solver unknown")
                    continue
                s.add(z3.Or(*neq))
                bad_kind = "a parsed field differs from the serialised one"
            else:
                bad_kind = "a parsed script is not the serialised script bytes"
        qr.queries += 1
        if s.check() != z3.sat:
            qr.undecided.append(f"parse: '{bad_kind}' only for scripts above 300 bytes (not replayed)")
            continue
        b = Binder(s.model())
        txj = b.tx(tx)
        req = {"tx": txj, "ops": [{"op": "parse_fields"}]}
        nat = {p_: C.Native.run(req, p_)[0] for p_ in ("debug", "release")}
        item = {"message": f"parse direction k_in={k_in} k_out={k_out}: {bad_kind}", "request": req, "op_index": 0, "expected": txj, "native": nat}
        if any(v.get("ok") != txj for v in nat.values()):
            qr.violations.append(item)
        else:
            qr.undecided.append(f"parse: '{bad_kind}' not reproduced natively")
    if coinbase_tokenised:
        # native confirmation: coinbase data that is not a well-formed script must survive parse-then-serialise byte for byte
        msg = f"parse direction k_in={k_in} k_out={k_out}: the data of a coinbase input (null outpoint) is run through the script tokenizer instead of being kept verbatim"
        rep, last = False, None
        for data in ("050102", "4c", "63", "03aabbcc2f"):
            raw = bytes.fromhex("01000000" + "01" + "00" * 32 + "ffffffff" + f"{len(data) // 2:02x}" + data + "ffffffff" + "01" + "00" * 8 + "00" + "00000000")
            req = {"tx": {"version": 1, "locktime": 0, "inputs": [], "outputs": []}, "ops": [{"op": "from_bytes", "bytes": raw.hex()}, {"op": "to_bytes"}]}
            nat = {p_: C.Native.run(req, p_) for p_ in ("debug", "release")}
            last = (req, nat)
            if any(len(v) < 2 or v[1].get("ok") != raw.hex() for v in nat.values()):
                rep = True
                break
        item = {"message": msg, "request": last[0], "op_index": 1, "expected": last[0]["ops"][0]["bytes"], "native": {k: v[-1] for k, v in last[1].items()}}
        if rep:
            qr.violations.append(item)
        else:
            qr.undecided.append(msg + " — not reproduced natively")
    finish(qr, ex)
    return qr
