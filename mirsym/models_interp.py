"""Models for the interpreter layer: num_bigint::BigInt as a 128-bit two's-complement bit-vector
(operands in the queries have at most 5 bytes, so no operation of the opcode set overflows 128 bits),
Vec<Vec<u8>> stack operations and byte iterators."""
import re
import z3
from .values import *
from .executor import Unsupported, PathPanic, PathBound
from .models import model, MODELS, ok, err, some, NONE, deref, uf, hash_value, AdaptV, IterV, iter_next, generic_arg

BW = 128


class Big:
    __slots__ = ("t",)

    def __init__(self, t):
        self.t = t

    def __repr__(self):
        return f"Big({z3.simplify(self.t)})"


def big_of_int(v):
    t = v.t
    n = t.size()
    return Big(z3.SignExt(BW - n, t) if is_signed(v.ty) else z3.ZeroExt(BW - n, t))


def items_of(ex, v):
    s = ex.bytes_of(v)
    items = ex.seq_items(s)
    if items is None:
        raise Unsupported("interpreter model needs byte strings of concrete length")
    return items


def mag_le(items):
    if not items:
        return z3.BitVecVal(0, BW)
    t = z3.Concat(*reversed(items)) if len(items) > 1 else items[0]
    return z3.ZeroExt(BW - t.size(), t)


SIGN = {"Minus": 0, "NoSign": 1, "Plus": 2}


def sign_enum(name):
    return Enum("Sign", name, SIGN[name])


@model(r"^BigInt::from_bytes_le$")
def m_big_from_bytes_le(ex, a, callee, canon):
    sign = a[0]
    m = mag_le(items_of(ex, a[1]))
    if sign.variant == "Minus":
        return Big(-m)
    if sign.variant == "NoSign":
        return Big(z3.BitVecVal(0, BW))
    return Big(m)


@model(r"^BigInt::from_signed_bytes_le$")
def m_big_from_signed_bytes_le(ex, a, callee, canon):
    items = items_of(ex, a[0])
    if not items:
        return Big(z3.BitVecVal(0, BW))
    t = z3.Concat(*reversed(items)) if len(items) > 1 else items[0]
    return Big(z3.SignExt(BW - t.size(), t))


@model(r"^BigInt::from_slice$")
def m_big_from_slice(ex, a, callee, canon):
    sign = a[0]
    arr = deref(a[1])
    digits = [e.t for e in arr.f]
    t = z3.BitVecVal(0, BW)
    for i, d in enumerate(digits):
        t = t + (z3.ZeroExt(BW - 32, d) << (32 * i))
    return Big(-t if sign.variant == "Minus" else t)


@model(r"^<BigInt as From<(i8|i16|i32|i64|u8|u16|u32|u64|usize|isize)>>::from$")
def m_big_from(ex, a, callee, canon):
    return big_of_int(a[0])


def _rhs(b):
    return b if isinstance(b, Big) else big_of_int(b)


@model(r"^<BigInt as (Add|Sub|Mul)(<.*>)?>::(add|sub|mul)$")
def m_big_arith(ex, a, callee, canon):
    x, y = a[0].t, _rhs(a[1]).t
    op = canon.rsplit("::", 1)[1]
    if op == "mul":
        return Big(bigmul(x, y))
    return Big({"add": x + y, "sub": x - y}[op])


@model(r"^<BigInt as (Div|Rem)(<.*>)?>::(div|rem)$")
def m_big_divrem(ex, a, callee, canon):
    x, y = a[0].t, _rhs(a[1]).t
    if ex.decide(y == 0):
        raise PathPanic("attempt to divide by zero (num_bigint)")
    # num-bigint: truncated division, remainder takes the sign of the dividend (as bvsdiv / bvsrem)
    return Big(bigdiv(x, y) if canon.endswith("div") else bigrem(x, y))


@model(r"^<BigInt as (num_traits::)?ToPrimitive>::to_(i32|i64|u32|u64|usize|isize)$")
def m_big_to_prim(ex, a, callee, canon):
    t = deref(a[0]).t
    ty = canon.rsplit("to_", 1)[1]
    n = INT_BITS[ty]
    if is_signed(ty):
        fits = z3.And(t >= z3.BitVecVal(-(1 << (n - 1)), BW), t <= z3.BitVecVal((1 << (n - 1)) - 1, BW))
    else:
        fits = z3.And(t >= 0, t <= z3.BitVecVal((1 << n) - 1, BW))
    if ex.decide(fits):
        return some(Int(z3.Extract(n - 1, 0, t), ty))
    return NONE()


@model(r"^BigInt::sign$")
def m_big_sign(ex, a, callee, canon):
    t = deref(a[0]).t
    if ex.decide(t == 0):
        return sign_enum("NoSign")
    if ex.decide(t < 0):
        return sign_enum("Minus")
    return sign_enum("Plus")


@model(r"^<BigInt as Neg>::neg$")
def m_big_neg(ex, a, callee, canon):
    return Big(-a[0].t)


@model(r"^<BigInt as (PartialEq|PartialOrd)(<.*>)?>::(eq|ne|lt|le|gt|ge)$")
def m_big_cmp(ex, a, callee, canon):
    x, y = deref(a[0]).t, deref(a[1]).t
    op = canon.rsplit("::", 1)[1]
    return Bool({"eq": x == y, "ne": x != y, "lt": x < y, "le": x <= y, "gt": x > y, "ge": x >= y}[op])


def _uf2(name):
    return z3.Function(name, z3.BitVecSort(BW), z3.BitVecSort(BW), z3.BitVecSort(BW))


def bigmul(x, y):
    """num-bigint's multiplication is external code: an uninterpreted (commutative: arguments ordered) function shared with the reference,
    so the query checks WHICH numbers are multiplied and how the product is encoded, not the multiplier; constants are folded"""
    sx, sy = z3.simplify(x), z3.simplify(y)
    if z3.is_bv_value(sx) or z3.is_bv_value(sy):
        return x * y
    a, b = (x, y) if x.get_id() <= y.get_id() else (y, x)
    return _uf2("BIGMUL")(a, b)


def bigdiv(x, y):
    sy = z3.simplify(y)
    if z3.is_bv_value(sy):
        return x / y
    return _uf2("BIGDIV")(x, y)


def bigrem(x, y):
    sy = z3.simplify(y)
    if z3.is_bv_value(sy):
        return z3.SRem(x, y)
    return _uf2("BIGREM")(x, y)


MAX_SHIFT = 40


@model(r"^<BigInt as (Shl|Shr)<i32>>::(shl|shr)$")
def m_big_shift(ex, a, callee, canon):
    x, n = a[0].t, a[1]
    if ex.decide(n.t < 0):
        raise PathPanic("attempt to shift with negative (num_bigint)")
    k = ex.concretize(n.t, range(0, MAX_SHIFT + 1))
    if k is None:
        raise PathBound(f"shift count above {MAX_SHIFT}")
    return Big(x << k if canon.endswith("shl") else x >> k)


def byte_len_unsigned(ex, m, maxn=16):
    """minimal number of bytes of a non-negative magnitude (at least 1), by forking"""
    for n in range(1, maxn + 1):
        if ex.decide(z3.ULT(m, z3.BitVecVal(1 << (8 * n), BW))):
            return n
    raise PathBound("magnitude above 16 bytes")


@model(r"^BigInt::to_bytes_le$")
def m_big_to_bytes_le(ex, a, callee, canon):
    t = deref(a[0]).t
    if ex.decide(t == 0):
        return Struct("tuple", [sign_enum("NoSign"), Bytes(seq_of([z3.BitVecVal(0, 8)]))])
    neg = ex.decide(t < 0)
    m = -t if neg else t
    n = byte_len_unsigned(ex, m)
    return Struct("tuple", [sign_enum("Minus" if neg else "Plus"), Bytes(seq_of(le_bytes(m, n)))])


@model(r"^BigInt::to_signed_bytes_le$")
def m_big_to_signed_bytes_le(ex, a, callee, canon):
    t = deref(a[0]).t
    for n in range(1, 17):
        lo = z3.BitVecVal(-(1 << (8 * n - 1)), BW)
        hi = z3.BitVecVal((1 << (8 * n - 1)) - 1, BW)
        if ex.decide(z3.And(t >= lo, t <= hi)):
            return Bytes(seq_of(le_bytes(t, n)))
    raise PathBound("value above 16 bytes")


@model(r"^<BigInt as Clone>::clone$")
def m_big_clone(ex, a, callee, canon):
    return deref(a[0])


MODELS.sort(key=lambda m: 0 if m[1].__name__ in ("m_big_clone", "m_unwrap_or_default2") else 1)


# ------------------------------------------------------------------ Vec<Vec<u8>> and byte vectors
@model(r"^Vec::pop$")
def m_vec_pop(ex, a, callee, canon):
    p = a[0]
    v = p.get()
    if isinstance(v, ListV):
        return some(v.f.pop()) if v.f else NONE()
    if isinstance(v, Bytes):
        items = ex.seq_items(v.s)
        if items is None:
            raise Unsupported("Vec<u8>::pop on symbolic length")
        if not items:
            return NONE()
        p.set(Bytes(seq_of(items[:-1])))
        return some(Int(items[-1], "u8"))
    raise Unsupported(f"pop on {v!r}")


@model(r"^Vec::remove$")
def m_vec_remove(ex, a, callee, canon):
    p, idx = a
    v = p.get()
    if isinstance(v, ListV):
        i = ex.concretize(idx.t, range(len(v.f)))
        if i is None:
            raise PathPanic("Vec::remove: removal index out of bounds")
        return v.f.pop(i)
    raise Unsupported(f"remove on {v!r}")


@model(r"^Vec::resize$")
def m_vec_resize(ex, a, callee, canon):
    p, n, val = a
    v = p.get()
    if isinstance(v, Bytes):
        items = ex.seq_items(v.s)
        if items is None:
            raise Unsupported("Vec::resize on symbolic-length bytes")
        if not ex.decide(z3.ULE(n.t, z3.BitVecVal(9, 64))):
            raise PathBound("Vec::resize outside bounds (length above 9)")
        k = ex.concretize(n.t, range(0, 10))
        items = list(items[:k]) + [val.t] * max(0, k - len(items))
        p.set(Bytes(seq_of(items)))
        return UNIT
    raise Unsupported(f"resize on {v!r}")


@model(r"^core::slice::<impl \[.*\]>::swap$")
def m_slice_swap(ex, a, callee, canon):
    v = deref(a[0])
    if isinstance(v, (ListV, Arr)):
        n = len(v.f)
        i = ex.concretize(a[1].t, range(n))
        j = ex.concretize(a[2].t, range(n)) if i is not None else None
        if i is None or j is None:
            raise PathPanic("slice::swap: index out of bounds")
        v.f[i], v.f[j] = v.f[j], v.f[i]
        return UNIT
    raise Unsupported(f"swap on {v!r}")


@model(r"^core::slice::<impl \[u8\]>::split_at$")
def m_split_at(ex, a, callee, canon):
    items = items_of(ex, a[0])
    k = ex.concretize(a[1].t, range(len(items) + 1))
    if k is None:
        raise PathPanic("slice::split_at: mid > len")
    mk = lambda xs: Ptr([Arr([Int(t, "u8") for t in xs])], 0)
    return Struct("tuple", [mk(items[:k]), mk(items[k:])])


@model(r"^core::slice::<impl \[u8\]>::iter$|^<&Vec<u8> as IntoIterator>::into_iter$|^<&\[u8\] as IntoIterator>::into_iter$")
def m_bytes_iter(ex, a, callee, canon):
    items = items_of(ex, a[0])
    return IterV([Int(t, "u8") for t in items], True)


@model(r"^<&u8 as Not>::not$|^<u8 as Not>::not$")
def m_u8_not(ex, a, callee, canon):
    v = deref(a[0])
    return Int(~v.t, "u8")


@model(r"(^|::)Hash::ripemd_160$")
def m_ripemd160(ex, a, callee, canon):
    return Struct("Hash", [hash_value("RIPEMD160", 160, ex.bytes_of(a[0]))])


@model(r"(^|::)Hash::sha_1$")
def m_sha1(ex, a, callee, canon):
    return Struct("Hash", [hash_value("SHA1", 160, ex.bytes_of(a[0]))])


@model(r"^checksig$|^multisig$")
def m_checksig(ex, a, callee, canon):
    raise PathBound("signature opcodes are outside this query")


@model(r"^Vec::splice$")
def m_vec_splice(ex, a, callee, canon):
    p, rng, repl = a
    v = p.get()
    lo, hi = rng.f[0].concrete(), rng.f[1].concrete()
    if not isinstance(v, ListV) or lo is None or hi is None:
        raise Unsupported("Vec::splice")
    if lo > hi or hi > len(v.f):
        raise PathPanic("Vec::splice: range out of bounds")
    new = repl.f if isinstance(repl, ListV) else [x for x in repl.items] if isinstance(repl, IterV) else None
    if new is None:
        raise Unsupported(f"splice replacement {repl!r}")
    removed = v.f[lo:hi]
    v.f[lo:hi] = [clone(x) for x in new]
    return IterV(removed, False)
