"""Models of std / external-crate functions and of the crate functions that are
deliberately kept opaque (hash primitives as uninterpreted functions, Script
as an opaque byte-string carrier).  Every model used by a query is listed in
its evidence."""
import re
import z3
from .values import *
from .executor import Unsupported, PathPanic, strip_generics

MODELS = []


def model(pattern):
    def deco(fn):
        MODELS.append((re.compile(pattern), fn))
        return fn
    return deco


def ok(v=UNIT):
    return Enum("Result", "Ok", 0, [v])


def err(tag="err"):
    return Enum("Result", "Err", 1, [Opaque(tag)])


def some(v):
    return Enum("Option", "Some", 1, [v])


NONE = lambda: Enum("Option", "None", 0, [])


def deref(v):
    while isinstance(v, (Ptr, SeqElemPtr)):
        v = v.get()
    return v


def generic_arg(callee, idx=0):
    """idx-th turbofish group content of the raw callee path, e.g. Vec::<u8>::new -> 'u8'"""
    groups = []
    i = 0
    while True:
        j = callee.find("::<", i)
        if j < 0:
            break
        if callee.startswith("::<impl", j):
            i = j + 3
            continue
        d = 0
        k = j + 2
        while k < len(callee):
            if callee[k] == "<":
                d += 1
            elif callee[k] == ">" and callee[k - 1] not in "-=":
                d -= 1
                if d == 0:
                    break
            k += 1
        groups.append(callee[j + 3:k])
        i = k
    return groups[idx] if idx < len(groups) else None


# ------------------------------------------------------------------ uninterpreted primitives
UF = {}


def uf(name, *sorts):
    if name not in UF:
        UF[name] = z3.Function(name, *sorts)
    return UF[name]


def hash_value(name, bits, seq):
    f = uf(name, SEQ, z3.BitVecSort(bits))
    return Bytes(seq_of(be_bytes(f(seq), bits // 8)))


@model(r"(^|::)Hash::sha_256d$")
def m_sha256d(ex, a, callee, canon):
    return Struct("Hash", [hash_value("SHA256D", 256, ex.bytes_of(a[0]))])


@model(r"(^|::)Hash::sha_256$")
def m_sha256(ex, a, callee, canon):
    return Struct("Hash", [hash_value("SHA256", 256, ex.bytes_of(a[0]))])


@model(r"(^|::)Hash::hash_160$")
def m_hash160(ex, a, callee, canon):
    return Struct("Hash", [hash_value("HASH160", 160, ex.bytes_of(a[0]))])


@model(r"(^|::)Hash::sha_512$")
def m_sha512(ex, a, callee, canon):
    return Struct("Hash", [hash_value("SHA512", 512, ex.bytes_of(a[0]))])


# ------------------------------------------------------------------ Script: opaque byte-string carrier
def script_bytes(v):
    v = deref(v)
    if isinstance(v, Struct) and v.name == "Script":
        return v.f[0]
    raise Unsupported(f"expected Script, got {v!r}")


def _structured(v):
    v = deref(v)
    return isinstance(v, Struct) and v.name == "Script" and isinstance(v.f[0], ListV)


def _real(ex, callsite, a):
    d = ex.P.resolve(callsite)
    if d is None:
        raise Unsupported("cannot resolve " + callsite)
    return ex.call_fn(d, a)


@model(r"(^|::)Script::to_bytes$")
def m_script_to_bytes(ex, a, callee, canon):
    if _structured(a[0]):
        return _real(ex, "script::Script::to_bytes", a)
    return Bytes(script_bytes(a[0]).s)


@model(r"(^|::)Script::get_script_length$")
def m_script_len(ex, a, callee, canon):
    if _structured(a[0]):
        return _real(ex, "script::Script::get_script_length", a)
    return Int(ex.seq_len(script_bytes(a[0]).s), "usize")


@model(r"^<(\w+::)*Script as Default>::default$")
def m_script_default(ex, a, callee, canon):
    return Struct("Script", [Bytes(z3.Empty(SEQ))])


@model(r"(^|::)Script::remove_codeseparators$")
def m_script_rmcs(ex, a, callee, canon):
    sp = a[0]
    if _structured(sp):
        return _real(ex, "script::Script::remove_codeseparators", a)
    s = deref(sp)
    f = uf("REMOVE_CODESEPARATORS", SEQ, SEQ)
    s.f[0] = Bytes(f(s.f[0].s))
    return UNIT


# ------------------------------------------------------------------ Clone / Default / Deref / conversions
@model(r"^<.* as Clone>::clone$")
def m_clone(ex, a, callee, canon):
    return clone(deref(a[0]))


@model(r"^<(std::vec::)?Vec<.*> as Deref(Mut)?>::deref(_mut)?$")
def m_vec_deref(ex, a, callee, canon):
    return a[0]


@model(r"^<.* as (Into|From)<.*>>::(into|from)$")
def m_into(ex, a, callee, canon):
    v = a[0]
    if isinstance(v, Opaque):
        return Opaque("converted", v)
    if isinstance(v, (Int, Bool, Bytes, Arr, Struct, Enum, ListV)):
        if "String" in canon or "BSVErrors" in canon or "Error" in canon:
            return Opaque("converted", None)
        return v
    return Opaque("converted", None)


@model(r"^<str as ToString>::to_string$|^<.* as ToString>::to_string$|^(alloc::|std::)?fmt::format$|^format$|^must_use$|Arguments::new|Argument::new_|^core::fmt::|^std::fmt::")
def m_fmt(ex, a, callee, canon):
    if canon.endswith("must_use") and a:
        return a[0]
    return Opaque("fmt")


# ------------------------------------------------------------------ Vec<u8> / Vec<T>
def is_u8_vec(callee):
    g = generic_arg(callee, 0)
    return g is not None and g.strip() == "u8"


@model(r"^Vec::new$|^Vec::with_capacity$")
def m_vec_new(ex, a, callee, canon):
    return Bytes(z3.Empty(SEQ)) if is_u8_vec(callee) else ListV([])


@model(r"^Vec::len$")
def m_vec_len(ex, a, callee, canon):
    return ex.len_of(deref(a[0]))


@model(r"^Vec::is_empty$")
def m_vec_is_empty(ex, a, callee, canon):
    n = ex.len_of(deref(a[0]))
    return Bool(n.t == 0)


@model(r"^Vec::push$")
def m_vec_push(ex, a, callee, canon):
    p = a[0]
    v = p.get()
    if isinstance(v, Bytes):
        p.set(Bytes(seq_concat(v.s, z3.Unit(a[1].t))))
    elif isinstance(v, ListV):
        v.f.append(a[1])
    else:
        raise Unsupported(f"push on {v!r}")
    return UNIT


@model(r"^Vec::insert$")
def m_vec_insert(ex, a, callee, canon):
    p, idx, val = a
    v = p.get()
    if isinstance(v, ListV):
        n = len(v.f)
        i = ex.concretize(idx.t, range(n + 1))
        if i is None:
            raise PathPanic("Vec::insert: insertion index out of bounds")
        v.f.insert(i, val)
        return UNIT
    if isinstance(v, Bytes):
        items = ex.seq_items(v.s)
        ci = idx.concrete()
        if ci == 0:
            p.set(Bytes(seq_concat(z3.Unit(val.t), v.s)))
            return UNIT
        if items is None or ci is None:
            raise Unsupported("Vec<u8>::insert on symbolic-length bytes")
        if ci > len(items):
            raise PathPanic("Vec::insert: insertion index out of bounds")
        items.insert(ci, val.t)
        p.set(Bytes(seq_of(items)))
        return UNIT
    raise Unsupported(f"insert on {v!r}")


@model(r"^Vec::truncate$")
def m_vec_truncate(ex, a, callee, canon):
    p, n = a
    v = p.get()
    if isinstance(v, ListV):
        k = ex.concretize(n.t, range(len(v.f) + 1))
        if k is not None:
            del v.f[k:]
        return UNIT
    if isinstance(v, Bytes):
        items = ex.seq_items(v.s)
        if items is not None:
            k = ex.concretize(n.t, range(len(items) + 1))
            if k is not None:
                p.set(Bytes(seq_of(items[:k])))
            return UNIT
        # a byte string of symbolic length: the result is an opaque string (a prefix, content not tracked) of length min(len, n)
        L = ex.seq_len(v.s)
        s2 = ex.fresh("truncated", SEQ)
        if not hasattr(ex, "len_vars"):
            ex.len_vars = {}
        ex.len_vars[s2.get_id()] = z3.If(z3.ULT(n.t, L), n.t, L)
        ex.__dict__.setdefault("_keep_alive", []).append(s2)
        p.set(Bytes(s2))
        return UNIT
    raise Unsupported(f"truncate on {v!r}")


@model(r"^Vec::clear$")
def m_vec_clear(ex, a, callee, canon):
    p = a[0]
    v = p.get()
    if isinstance(v, ListV):
        v.f.clear()
    else:
        p.set(Bytes(z3.Empty(SEQ)))
    return UNIT


@model(r"^Vec::extend_from_slice$|^<Vec<u8> as Extend<u8>>::extend$|^<Vec<u8> as Extend<&u8>>::extend$|^Vec::append$")
def m_vec_extend(ex, a, callee, canon):
    p = a[0]
    v = p.get()
    if isinstance(v, Bytes):
        src = a[1]
        if isinstance(src, BytesIter):
            p.set(Bytes(seq_concat(v.s, src.s)))
            return UNIT
        if isinstance(src, IterV):
            p.set(Bytes(seq_concat(v.s, seq_of([deref(x).t for x in src.items[src.i:]]))))
            src.i = len(src.items)
            return UNIT
        p.set(Bytes(seq_concat(v.s, ex.bytes_of(src))))
        if canon.endswith("append") and isinstance(src, Ptr):
            src.set(Bytes(z3.Empty(SEQ)))
        return UNIT
    if isinstance(v, ListV):
        src = deref(a[1])
        if isinstance(src, (ListV, Arr)):
            v.f.extend(clone(x) for x in src.f)
            return UNIT
    raise Unsupported(f"extend on {v!r}")


@model(r"^<Vec<u8> as (byteorder::)?WriteBytesExt>::write_(u8|i8)$")
def m_write_u8(ex, a, callee, canon):
    p = a[0]
    p.set(Bytes(seq_concat(p.get().s, z3.Unit(a[1].t))))
    return ok()


@model(r"^<Vec<u8> as (byteorder::)?WriteBytesExt>::write_(u16|u32|u64|i16|i32|i64)$")
def m_write_int(ex, a, callee, canon):
    p = a[0]
    endian = generic_arg(callee, 0) or ""
    n = a[1].t.size() // 8
    bs = le_bytes(a[1].t, n) if "Little" in endian else be_bytes(a[1].t, n) if "Big" in endian else None
    if bs is None:
        raise Unsupported("byte order " + endian)
    p.set(Bytes(seq_concat(p.get().s, seq_of(bs))))
    return ok()


@model(r"^<Vec<u8> as (std::io::)?Write>::write$")
def m_write(ex, a, callee, canon):
    p = a[0]
    s = ex.bytes_of(a[1])
    p.set(Bytes(seq_concat(p.get().s, s)))
    return ok(Int(ex.seq_len(s), "usize"))


@model(r"^<Vec<u8> as (std::io::)?Write>::write_all$")
def m_write_all(ex, a, callee, canon):
    p = a[0]
    p.set(Bytes(seq_concat(p.get().s, ex.bytes_of(a[1]))))
    return ok()


@model(r"^(std|core|alloc)::slice::<impl \[u8\]>::to_vec$|^<\[u8\] as ToOwned>::to_owned$")
def m_to_vec(ex, a, callee, canon):
    return Bytes(ex.bytes_of(a[0]))


@model(r"^(std|core|alloc)::slice::<impl \[.*\]>::to_vec$")
def m_to_vec_t(ex, a, callee, canon):
    v = deref(a[0])
    return ListV([clone(x) for x in v.f])


@model(r"^core::slice::<impl \[u8\]>::reverse$")
def m_reverse(ex, a, callee, canon):
    p = a[0]
    v = p.get()
    if isinstance(v, Bytes):
        items = ex.seq_items(v.s)
        if items is None:
            raise Unsupported("reverse of a byte string of symbolic length")
        p.set(Bytes(seq_of(list(reversed(items)))))
        return UNIT
    if isinstance(v, (Arr, ListV)):
        v.f.reverse()
        return UNIT
    raise Unsupported(f"reverse on {v!r}")


@model(r"^core::num::<impl (u8|u16|u32|u64|i32|i64|usize)>::to_(le|be)_bytes$")
def m_to_bytes(ex, a, callee, canon):
    v = a[0]
    n = v.t.size() // 8
    bs = le_bytes(v.t, n) if canon.endswith("to_le_bytes") else be_bytes(v.t, n)
    return Arr([Int(b, "u8") for b in bs])


@model(r"^core::num::<impl (u16|u32|u64|i32|i64|usize)>::from_(le|be)_bytes$")
def m_from_bytes(ex, a, callee, canon):
    arr = deref(a[0])
    ty = re.search(r"impl (\w+)>", canon).group(1)
    items = [e.t for e in arr.f]
    if canon.endswith("from_le_bytes"):
        items = list(reversed(items))
    return Int(z3.Concat(*items) if len(items) > 1 else items[0], ty)


# ------------------------------------------------------------------ Option / Result
@model(r"^<Result<.*> as Try>::branch$|^<Option<.*> as Try>::branch$")
def m_try_branch(ex, a, callee, canon):
    r = a[0]
    if r.variant in ("Ok", "Some"):
        return Enum("ControlFlow", "Continue", 0, [r.f[0]])
    if r.variant == "Err":
        return Enum("ControlFlow", "Break", 1, [Enum("Result", "Err", 1, [r.f[0]])])
    return Enum("ControlFlow", "Break", 1, [Enum("Option", "None", 0, [])])


@model(r"^<Result<.*> as FromResidual<.*>>::from_residual$")
def m_from_residual(ex, a, callee, canon):
    return Enum("Result", "Err", 1, [Opaque("converted", a[0].f[0] if a[0].f else None)])


@model(r"^<Option<.*> as FromResidual<.*>>::from_residual$")
def m_from_residual_opt(ex, a, callee, canon):
    return NONE()


@model(r"^Option::ok_or_else$|^Option::ok_or$")
def m_ok_or_else(ex, a, callee, canon):
    o = a[0]
    if o.variant == "Some":
        return ok(o.f[0])
    # the error-constructor closure (format! + BSVErrors::X) is not executed: error payloads are outside every property
    return err("ok_or_else")


@model(r"^Option::cloned$|^Option::copied$")
def m_cloned(ex, a, callee, canon):
    o = a[0]
    if o.variant == "Some":
        return some(clone(deref(o.f[0])))
    return NONE()


@model(r"^Option::as_ref$|^Option::as_mut$")
def m_as_ref(ex, a, callee, canon):
    o = deref(a[0])
    if o.variant == "Some":
        return some(Ptr(o.f, 0))
    return NONE()


@model(r"^Option::is_some$")
def m_is_some(ex, a, callee, canon):
    return Bool(deref(a[0]).variant == "Some")


@model(r"^Option::is_none$")
def m_is_none(ex, a, callee, canon):
    return Bool(deref(a[0]).variant == "None")


@model(r"^Result::is_ok$")
def m_is_ok(ex, a, callee, canon):
    return Bool(deref(a[0]).variant == "Ok")


@model(r"^Result::is_err$")
def m_is_err(ex, a, callee, canon):
    return Bool(deref(a[0]).variant == "Err")


@model(r"^Option::unwrap$|^Result::unwrap$|^Option::expect$|^Result::expect$")
def m_unwrap(ex, a, callee, canon):
    o = a[0]
    if o.variant in ("Some", "Ok"):
        return o.f[0]
    raise PathPanic(f"called `{canon}` on a `{o.variant}` value")


@model(r"^Option::unwrap_or_default$")
def m_unwrap_or_default(ex, a, callee, canon):
    o = a[0]
    if o.variant == "Some":
        return o.f[0]
    raise Unsupported("unwrap_or_default on None")


@model(r"^Result::and_then$|^Option::and_then$")
def m_and_then(ex, a, callee, canon):
    r = a[0]
    if r.variant in ("Ok", "Some"):
        return ex.call_closure(a[1], [r.f[0]])
    return r


@model(r"^Result::or_else$|^Option::or_else$")
def m_or_else(ex, a, callee, canon):
    r = a[0]
    if r.variant in ("Ok", "Some"):
        return r
    return ex.call_closure(a[1], [r.f[0]] if r.variant == "Err" and r.f else [])


@model(r"^Result::or$|^Option::or$")
def m_or(ex, a, callee, canon):
    r = a[0]
    return r if r.variant in ("Ok", "Some") else a[1]


@model(r"^Option::map$|^Result::map$")
def m_map_opt(ex, a, callee, canon):
    r = a[0]
    if r.variant in ("Ok", "Some"):
        v = ex.call_closure(a[1], [r.f[0]])
        return Enum(r.name, r.variant, r.discr, [v])
    return r


@model(r"^Result::map_err$")
def m_map_err(ex, a, callee, canon):
    r = a[0]
    if r.variant == "Ok":
        return r
    return err("map_err")


@model(r"^Result::ok$")
def m_result_ok(ex, a, callee, canon):
    r = a[0]
    return some(r.f[0]) if r.variant == "Ok" else NONE()


@model(r"^Result::unwrap_or$|^Option::unwrap_or$")
def m_unwrap_or(ex, a, callee, canon):
    r = a[0]
    return r.f[0] if r.variant in ("Ok", "Some") else a[1]


# ------------------------------------------------------------------ ToPrimitive on fieldless enums (num_derive)
@model(r"^<.* as (num_traits::)?ToPrimitive>::to_(u8|u16|u32|u64|i8|i16|i32|i64|usize|isize)$")
def m_to_primitive(ex, a, callee, canon):
    v = deref(a[0])
    ty = canon.rsplit("to_", 1)[1]
    if isinstance(v, Enum) and v.discr is not None:
        bits = INT_BITS[ty]
        d = v.discr
        lo, hi = (-(1 << (bits - 1)), (1 << (bits - 1)) - 1) if is_signed(ty) else (0, (1 << bits) - 1)
        if lo <= d <= hi:
            return some(Int(d % (1 << bits), ty))
        return NONE()
    raise Unsupported(f"to_primitive on {v!r}")


# ------------------------------------------------------------------ iterators
class BytesIter:
    """iterator over all bytes of an opaque byte string (symbolic length); consumed as a whole"""

    def __init__(self, s):
        self.s = s


class IterV:
    """slice::Iter / IterMut / vec::IntoIter over a ListV or Arr"""

    def __init__(self, items, by_ref):
        self.items = items  # python list (shared for by_ref)
        self.i = 0
        self.by_ref = by_ref


class AdaptV:
    def __init__(self, kind, inner, clo):
        self.kind, self.inner, self.clo = kind, inner, clo
        self.n = 0


def iter_next(ex, it):
    # a crate type that implements Iterator itself (reached through by_ref / take / for): its own `next` runs from MIR
    if isinstance(it, Ptr):
        tgt = it
        while isinstance(tgt.get(), Ptr):
            tgt = tgt.get()
        v = tgt.get()
        if isinstance(v, Struct) and v.name not in ("tuple", "Range", "RangeInclusive"):
            d = ex.P.resolve(f"<{v.name} as Iterator>::next")
            if d:
                o = ex.call_fn(d, [tgt])
                return None if o.variant == "None" else o.f[0]
    it = deref(it) if isinstance(it, Ptr) else it
    if isinstance(it, AdaptV) and it.kind == "take_n":
        if it.n <= 0:
            return None
        it.n -= 1
        return iter_next(ex, it.inner)
    if isinstance(it, IterV):
        if it.i < len(it.items):
            i = it.i
            it.i += 1
            return Ptr(it.items, i) if it.by_ref else it.items[i]
        return None
    if isinstance(it, AdaptV):
        if it.kind == "map":
            x = iter_next(ex, it.inner)
            return None if x is None else ex.call_closure(it.clo, [x])
        if it.kind == "chain":
            x = iter_next(ex, it.inner)
            return x if x is not None else iter_next(ex, it.other)
        if it.kind == "zip":
            x = iter_next(ex, it.inner)
            if x is None:
                return None
            y = iter_next(ex, it.other)
            if y is None:
                return None
            return Struct("tuple", [x, y])
        if it.kind == "enumerate":
            x = iter_next(ex, it.inner)
            if x is None:
                return None
            it.n += 1
            return Struct("tuple", [Int(it.n - 1, "usize"), x])
        if it.kind in ("filter_map", "find_map"):
            while True:
                x = iter_next(ex, it.inner)
                if x is None:
                    return None
                r = ex.call_closure(it.clo, [x])
                if r.variant == "Some":
                    return r.f[0]
        if it.kind == "filter":
            while True:
                x = iter_next(ex, it.inner)
                if x is None:
                    return None
                tmp = [x]
                r = ex.call_closure(it.clo, [Ptr(tmp, 0)])
                c = r.concrete()
                if c is None:
                    c = ex.decide(r.t)
                if c:
                    return x
    if isinstance(it, Struct) and it.name == "Range":
        s, e = it.f
        if e.concrete() is None or s.concrete() is None:
            k = getattr(ex, "range_iters", {}).get(id(it), 0)
            if k >= 2:
                from .executor import PathBound
                raise PathBound("loop over a symbolic range: more than 2 iterations")
            ex.range_iters[id(it)] = k + 1
        if ex.decide(z3.ULT(s.t, e.t)):
            it.f[0] = Int(s.t + 1, s.ty)
            return s
        return None
    raise Unsupported(f"iteration over {it!r}")


@model(r"^core::slice::<impl \[.*\]>::iter(_mut)?$")
def m_slice_iter(ex, a, callee, canon):
    v = deref(a[0])
    if isinstance(v, (ListV, Arr)):
        return IterV(v.f, True)
    if isinstance(v, Bytes):
        items = ex.seq_items(v.s)
        if items is not None:
            if canon.endswith("iter_mut"):
                base_ptr = a[0]
                while isinstance(base_ptr.get(), Ptr):
                    base_ptr = base_ptr.get()
                return IterV([SeqElemPtr(base_ptr, i) for i in range(len(items))], False)
            return IterV([Int(t, "u8") for t in items], True)
        return BytesIter(v.s)      # byte string of symbolic length: only whole-string consumers (extend, collect, copied/cloned) are modelled
    raise Unsupported(f"iter over {v!r}")


@model(r"^<&(mut )?Vec<.*> as IntoIterator>::into_iter$")
def m_ref_into_iter(ex, a, callee, canon):
    v = deref(a[0])
    if isinstance(v, (ListV, Arr)):
        return IterV(v.f, True)
    raise Unsupported(f"into_iter over {v!r}")


@model(r"^<Vec<.*> as IntoIterator>::into_iter$")
def m_vec_into_iter(ex, a, callee, canon):
    v = a[0]
    if isinstance(v, ListV):
        return IterV(list(v.f), False)
    raise Unsupported(f"into_iter over {v!r}")


@model(r"^<(std::ops::)?Range<.*> as IntoIterator>::into_iter$|^<.*(Iter|IterMut|IntoIter|Map|FlatMap|Enumerate|FilterMap|Filter|Chain|Copied|Cloned|Rev|Zip|Skip|Take|ChunksExact|Chunks|Split)<.*> as IntoIterator>::into_iter$")
def m_identity_into_iter(ex, a, callee, canon):
    return a[0]


@model(r"^<.* as Iterator>::next$")
def m_iter_next(ex, a, callee, canon):
    x = iter_next(ex, a[0])
    return NONE() if x is None else some(x)


@model(r"^<.* as Iterator>::(map|flat_map|filter_map|filter)$")
def m_iter_adapt(ex, a, callee, canon):
    return AdaptV(canon.rsplit("::", 1)[1], a[0], a[1])


@model(r"^<.* as Iterator>::chain$")
def m_chain(ex, a, callee, canon):
    z = AdaptV("chain", a[0], None)
    z.other = a[1]
    return z


@model(r"^<.* as Iterator>::zip$")
def m_zip(ex, a, callee, canon):
    z = AdaptV("zip", a[0], None)
    z.other = a[1]
    return z


@model(r"^<.* as Iterator>::enumerate$")
def m_iter_enumerate(ex, a, callee, canon):
    return AdaptV("enumerate", a[0], None)


@model(r"^<.* as Iterator>::for_each$")
def m_for_each(ex, a, callee, canon):
    while True:
        x = iter_next(ex, a[0])
        if x is None:
            return UNIT
        ex.call_closure(a[1], [x])


@model(r"^<.* as Iterator>::find_map$")
def m_find_map(ex, a, callee, canon):
    while True:
        x = iter_next(ex, a[0])
        if x is None:
            return NONE()
        r = ex.call_closure(a[1], [x])
        if r.variant == "Some":
            return r


@model(r"^<.* as Iterator>::(copied|cloned)$")
def m_iter_copied(ex, a, callee, canon):
    it = a[0]
    if isinstance(it, BytesIter):
        return it
    if isinstance(it, IterV):
        return IterV([deref(x) for x in it.items[it.i:]], False)
    raise Unsupported(f"copied/cloned on {it!r}")


@model(r"^<.* as Iterator>::collect$")
def m_collect(ex, a, callee, canon):
    it = a[0]
    if isinstance(it, BytesIter):
        return Bytes(it.s)
    if isinstance(it, AdaptV) and it.kind == "chain":
        def whole(x):
            if isinstance(x, BytesIter):
                return x.s
            if isinstance(x, IterV):
                r = seq_of([deref(e).t for e in x.items[x.i:]])
                x.i = len(x.items)
                return r
            if isinstance(x, AdaptV) and x.kind == "chain":
                return seq_concat(whole(x.inner), whole(x.other))
            return None
        parts = [whole(it.inner), whole(it.other)]
        if all(p_ is not None for p_ in parts):
            return Bytes(seq_concat(*parts))
    target = generic_arg(callee, len(re.findall(r"::<", callee)) - 1) or ""
    target = target.replace("std::vec::", "").replace(" ", "")
    flat = isinstance(it, AdaptV) and it.kind == "flat_map"
    if flat:
        parts = []
        while True:
            x = iter_next(ex, it.inner)
            if x is None:
                break
            r = ex.call_closure(it.clo, [x])
            parts.append(r)
        if target == "Vec<u8>":
            return Bytes(seq_concat(*[ex.bytes_of(p) for p in parts]) if parts else z3.Empty(SEQ))
        out = []
        for p in parts:
            out.extend(deref(p).f)
        return ListV(out)
    items = []
    while True:
        x = iter_next(ex, it)
        if x is None:
            break
        items.append(x)
    if target == "Vec<u8>":
        return Bytes(seq_of([i.t for i in items]))
    if target.startswith("Vec<"):
        return ListV(items)
    if target.startswith("Result<Vec<") or target.startswith("Option<Vec<"):
        # short-circuiting collect: the first Err / None is the result
        good = "Ok" if target.startswith("Result") else "Some"
        out = []
        for x in items:
            x = deref(x) if isinstance(x, Ptr) else x
            if x.variant != good:
                return x
            out.append(x.f[0])
        inner = target[len("Result<"):] if good == "Ok" else target[len("Option<"):]
        payload = Bytes(seq_of([i.t for i in out])) if inner.startswith("Vec<u8>") else ListV(out)
        return Enum("Result" if good == "Ok" else "Option", good, 0 if good == "Ok" else 1, [payload])
    raise Unsupported("collect into " + target)


@model(r"^<.* as Iterator>::sum$")
def m_sum(ex, a, callee, canon):
    ty = (generic_arg(callee, len(re.findall(r"::<", callee)) - 1) or "u64").strip()
    acc = Int(0, ty)
    while True:
        x = iter_next(ex, a[0])
        if x is None:
            return acc
        x = deref(x)
        # core's Sum for integers inherits the caller crate's overflow checks (dev/test profile: panic)
        if not ex.decide(z3.BVAddNoOverflow(acc.t, x.t, is_signed(ty))):
            raise PathPanic("attempt to add with overflow (Iterator::sum)")
        acc = Int(acc.t + x.t, ty)


@model(r"^<.* as Iterator>::reduce$")
def m_reduce(ex, a, callee, canon):
    first = iter_next(ex, a[0])
    if first is None:
        return NONE()
    acc = first
    while True:
        x = iter_next(ex, a[0])
        if x is None:
            return some(acc)
        acc = ex.call_closure(a[1], [acc, x])


@model(r"^<.* as (FnOnce|FnMut|Fn)<.*>>::call(_once|_mut)?$")
def m_call_closure(ex, a, callee, canon):
    args = a[1]
    if isinstance(args, Struct) and args.name == "tuple":
        lst = list(args.f)
    elif args is UNIT or isinstance(args, Unit):
        lst = []
    else:
        lst = [args]
    return ex.call_closure(a[0], lst)


# ------------------------------------------------------------------ indexing
@model(r"^<Vec<.*> as (std::ops::)?Index(Mut)?<usize>>::index(_mut)?$|^<\[.*\] as (std::ops::)?Index(Mut)?<usize>>::index(_mut)?$")
def m_index(ex, a, callee, canon):
    p, idx = a
    v = deref(p)
    base_ptr = p
    while isinstance(base_ptr.get(), Ptr):
        base_ptr = base_ptr.get()
    if isinstance(v, (ListV, Arr)):
        i = ex.concretize(idx.t, range(len(v.f)))
        if i is None:
            raise PathPanic("index out of bounds")
        return Ptr(v.f, i)
    if isinstance(v, Bytes):
        n = ex.seq_len(v.s)
        if not ex.decide(z3.ULT(idx.t, n)):
            raise PathPanic("index out of bounds")
        return SeqElemPtr(base_ptr, idx.t)
    raise Unsupported(f"index on {v!r}")


@model(r"^core::slice::<impl \[.*\]>::get$|^core::slice::<impl \[.*\]>::get_mut$")
def m_slice_get(ex, a, callee, canon):
    v = deref(a[0])
    idx = a[1]
    if isinstance(v, (ListV, Arr)):
        if not isinstance(idx, Int):
            raise Unsupported("slice::get with a range")
        if not ex.decide(z3.ULT(idx.t, z3.BitVecVal(len(v.f), 64))):
            return NONE()
        i = ex.concretize(idx.t, range(len(v.f)))
        return some(Ptr(v.f, i))
    if isinstance(v, Bytes) and isinstance(idx, Int):
        items = ex.seq_items(v.s)
        if items is None:
            raise Unsupported("slice::get on a byte string of symbolic length")
        if not ex.decide(z3.ULT(idx.t, z3.BitVecVal(len(items), idx.t.size()))):
            return NONE()
        i = ex.concretize(idx.t, range(len(items)))
        return some(Ptr([Int(items[i], "u8")], 0))
    raise Unsupported(f"slice::get on {v!r}")


@model(r"^core::slice::<impl \[.*\]>::len$")
def m_slice_len(ex, a, callee, canon):
    return ex.len_of(deref(a[0]))


@model(r"^core::slice::<impl \[.*\]>::last$")
def m_slice_last(ex, a, callee, canon):
    v = deref(a[0])
    if isinstance(v, (ListV, Arr)):
        return some(Ptr(v.f, len(v.f) - 1)) if v.f else NONE()
    if isinstance(v, Bytes):
        s = v.s
        units = seq_units(s)
        if units is not None:
            return some(Ptr([Int(units[-1], "u8")], 0)) if units else NONE()
        k = s.decl().kind()
        if k == z3.Z3_OP_SEQ_EMPTY:
            return NONE()
        if k == z3.Z3_OP_SEQ_UNIT:
            return some(Ptr([Int(s.arg(0), "u8")], 0))
        if k == z3.Z3_OP_SEQ_CONCAT and s.arg(s.num_args() - 1).decl().kind() == z3.Z3_OP_SEQ_UNIT:
            return some(Ptr([Int(s.arg(s.num_args() - 1).arg(0), "u8")], 0))
        if k == z3.Z3_OP_UNINTERPRETED:
            # opaque byte string: empty or (INIT(s) ++ [LAST(s)]) with uninterpreted LAST/INIT
            if ex.decide(ex.seq_len(s) == 0):
                return NONE()
            return some(Ptr([Int(uf("SEQ_LAST", SEQ, z3.BitVecSort(8))(s), "u8")], 0))
    raise Unsupported(f"last on {v!r}")


# ------------------------------------------------------------------ Box<[T; N]> -> Vec<T>  (vec![a, b] lowering)
@model(r"^Box::new_uninit$")
def m_box_new_uninit(ex, a, callee, canon):
    cell = Transparent()
    raw = Ptr([cell], 0)
    return Struct("Box", [Struct("Unique", [Struct("NonNull", [raw])])])


@model(r"box_assume_init_into_vec_unsafe$")
def m_box_into_vec(ex, a, callee, canon):
    b = a[0]
    raw = b.f[0].f[0].f[0]
    cell = raw.get()
    arr = cell.f[0]
    if not isinstance(arr, Arr):
        raise Unsupported(f"box_assume_init_into_vec on {arr!r}")
    if arr.f and isinstance(arr.f[0], Int) and arr.f[0].ty == "u8":
        return Bytes(seq_of([e.t for e in arr.f]))
    return ListV(arr.f)


@model(r"^(std::vec::|alloc::vec::)?from_elem$")
def m_from_elem(ex, a, callee, canon):
    v, n = a
    cn = n.concrete()
    if cn is None:
        raise Unsupported("vec![x; n] with symbolic n")
    if isinstance(v, Int) and v.ty == "u8":
        return Bytes(seq_of([v.t] * cn))
    return ListV([clone(v) for _ in range(cn)])


# ------------------------------------------------------------------ comparisons
def val_eq(ex, x, y):
    """structural equality as a z3 Bool"""
    x, y = deref(x), deref(y)
    if isinstance(x, Int) and isinstance(y, Int):
        return x.t == y.t
    if isinstance(x, Bool) and isinstance(y, Bool):
        return x.t == y.t
    if isinstance(x, (Bytes, Arr)) and isinstance(y, (Bytes, Arr)) and (isinstance(x, Bytes) or isinstance(y, Bytes) or (x.f and isinstance(x.f[0], Int))):
        sx, sy = ex.bytes_of(x), ex.bytes_of(y)
        ix, iy = seq_units(sx), seq_units(sy)
        if ix is not None and iy is not None:
            if len(ix) != len(iy):
                return z3.BoolVal(False)
            return z3.And(*[p == q for p, q in zip(ix, iy)]) if ix else z3.BoolVal(True)
        return sx == sy
    if isinstance(x, Enum) and isinstance(y, Enum):
        if x.variant != y.variant:
            return z3.BoolVal(False)
        return z3.And(*[val_eq(ex, p, q) for p, q in zip(x.f, y.f)]) if x.f else z3.BoolVal(True)
    if isinstance(x, Struct) and isinstance(y, Struct):
        return z3.And(*[val_eq(ex, p, q) for p, q in zip(x.f, y.f)]) if x.f else z3.BoolVal(True)
    if isinstance(x, (ListV, Arr)) and isinstance(y, (ListV, Arr)):
        if len(x.f) != len(y.f):
            return z3.BoolVal(False)
        return z3.And(*[val_eq(ex, p, q) for p, q in zip(x.f, y.f)]) if x.f else z3.BoolVal(True)
    if isinstance(x, Unit) and isinstance(y, Unit):
        return z3.BoolVal(True)
    if isinstance(x, Opaque) and isinstance(y, Opaque) and x.tag == y.tag and isinstance(x.payload, Bytes) and isinstance(y.payload, Bytes):
        return x.payload.s == y.payload.s   # injective constructors (Base58 strings)
    raise Unsupported(f"equality of {x!r} and {y!r}")


@model(r"^<.* as PartialEq(<.*>)?>::(eq|ne)$")
def m_partial_eq(ex, a, callee, canon):
    e = val_eq(ex, a[0], a[1])
    return Bool(e if canon.endswith("::eq") else z3.Not(e))


def option_cmp_lt(ex, x, y, strict_or_eq):
    """derived PartialOrd on Option<u64>: None < Some(_)"""
    raise Unsupported("Option ordering")


@model(r"^<Option<u64> as PartialOrd>::(lt|le|gt|ge)$")
def m_option_u64_cmp(ex, a, callee, canon):
    x, y = deref(a[0]), deref(a[1])
    op = canon.rsplit("::", 1)[1]

    def key(o):
        return (0, None) if o.variant == "None" else (1, o.f[0].t)
    (kx, vx), (ky, vy) = key(x), key(y)
    if kx != ky:
        lt = kx < ky
        return Bool({"lt": lt, "le": lt, "gt": not lt, "ge": not lt}[op])
    if kx == 0:
        return Bool(op in ("le", "ge"))
    return Bool({"lt": z3.ULT(vx, vy), "le": z3.ULE(vx, vy), "gt": z3.UGT(vx, vy), "ge": z3.UGE(vx, vy)}[op])


@model(r"^<.* as PartialOrd>::(lt|le|gt|ge)$")
def m_partial_ord_provided(ex, a, callee, canon):
    """provided methods of PartialOrd: call the type's own partial_cmp (derived MIR in the crate)"""
    op = canon.rsplit("::", 1)[1]
    ty = re.match(r"^<(.*) as PartialOrd>", canon).group(1)
    d = ex.P.resolve(f"<{ty} as PartialOrd>::partial_cmp")
    if d is None:
        x, y = deref(a[0]), deref(a[1])
        if isinstance(x, Int) and isinstance(y, Int):
            sg = is_signed(x.ty)
            t = {"lt": (x.t < y.t) if sg else z3.ULT(x.t, y.t), "le": (x.t <= y.t) if sg else z3.ULE(x.t, y.t),
                 "gt": (x.t > y.t) if sg else z3.UGT(x.t, y.t), "ge": (x.t >= y.t) if sg else z3.UGE(x.t, y.t)}[op]
            return Bool(t)
        raise Unsupported("PartialOrd for " + ty)
    r = ex.call_fn(d, [a[0], a[1]])
    if r.variant != "Some":
        return Bool(False)
    o = r.f[0].variant
    return Bool({"lt": o == "Less", "le": o in ("Less", "Equal"), "gt": o == "Greater", "ge": o in ("Greater", "Equal")}[op])


@model(r"^<(isize|usize|u8|u16|u32|u64|i8|i16|i32|i64) as PartialOrd>::partial_cmp$|^<(isize|usize|u8|u16|u32|u64|i8|i16|i32|i64) as Ord>::cmp$")
def m_int_partial_cmp(ex, a, callee, canon):
    x, y = deref(a[0]), deref(a[1])
    sg = is_signed(x.ty)
    if ex.decide((x.t < y.t) if sg else z3.ULT(x.t, y.t)):
        o = Enum("Ordering", "Less", -1)
    elif ex.decide(x.t == y.t):
        o = Enum("Ordering", "Equal", 0)
    else:
        o = Enum("Ordering", "Greater", 1)
    return some(o) if canon.endswith("partial_cmp") else o


@model(r"discriminant_value$")
def m_discriminant_value(ex, a, callee, canon):
    v = deref(a[0])
    if isinstance(v, Enum) and v.discr is not None:
        return Int(v.discr % (1 << 64), "isize")
    raise Unsupported(f"discriminant_value of {v!r}")


# ------------------------------------------------------------------ panics
@model(r"^(core|std)::panicking::|^core::panic|^std::rt::panic|begin_panic|panic_fmt|unwrap_failed|expect_failed|panic_bounds_check|slice_(start|end)_index_len_fail|slice_index_order_fail")
def m_panic(ex, a, callee, canon):
    raise PathPanic("explicit panic: " + canon)


# ------------------------------------------------------------------ ECDSA signing inside Transaction::sign*: opaque (EC arithmetic is outside E2)
@model(r"ECDSA>?::sign_with_deterministic_k_impl$|ECDSA>?::sign_with_k_impl$")
def m_ecdsa_sign(ex, a, callee, canon):
    return ok(Opaque("Signature"))


# ------------------------------------------------------------------ slices with ranges, fixed-size conversions
def range_bounds(ex, r, n):
    """Range-like struct -> (lo, hi) concrete ints for a container of concrete length n"""
    r = deref(r)
    if isinstance(r, Struct) and r.name == "Range":
        lo, hi = r.f[0].concrete(), r.f[1].concrete()
    elif isinstance(r, Struct) and r.name == "RangeFrom":
        lo, hi = r.f[0].concrete(), n
    elif isinstance(r, Struct) and r.name == "RangeTo":
        lo, hi = 0, r.f[0].concrete()
    elif isinstance(r, Struct) and r.name == "RangeFull":
        lo, hi = 0, n
    else:
        raise Unsupported(f"range {r!r}")
    if lo is None or hi is None:
        raise Unsupported("symbolic slice bounds")
    return lo, hi


@model(r"^<\[u8\] as Index(Mut)?<Range(From|To|Full)?(<usize>)?>>::index(_mut)?$|^<Vec<u8> as Index(Mut)?<Range(From|To|Full)?(<usize>)?>>::index(_mut)?$|^core::slice::index::<impl Index<Range(From|To)?<usize>> for \[u8\]>::index$|^<\[u8; \d+\] as Index(Mut)?<Range(From|To|Full)?(<usize>)?>>::index(_mut)?$")
def m_index_range(ex, a, callee, canon):
    v = deref(a[0])
    s = ex.bytes_of(v)
    items = ex.seq_items(s)
    if items is None:
        # symbolic length: only `[..len-1]` / `[0..len-1]` of a string that ends in a single byte (strip the last byte)
        r = deref(a[1])
        if isinstance(r, Struct) and r.name in ("Range", "RangeTo") and z3.is_app(s) and s.decl().kind() == z3.Z3_OP_SEQ_CONCAT:
            lo_ok = r.name == "RangeTo" or r.f[0].concrete() == 0
            hi = r.f[-1]
            lastp = s.arg(s.num_args() - 1)
            if lo_ok and lastp.decl().kind() == z3.Z3_OP_SEQ_UNIT:
                prefix = seq_concat(*[s.arg(i) for i in range(s.num_args() - 1)])
                if z3.is_true(z3.simplify(hi.t == ex.seq_len(prefix))) or z3.is_true(z3.simplify(hi.t == ex.seq_len(s) - 1)):
                    return Ptr([Bytes(prefix)], 0)
        if isinstance(r, Struct) and r.name in ("Range", "RangeTo") and z3.is_app(s) and s.decl().kind() == z3.Z3_OP_UNINTERPRETED:
            lo_ok = r.name == "RangeTo" or r.f[0].concrete() == 0
            hi = r.f[-1]
            if lo_ok and z3.is_true(z3.simplify(hi.t == ex.seq_len(s) - 1)):
                if not ex.decide(z3.UGE(ex.seq_len(s), 1)):
                    raise PathPanic("range end index out of range (len - 1 underflow)")
                init = uf("SEQ_INIT", SEQ, SEQ)(s)
                if not hasattr(ex, "len_vars"):
                    ex.len_vars = {}
                ex.len_vars[init.get_id()] = ex.seq_len(s) - 1
                ex.__dict__.setdefault("_keep_alive", []).append(init)   # ids key the table: the term must stay alive
                return Ptr([Bytes(init)], 0)
        raise Unsupported("range-slicing a byte string of symbolic length")
    lo, hi = range_bounds(ex, a[1], len(items))
    if lo > hi:
        raise PathPanic(f"slice index starts at {lo} but ends at {hi}")
    if hi > len(items):
        raise PathPanic(f"range end index {hi} out of range for slice of length {len(items)}")
    return Ptr([Arr([Int(t, "u8") for t in items[lo:hi]])], 0)


@model(r"^GenericArray::from_slice$|^GenericArray::clone_from_slice$")
def m_ga_from_slice(ex, a, callee, canon):
    v = deref(a[0])
    items = ex.seq_items(ex.bytes_of(v))
    if items is None:
        raise Unsupported("GenericArray::from_slice on symbolic-length bytes")
    want = getattr(ex, "ga_len", {}).get(id(ex), None)
    arr = Arr([Int(t, "u8") for t in items])
    return Ptr([arr], 0) if canon.endswith("from_slice") else arr


@model(r"^<GenericArray<.*> as Deref(Mut)?>::deref(_mut)?$|^<GenericArray<.*> as AsRef<\[u8\]>>::as_ref$|^GenericArray::as_slice$")
def m_ga_deref(ex, a, callee, canon):
    return a[0]


@model(r"^<(&\[u8\]|&Vec<u8>|&\[u8; \d+\]) as TryInto<\[u8; (\d+)\]>>::try_into$|^<\[u8; (\d+)\] as TryFrom<&\[u8\]>>::try_from$")
def m_try_into_array(ex, a, callee, canon):
    n = int(re.search(r"\[u8; (\d+)\]", canon.split(" as ")[1] if "TryInto" in canon else canon).group(1))
    s = ex.bytes_of(a[0])
    items = ex.seq_items(s)
    if items is None:
        # symbolic length: Ok iff length == n; on Ok the array elements are fresh bytes tied to the source by equality
        L = ex.seq_len(s)
        if ex.decide(L == z3.BitVecVal(n, 64)):
            raise Unsupported("try_into::<[u8;N]> on symbolic-length bytes (accepted branch)")
        return err("TryFromSliceError")
    if len(items) != n:
        return err("TryFromSliceError")
    return ok(Arr([Int(t, "u8") for t in items]))


@model(r"^Option::or_else$")
def m_or_else(ex, a, callee, canon):
    o = a[0]
    if o.variant == "Some":
        return o
    return ex.call_closure(a[1], [])


@model(r"^Option::unwrap_or_default$|^Result::unwrap_or_default$")
def m_unwrap_or_default2(ex, a, callee, canon):
    o = a[0]
    if o.variant in ("Some", "Ok"):
        return o.f[0]
    ty = generic_arg(callee, 0) or ""
    if re.match(r"(std::vec::)?Vec<", ty.strip()):
        return Bytes(z3.Empty(SEQ)) if ty.replace(" ", "").endswith("Vec<u8>") else ListV([])
    d = ex.P.resolve(f"<{ty} as Default>::default")
    if d is None:
        raise Unsupported("Default for " + ty)
    return ex.call_fn(d, [])


MODELS.sort(key=lambda m: 0 if m[1].__name__ in ("m_unwrap_or_default2",) else 1)


# ------------------------------------------------------------------ k256 / ecdsa: opaque scalars and signatures (EC arithmetic is outside E2)
@model(r"^ecdsa::Signature::from_scalars$")
def m_sig_from_scalars(ex, a, callee, canon):
    r, s = deref(a[0]), deref(a[1])
    valid = uf("VALID_RS", z3.BitVecSort(256), z3.BitVecSort(256), z3.BoolSort())
    rt = z3.Concat(*[e.t for e in r.f])
    st = z3.Concat(*[e.t for e in s.f])
    if ex.decide(valid(rt, st)):
        return ok(Struct("SecpSignature", [clone(r), clone(s)]))
    return err("ecdsa::Error")


@model(r"^ecdsa::Signature::(r|s)$")
def m_sig_rs(ex, a, callee, canon):
    sig = deref(a[0])
    return Struct("NonZeroScalar", [Struct("Scalar", [clone(sig.f[0 if canon.endswith("::r") else 1])])])


@model(r"^<NonZeroScalar<.*> as Deref>::deref$")
def m_nzs_deref(ex, a, callee, canon):
    v = deref(a[0])
    return Ptr(v.f, 0)


@model(r"^k256::Scalar::to_bytes$|^<k256::Scalar as PrimeField>::to_repr$")
def m_scalar_to_bytes(ex, a, callee, canon):
    return clone(deref(a[0]).f[0])


# ------------------------------------------------------------------ Base58: injective constructor (decode inverts encode); alphabet arithmetic is outside
class B58:
    pass


@model(r"^bs58::encode$")
def m_bs58_encode(ex, a, callee, canon):
    return Opaque("b58builder", Bytes(ex.bytes_of(a[0])))


@model(r"^bs58::encode::EncodeBuilder<.*>::into_string$|EncodeBuilder::into_string$")
def m_bs58_into_string(ex, a, callee, canon):
    return Opaque("b58string", a[0].payload)


# ------------------------------------------------------------------ recording opaque crypto entry points (who is called with what)
def record(ex, name, args):
    if not hasattr(ex, "recorded"):
        ex.recorded = []
    ex.recorded.append((name, args))


def _sign_model(ex, a, callee, canon):
    record(ex, canon.rsplit("::", 1)[1], a)
    return ok(Opaque("Signature"))


for _i, (_rx, _fn) in enumerate(MODELS):
    if _fn.__name__ == "m_ecdsa_sign":
        MODELS[_i] = (_rx, _sign_model)


@model(r"(^|::)Signature::get_public_key$")
def m_sig_get_public_key(ex, a, callee, canon):
    record(ex, "get_public_key", a)
    okp = uf("RECOVER_OK", SEQ, z3.BoolSort())
    msg = ex.bytes_of(a[1])
    if not ex.decide(okp(msg)):
        return err("recover")
    point = [z3.BitVec(f"recovered_point_{i}", 8) for i in range(33)]
    return ok(Struct("PublicKey", [Bytes(seq_of(point)), Bool(True)]))


@model(r"ECDSA>?::verify_digest_impl$")
def m_verify_digest(ex, a, callee, canon):
    record(ex, "verify_digest_impl", a)
    if ex.decide(z3.Bool("VERIFY_OK")):
        return ok(Bool(True))
    return err("verify")


@model(r"(^|::)Script::from_asm_string$")
def m_from_asm_string(ex, a, callee, canon):
    return ok(Struct("Script", [Bytes(z3.Const("asm_script", SEQ))]))


@model(r"^hex::encode$|(^|::)Signature::to_der_hex$|(^|::)SighashSignature::to_hex_impl$|(^|::)PublicKey::to_hex_impl$|(^|::)P2PKHAddress::to_pubkey_hash_hex$")
def m_hexish(ex, a, callee, canon):
    if canon.endswith("to_hex_impl"):
        return ok(Opaque("hex"))
    return Opaque("hex")


@model(r"^<String as Deref(Mut)?>::deref(_mut)?$|^String::as_str$|^<String as AsRef<str>>::as_ref$")
def m_string_deref(ex, a, callee, canon):
    return a[0]


# ------------------------------------------------------------------ DER (k256/ecdsa): opaque parser with an uninterpreted validity predicate
@model(r"^ecdsa::Signature::from_der$")
def m_sig_from_der(ex, a, callee, canon):
    seq = ex.bytes_of(a[0])
    if ex.decide(uf("DER_VALID", SEQ, z3.BoolSort())(seq)):
        return ok(Struct("SecpSignatureDER", [Bytes(seq)]))
    return err("ecdsa::Error")


@model(r"^ecdsa::Signature::to_der$")
def m_sig_to_der(ex, a, callee, canon):
    sig = deref(a[0])
    if isinstance(sig, Struct) and sig.name == "SecpSignatureDER":
        return Struct("DerSignature", [Bytes(sig.f[0].s)])
    if isinstance(sig, Struct) and sig.name == "SecpSignature":
        rt = z3.Concat(*[e.t for e in sig.f[0].f])
        st = z3.Concat(*[e.t for e in sig.f[1].f])
        return Struct("DerSignature", [Bytes(uf("DER_ENCODE", z3.BitVecSort(256), z3.BitVecSort(256), SEQ)(rt, st))])
    return Struct("DerSignature", [Bytes(z3.Const("der_of_opaque_signature", SEQ))])


@model(r"^ecdsa::der::Signature::as_bytes$|^<ecdsa::der::Signature<.*> as AsRef<\[u8\]>>::as_ref$")
def m_der_as_bytes(ex, a, callee, canon):
    return Ptr(deref(a[0]).f, 0)


@model(r"^<(\w+::)*SigHash as (num_traits::)?FromPrimitive>::from_(u8|u32|u64|i32|i64)$")
def m_sighash_from_primitive(ex, a, callee, canon):
    v = a[0]
    for name, d in ex.P.enums["SigHash"].items():
        if d < 0 or d >= (1 << v.t.size()):
            continue
        if ex.decide(v.t == z3.BitVecVal(d, v.t.size())):
            return some(Enum("SigHash", name, d))
    return NONE()


@model(r"^<u8 as TryInto<(\w+::)*SigHash>>::try_into$")
def m_u8_try_into_sighash(ex, a, callee, canon):
    d = ex.P.resolve("<SigHash as TryFrom<u8>>::try_from")
    if d is None:
        raise Unsupported("TryFrom<u8> for SigHash not found")
    return ex.call_fn(d, a)


@model(r"^core::num::<impl (u8|u16|u32|u64|usize)>::saturating_sub$")
def m_saturating_sub(ex, a, callee, canon):
    x, y = a
    return Int(z3.If(z3.ULT(x.t, y.t), z3.BitVecVal(0, x.t.size()), x.t - y.t), x.ty)


@model(r"^<.* as Iterator>::any$")
def m_iter_any(ex, a, callee, canon):
    while True:
        x = iter_next(ex, a[0])
        if x is None:
            return Bool(False)
        r = ex.call_closure(a[1], [x])
        c = r.concrete()
        if c is None:
            c = ex.decide(r.t)
        if c:
            return Bool(True)


@model(r"^<.* as Iterator>::all$")
def m_iter_all(ex, a, callee, canon):
    while True:
        x = iter_next(ex, a[0])
        if x is None:
            return Bool(True)
        r = ex.call_closure(a[1], [x])
        c = r.concrete()
        if c is None:
            c = ex.decide(r.t)
        if not c:
            return Bool(False)


@model(r"^<&?u8 as (BitAnd|BitOr|BitXor)<&?u8>>::(bitand|bitor|bitxor)$")
def m_u8_bitop(ex, a, callee, canon):
    x, y = deref(a[0]), deref(a[1])
    op = canon.rsplit("::", 1)[1]
    return Int({"bitand": x.t & y.t, "bitor": x.t | y.t, "bitxor": x.t ^ y.t}[op], "u8")


# ------------------------------------------------------------------ more Option / slice / iterator helpers (often used by small refactors)
def _truth(ex, r):
    c = r.concrete()
    return ex.decide(r.t) if c is None else c


@model(r"^Option::filter$")
def m_option_filter(ex, a, callee, canon):
    o = a[0]
    if o.variant != "Some":
        return o
    tmp = [o.f[0]]
    return o if _truth(ex, ex.call_closure(a[1], [Ptr(tmp, 0)])) else NONE()


@model(r"^Option::is_some_and$|^Result::is_ok_and$")
def m_is_some_and(ex, a, callee, canon):
    o = a[0]
    if o.variant not in ("Some", "Ok"):
        return Bool(False)
    return Bool(_truth(ex, ex.call_closure(a[1], [o.f[0]])))


@model(r"^Option::map_or$")
def m_map_or(ex, a, callee, canon):
    o = a[0]
    return ex.call_closure(a[2], [o.f[0]]) if o.variant == "Some" else a[1]


@model(r"^Option::map_or_else$")
def m_map_or_else(ex, a, callee, canon):
    o = a[0]
    return ex.call_closure(a[2], [o.f[0]]) if o.variant == "Some" else ex.call_closure(a[1], [])


@model(r"^Option::unwrap_or_else$|^Result::unwrap_or_else$")
def m_unwrap_or_else(ex, a, callee, canon):
    o = a[0]
    if o.variant in ("Some", "Ok"):
        return o.f[0]
    return ex.call_closure(a[1], [] if o.variant == "None" else [o.f[0]])


@model(r"^Option::and$")
def m_option_and(ex, a, callee, canon):
    return a[1] if a[0].variant == "Some" else a[0]


@model(r"^Option::or$")
def m_option_or(ex, a, callee, canon):
    return a[0] if a[0].variant == "Some" else a[1]


@model(r"^Option::take$")
def m_option_take(ex, a, callee, canon):
    p = a[0]
    v = p.get()
    p.set(NONE())
    return v


@model(r"^core::slice::<impl \[.*\]>::is_empty$")
def m_slice_is_empty(ex, a, callee, canon):
    n = ex.len_of(deref(a[0]))
    return Bool(n.t == 0)


@model(r"^core::slice::<impl \[.*\]>::first$")
def m_slice_first(ex, a, callee, canon):
    v = deref(a[0])
    if isinstance(v, (ListV, Arr)):
        return some(Ptr(v.f, 0)) if v.f else NONE()
    if isinstance(v, Bytes):
        items = ex.seq_items(v.s)
        if items is not None:
            return some(Ptr([Int(items[0], "u8")], 0)) if items else NONE()
    raise Unsupported(f"first on {v!r}")


@model(r"^<.* as Iterator>::count$")
def m_iter_count(ex, a, callee, canon):
    n = 0
    while iter_next(ex, a[0]) is not None:
        n += 1
    return Int(n, "usize")


@model(r"^<.* as Iterator>::last$")
def m_iter_last(ex, a, callee, canon):
    last = None
    while True:
        x = iter_next(ex, a[0])
        if x is None:
            return NONE() if last is None else some(last)
        last = x


@model(r"^<.* as Iterator>::position$")
def m_iter_position(ex, a, callee, canon):
    i = 0
    while True:
        x = iter_next(ex, a[0])
        if x is None:
            return NONE()
        if _truth(ex, ex.call_closure(a[1], [x])):
            return some(Int(i, "usize"))
        i += 1


@model(r"^<.* as Iterator>::find$")
def m_iter_find(ex, a, callee, canon):
    while True:
        x = iter_next(ex, a[0])
        if x is None:
            return NONE()
        tmp = [x]
        if _truth(ex, ex.call_closure(a[1], [Ptr(tmp, 0)])):
            return some(x)


@model(r"^<.* as Iterator>::fold$")
def m_iter_fold(ex, a, callee, canon):
    acc = a[1]
    while True:
        x = iter_next(ex, a[0])
        if x is None:
            return acc
        acc = ex.call_closure(a[2], [acc, x])


@model(r"^<.* as Iterator>::(rev|skip|take|cloned|copied)$")
def m_iter_simple_adapters(ex, a, callee, canon):
    kind = canon.rsplit("::", 1)[1]
    it = a[0]
    if isinstance(it, IterV):
        rest = it.items[it.i:]
        if kind == "rev":
            return IterV(list(reversed(rest)), it.by_ref)
        if kind in ("skip", "take"):
            n = a[1].concrete()
            if n is None:
                raise Unsupported(f"{kind} with a symbolic count")
            return IterV(rest[n:] if kind == "skip" else rest[:n], it.by_ref)
        if kind in ("cloned", "copied"):
            return IterV([clone(deref(x)) for x in rest], False)
    if kind == "take":
        n = a[1].concrete()
        if n is None:
            raise Unsupported("take with a symbolic count")
        ad = AdaptV("take_n", it, None)
        ad.n = n
        return ad
    raise Unsupported(f"{kind} over {it!r}")


@model(r"^<.* as Iterator>::by_ref$")
def m_iter_by_ref(ex, a, callee, canon):
    return a[0]


@model(r"^Vec::retain$")
def m_vec_retain(ex, a, callee, canon):
    p = a[0]
    v = p.get()
    if not isinstance(v, ListV):
        raise Unsupported("retain on non-list")
    keep = []
    for i in range(len(v.f)):
        if _truth(ex, ex.call_closure(a[1], [Ptr(v.f, i)])):
            keep.append(v.f[i])
    v.f[:] = keep
    return UNIT


@model(r"^<(bool|u8|u16|u32|u64|usize|i8|i16|i32|i64|isize) as Default>::default$")
def m_prim_default(ex, a, callee, canon):
    ty = re.match(r"^<(\w+) as", canon).group(1)
    return Bool(False) if ty == "bool" else Int(0, ty)


@model(r"^<Vec<.*> as Default>::default$|^<Option<.*> as Default>::default$")
def m_container_default(ex, a, callee, canon):
    if canon.startswith("<Option"):
        return NONE()
    return Bytes(z3.Empty(SEQ)) if canon.replace(" ", "").startswith("<Vec<u8>") else ListV([])


@model(r"^<(u8|u16|u32|u64|usize|i8|i16|i32|i64|isize) as Ord>::(min|max)$|^core::cmp::(min|max)$|^std::cmp::(min|max)$")
def m_int_minmax(ex, a, callee, canon):
    x, y = deref(a[0]), deref(a[1])
    sg = is_signed(x.ty)
    lt = (x.t < y.t) if sg else z3.ULT(x.t, y.t)
    if canon.endswith("min"):
        return Int(z3.If(lt, x.t, y.t), x.ty)
    return Int(z3.If(lt, y.t, x.t), x.ty)



@model(r"^core::slice::<impl \[u8\]>::split_last$")
def m_split_last(ex, a, callee, canon):
    """(&last, &rest): structural when the byte string ends in a single byte"""
    s = ex.bytes_of(a[0])
    items = ex.seq_items(s)
    if items is not None:
        if not items:
            return NONE()
        return some(Struct("tuple", [Ptr([Int(items[-1], "u8")], 0), Ptr([Bytes(seq_of(items[:-1]))], 0)]))
    t = z3.simplify(s)
    parts = []

    def walk(x):
        if z3.is_app(x) and x.decl().kind() == z3.Z3_OP_SEQ_CONCAT:
            for i in range(x.num_args()):
                walk(x.arg(i))
        else:
            parts.append(x)
    walk(t)
    if parts and z3.is_app(parts[-1]) and parts[-1].decl().kind() == z3.Z3_OP_SEQ_UNIT:
        return some(Struct("tuple", [Ptr([Int(parts[-1].arg(0), "u8")], 0), Ptr([Bytes(seq_concat(*parts[:-1]))], 0)]))
    raise Unsupported("split_last on an opaque byte string")


# ------------------------------------------------------------------ checked integer arithmetic / shifts
@model(r"^core::num::<impl (u8|u16|u32|u64|usize)>::checked_(add|sub)$")
def m_checked_addsub(ex, a, callee, canon):
    x, y = a
    n = x.t.size()
    if canon.endswith("checked_add"):
        wide = z3.ZeroExt(1, x.t) + z3.ZeroExt(1, y.t)
        if ex.decide(z3.Extract(n, n, wide) == 1):
            return NONE()
        return some(Int(z3.simplify(x.t + y.t), x.ty))
    if ex.decide(z3.ULT(x.t, y.t)):
        return NONE()
    return some(Int(z3.simplify(x.t - y.t), x.ty))


@model(r"^core::num::<impl (u8|u16|u32|u64|usize)>::checked_(shl|shr)$")
def m_checked_shift(ex, a, callee, canon):
    x, r = a
    n = x.t.size()
    if not ex.decide(z3.ULT(r.t, z3.BitVecVal(n, r.t.size()))):
        return NONE()
    amt = z3.Extract(n - 1, 0, r.t) if r.t.size() >= n else z3.ZeroExt(n - r.t.size(), r.t)
    return some(Int(z3.simplify((x.t << amt) if canon.endswith("checked_shl") else z3.LShR(x.t, amt)), x.ty))


@model(r"^core::num::<impl (u8|u16|u32|u64|usize)>::wrapping_(shl|shr)$")
def m_wrapping_shift(ex, a, callee, canon):
    # the shift amount is taken modulo the bit width (u8: `x.wrapping_shr(8)` == x)
    x, r = a
    n = x.t.size()
    rt = z3.Extract(n - 1, 0, r.t) if r.t.size() >= n else z3.ZeroExt(n - r.t.size(), r.t)
    amt = rt & z3.BitVecVal(n - 1, n)
    return Int(z3.simplify((x.t << amt) if canon.endswith("wrapping_shl") else z3.LShR(x.t, amt)), x.ty)


@model(r"^<(\w+::)*(\w+) as (num_traits::)?FromPrimitive>::from_(u8|u16|u32|u64|i32|i64|usize)$")
def m_enum_from_primitive(ex, a, callee, canon):
    """num_derive FromPrimitive on a fieldless enum of the crate (discriminants read from the source)"""
    m = re.match(r"^<(?:\w+::)*(\w+) as", canon)
    en = m.group(1)
    table = ex.P.enums.get(en)
    if not table or not all(isinstance(v, int) for v in table.values()):
        raise Unsupported("FromPrimitive for " + en)
    v = a[0]
    cv = v.concrete()
    if cv is None:
        vals = sorted(set(table.values()))
        cv = ex.concretize(v.t, vals)
        if cv is None:
            return NONE()
    for name, d in table.items():
        if d == cv:
            return some(Enum(en, name, d))
    return NONE()


# ------------------------------------------------------------------ small std helpers (robustness against harmless refactors)
def _slot(p):
    while isinstance(p.get(), Ptr):
        p = p.get()
    return p


@model(r"^(std|core)::mem::replace$")
def m_mem_replace(ex, a, callee, canon):
    p = _slot(a[0])
    old = p.get()
    p.set(a[1])
    return old


@model(r"^(std|core)::mem::swap$")
def m_mem_swap(ex, a, callee, canon):
    p, q = _slot(a[0]), _slot(a[1])
    x, y = p.get(), q.get()
    p.set(y)
    q.set(x)
    return UNIT


@model(r"^Option::take$")
def m_option_take(ex, a, callee, canon):
    p = _slot(a[0])
    old = p.get()
    p.set(NONE())
    return old


@model(r"^core::num::<impl (u8|u16|u32|u64|usize)>::saturating_add$")
def m_saturating_add(ex, a, callee, canon):
    x, y = a
    n = x.t.size()
    s = x.t + y.t
    return Int(z3.If(z3.ULT(s, x.t), z3.BitVecVal((1 << n) - 1, n), s), x.ty)


@model(r"^core::num::<impl (u8|u16|u32|u64|usize|i8|i16|i32|i64|isize)>::wrapping_(add|sub|mul)$")
def m_wrapping(ex, a, callee, canon):
    x, y = a
    op = canon.rsplit("_", 1)[1]
    return Int({"add": x.t + y.t, "sub": x.t - y.t, "mul": x.t * y.t}[op], x.ty)


@model(r"^core::num::<impl (u8|u16|u32|u64|usize)>::overflowing_(add|sub)$")
def m_overflowing(ex, a, callee, canon):
    x, y = a
    if canon.endswith("add"):
        r = x.t + y.t
        o = z3.ULT(r, x.t)
    else:
        r = x.t - y.t
        o = z3.ULT(x.t, y.t)
    return Struct("tuple", [Int(r, x.ty), Bool(o)])


@model(r"^Vec::reserve$|^Vec::reserve_exact$|^Vec::shrink_to_fit$")
def m_vec_reserve(ex, a, callee, canon):
    return UNIT


@model(r"^core::slice::<impl \[u8\]>::(first|split_first)$")
def m_slice_first(ex, a, callee, canon):
    items = ex.seq_items(ex.bytes_of(a[0]))
    if items is None:
        raise Unsupported("first element of a byte string of symbolic length")
    if not items:
        return NONE()
    head = Ptr([Int(items[0], "u8")], 0)
    if canon.endswith("split_first"):
        return some(Struct("tuple", [head, Ptr([Bytes(seq_of(items[1:]))], 0)]))
    return some(head)


@model(r"^core::slice::<impl \[u8\]>::(starts_with|ends_with)$")
def m_slice_starts_with(ex, a, callee, canon):
    x, y = ex.seq_items(ex.bytes_of(a[0])), ex.seq_items(ex.bytes_of(a[1]))
    if x is None or y is None:
        raise Unsupported("starts_with / ends_with on byte strings of symbolic length")
    if len(y) > len(x):
        return Bool(False)
    part = x[:len(y)] if canon.endswith("starts_with") else x[len(x) - len(y):]
    return Bool(z3.And(*[p == q for p, q in zip(part, y)]) if y else z3.BoolVal(True))


@model(r"^core::slice::<impl \[u8\]>::contains$")
def m_slice_contains(ex, a, callee, canon):
    x = ex.seq_items(ex.bytes_of(a[0]))
    if x is None:
        raise Unsupported("contains on a byte string of symbolic length")
    v = deref(a[1])
    return Bool(z3.Or(*[p == v.t for p in x]) if x else z3.BoolVal(False))



@model(r"^(std|alloc)::slice::<impl \[&\[u8\]\]>::concat$|^(std|alloc)::slice::<impl \[Vec<u8>\]>::concat$|^<\[&\[u8\]\] as (std::slice::|alloc::slice::)?Concat<u8>>::concat$")
def m_slices_concat(ex, a, callee, canon):
    v = deref(a[0])
    if not isinstance(v, (ListV, Arr)):
        raise Unsupported(f"concat on {v!r}")
    return Bytes(seq_concat(*[ex.bytes_of(x) for x in v.f]) if v.f else z3.Empty(SEQ))



@model(r"^core::slice::<impl \[u8\]>::split_at$")
def m_split_at_base(ex, a, callee, canon):
    items = ex.seq_items(ex.bytes_of(a[0]))
    if items is None:
        raise Unsupported("split_at on a byte string of symbolic length")
    k = ex.concretize(a[1].t, range(len(items) + 1))
    if k is None:
        raise PathPanic("slice::split_at: mid > len")
    mk = lambda xs: Ptr([Bytes(seq_of(xs))], 0)
    return Struct("tuple", [mk(items[:k]), mk(items[k:])])


@model(r"^(std::ops::|core::ops::)?RangeInclusive::new$|^RangeInclusive::<.*>::new$")
def m_range_inclusive_new(ex, a, callee, canon):
    return Struct("RangeInclusive", [a[0], a[1]])


@model(r"^(std::ops::|core::ops::)?(RangeInclusive|Range)(::<.*>)?::contains$")
def m_range_contains(ex, a, callee, canon):
    r, x = deref(a[0]), deref(a[1])
    lo, hi = r.f[0], r.f[1]
    sg = is_signed(x.ty)
    ge = (x.t >= lo.t) if sg else z3.UGE(x.t, lo.t)
    if r.name == "RangeInclusive":
        le = (x.t <= hi.t) if sg else z3.ULE(x.t, hi.t)
    else:
        le = (x.t < hi.t) if sg else z3.ULT(x.t, hi.t)
    return Bool(z3.And(ge, le))


@model(r"^<&?(u8|u16|u32|u64|usize|i8|i16|i32|i64|isize) as (Add|Sub|Mul|BitAnd|BitOr|BitXor)<&?(u8|u16|u32|u64|usize|i8|i16|i32|i64|isize)>>::(add|sub|mul|bitand|bitor|bitxor)$")
def m_ref_arith(ex, a, callee, canon):
    """operator impls on references (`&u8 - u8`): same semantics as the MIR binary operator with overflow checks"""
    x, y = deref(a[0]), deref(a[1])
    op = canon.rsplit("::", 1)[1]
    if op in ("bitand", "bitor", "bitxor"):
        return Int({"bitand": x.t & y.t, "bitor": x.t | y.t, "bitxor": x.t ^ y.t}[op], x.ty)
    sg = is_signed(x.ty)
    if op == "add":
        okc = z3.And(z3.BVAddNoOverflow(x.t, y.t, sg), z3.BVAddNoUnderflow(x.t, y.t) if sg else z3.BoolVal(True))
        r = x.t + y.t
    elif op == "sub":
        okc = z3.And(z3.BVSubNoUnderflow(x.t, y.t, sg), z3.BVSubNoOverflow(x.t, y.t) if sg else z3.BoolVal(True))
        r = x.t - y.t
    else:
        okc = z3.And(z3.BVMulNoOverflow(x.t, y.t, sg), z3.BVMulNoUnderflow(x.t, y.t) if sg else z3.BoolVal(True))
        r = x.t * y.t
    if not ex.decide(okc):
        raise PathPanic(f"attempt to {op} with overflow")
    return Int(r, x.ty)
