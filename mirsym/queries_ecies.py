"""E2 queries for the ECIES (BIE1) framing glue (C11) and the AES mode dispatch (C20): elliptic-curve arithmetic, SHA-512, AES and HMAC
are uninterpreted; which bytes go into which primitive, in which order, and where the results end up in the serialised ciphertext is
decided over the crate's own MIR."""
import json, re
import z3
from .executor import Unsupported, Exec
from .values import *
from .models import MODELS, uf, ok, err, some, NONE
from .models_hash import HMODELS
from .models_ecies import EMODELS, bvbytes, POINT_VALID, set_len
from .txmodel import Ctx, sym_bytes
from . import concrete as C
from . import seqeq as SE
from .queries import QResult, finish, MAX_VIOLATIONS

MAGIC = [0x42, 0x49, 0x45, 0x31]


def units(name, n):
    return [z3.BitVec(f"{name}_{i}", 8) for i in range(n)]


def SHA512(seq):
    return be_bytes(uf("SHA512", SEQ, z3.BitVecSort(512))(seq), 64)


def HMAC256(key, data):
    return seq_of(be_bytes(uf("HMAC_SHA256", SEQ, SEQ, z3.BitVecSort(256))(key, data), 32))


def spec_keys(secret_seq, pub_seq):
    h = SHA512(bvbytes("ECDH_COMPRESSED", 264, secret_seq, pub_seq))
    return seq_of(h[0:16]), seq_of(h[16:32]), seq_of(h[32:64])


def native_ecies(sender_compressed=True, exclude=False, msg=b"attack at dawn, block boundary!!x"):
    vecs = [(msg, exclude), (b"", exclude), (bytes(range(16)), exclude)]
    ops = [{"op": "ecies", "sender": (b"\x00" * 31 + b"\x11").hex(), "recipient": (b"\x5a" * 32).hex(), "message": m.hex(), "exclude": e, "sender_compressed": sender_compressed} for m, e in vecs]
    req = {"tx": {"version": 1, "locktime": 0, "inputs": [], "outputs": []}, "ops": ops}
    nat = {p: C.Native.run(req, p) for p in ("debug", "release")}

    def good(o):
        v = o.get("ok")
        return isinstance(v, dict) and v.get("matches_reference") and v.get("reparse_equal") and v.get("roundtrip") and not v.get("tamper_accepted") and not v.get("wrong_key_accepted")
    bad = any(not good(o) for outs in nat.values() for o in outs)
    slim = {p: [({k: v for k, v in o["ok"].items() if k != "lib"} if isinstance(o.get("ok"), dict) else o) for o in outs] for p, outs in nat.items()}
    return {"request": req, "op_index": 0, "expected": {"matches_reference": True, "reparse_equal": True, "roundtrip": True, "tamper_accepted": [], "wrong_key_accepted": False}, "native": slim, "reproduced": bad}


def q_ecies(env, name=None):
    qr = QResult(name or "ecies_glue")
    P = env.P
    base = [m for m in MODELS if not m[1].__name__.startswith(("m_sha256", "m_sha256d", "m_hash160", "m_sha512", "m_ripemd160", "m_sha1"))]

    def block_size(ex, c):
        site = getattr(ex, "callsite_stack", [""])[-1]
        mm = re.search(r"hmac::<(?:\w+::)*(\w+)>", site)
        if not mm:
            raise Unsupported("block size of an unknown digest type")
        return Int(128 if mm.group(1) == "Sha512" else 64, "usize")

    def new_exec():
        ex = Exec(P, EMODELS + HMODELS + base)
        ex.const_hooks = [(re.compile(r"BlockInput>::BlockSize as .*Unsigned>::USIZE$"), block_size)]
        return ex

    S = P.structs

    def mk(name_, **kw):
        f = [None] * len(S[name_])
        for k, v in kw.items():
            f[S[name_].index(k)] = v
        assert all(x is not None for x in f), (name_, S[name_])
        return Struct(name_, f)

    def fld(v, name_, k):
        return v.f[S[name_].index(k)]

    def priv(ctx, nm, flag=None):
        sec = seq_of(units(nm, 32))
        fl = z3.Bool(nm + "_compressed") if flag is None else z3.BoolVal(flag)
        return mk("PrivateKey", secret_key=Opaque("SecretKey", Bytes(sec)), is_pub_key_compressed=Bool(fl)), sec, fl

    def pub(ex, ctx, nm):
        s, L = sym_bytes(ex, ctx, nm, 65)
        ctx.assumptions.append(POINT_VALID(s))     # PublicKey values only come from validated encodings
        return mk("PublicKey", point=Bytes(s), is_compressed=Bool(z3.Bool(nm + "_is_compressed"))), s

    def check(r, got, want, what, replay):
        st = {}
        outs = SE.compare(list(r.pc), got, want, st)
        qr.queries += st.get("queries", 0)
        qr.solver_s += st.get("solver_s", 0.0)
        if any(o[0] == "unknown" for o in outs):
            qr.undecided.append(what + ": solver unknown")
        dif = [o for o in outs if o[0] == "differ"]
        if dif and len(qr.violations) < MAX_VIOLATIONS:
            item = replay()
            item["message"] = what + " (" + dif[0][3] + ")"
            if item.get("reproduced"):
                qr.violations.append(item)
            else:
                qr.undecided.append(item["message"] + " — not reproduced natively: " + json.dumps(item.get("native"))[:300])
        return not dif

    def flag_violation(what, replay):
        if len(qr.violations) >= MAX_VIOLATIONS:
            return
        item = replay()
        item["message"] = what
        if item.get("reproduced"):
            qr.violations.append(item)
        else:
            qr.undecided.append(what + " — not reproduced natively: " + json.dumps(item.get("native"))[:300])

    def sat(pc, *extra):
        st = {}
        r = SE.check_sat(list(pc), list(extra), st)
        qr.queries += st.get("queries", 0)
        qr.solver_s += st.get("solver_s", 0.0)
        return r

    # ---- E1: derive_cipher_keys_impl = slices of SHA-512 of the compressed shared point
    f_derive = env.fn("ecies::ECIES::derive_cipher_keys_impl")
    ex = new_exec()
    qr.cases += 1

    def setup1(ex):
        ctx = Ctx()
        ctx.priv, ctx.sec, _ = priv(ctx, "recipient_secret")
        ctx.pub, ctx.pubs = pub(ex, ctx, "sender_pub")
        return f_derive, [Ptr([ctx.priv], 0), Ptr([ctx.pub], 0)], ctx
    for r in ex.explore(setup1):
        qr.paths += 1
        if r.kind != "ok" or r.ret.variant != "Ok":
            flag_violation(f"derive_cipher_keys fails for a valid key pair: {r.kind} {r.msg if r.kind != 'ok' else r.ret}", native_ecies)
            continue
        ck = r.ret.f[0]
        iv, ke, km = spec_keys(r.ctx.sec, r.ctx.pubs)
        for nm, want in (("iv", iv), ("ke", ke), ("km", km)):
            check(r, fld(ck, "CipherKeys", nm).s, want, f"derive_cipher_keys: {nm} is not its slice of SHA-512(compressed ECDH point)", native_ecies)
    finish(qr, ex)

    # ---- E2: encrypt_impl: fields of the ciphertext
    f_enc = env.fn("ecies::ECIES::encrypt_impl")
    for exclude in (False, True):
        ex = new_exec()
        qr.cases += 1

        def setup2(ex, exclude=exclude):
            ctx = Ctx()
            ctx.priv, ctx.sec, ctx.flag = priv(ctx, "sender_secret")
            ctx.pub, ctx.pubs = pub(ex, ctx, "recipient_pub")
            ctx.msg, ctx.msgL = sym_bytes(ex, ctx, "message")
            return f_enc, [Ptr([Bytes(ctx.msg)], 0), Ptr([ctx.priv], 0), Ptr([ctx.pub], 0), Bool(exclude)], ctx
        try:
            res = ex.explore(setup2)
        except Unsupported as e:
            qr.undecided.append(f"encrypt_impl exclude={exclude}: {e}")
            continue
        for r in res:
            qr.paths += 1
            c = r.ctx
            # the sender's own compressed key must be encodable (POINT_VALID of the bytes get_point returns): error paths on that are vacuous
            if r.kind != "ok":
                qr.undecided.append(f"encrypt_impl exclude={exclude}: {r.kind} {r.msg}")
                continue
            own = z3.If(c.flag, bvbytes("PUBKEY_COMPRESSED", 264, c.sec), bvbytes("PUBKEY_UNCOMPRESSED", 520, c.sec))
            own_pt = z3.If(c.flag, own, bvbytes("POINT_DECOMPRESS", 520, bvbytes("PUBKEY_UNCOMPRESSED", 520, c.sec)))
            rep = lambda exclude=exclude: native_ecies(sender_compressed=False, exclude=exclude)
            if r.ret.variant != "Ok":
                # only acceptable reason: the sender's own public key bytes do not re-parse (cannot happen for real keys)
                if sat(r.pc, POINT_VALID(own_pt)) == z3.sat:
                    flag_violation(f"encrypt_impl (exclude={exclude}) fails for valid keys", rep)
                continue
            ct = r.ret.f[0]
            iv, ke, km = spec_keys(c.sec, c.pubs)
            body = uf("CBC_AES128_PKCS7_ENCRYPT", SEQ, SEQ, SEQ, SEQ)(ke, iv, c.msg)
            set_len(ex, body, (z3.LShR(c.msgL, 4) + 1) << 4)
            check(r, fld(ct, "ECIESCiphertext", "ciphertext_bytes").s, body, f"encrypt (exclude={exclude}): body is not AES-128-CBC(ke, iv, message) with the derived keys", rep)
            pkf = fld(ct, "ECIESCiphertext", "public_key_bytes")
            R = bvbytes("POINT_COMPRESS", 264, own_pt)
            if exclude:
                if pkf.variant != "None":
                    flag_violation("encrypt with exclude_pub_key=true still embeds a key", rep)
                framed = seq_concat(seq_of([z3.BitVecVal(b, 8) for b in MAGIC]), body)
            else:
                if pkf.variant != "Some":
                    flag_violation("encrypt with exclude_pub_key=false embeds no key", rep)
                    continue
                check(r, pkf.f[0].s, R, "encrypt: embedded key is not the sender's compressed public key", rep)
                framed = seq_concat(seq_of([z3.BitVecVal(b, 8) for b in MAGIC]), R, body)
            check(r, fld(ct, "ECIESCiphertext", "hmac_bytes").s, HMAC256(km, framed), f"encrypt (exclude={exclude}): MAC is not HMAC-SHA256(km, magic || sender key || body)", rep)
        finish(qr, ex)

    # ---- E3/E4: to_bytes layout and from_bytes(to_bytes(c)) = c
    f_to = env.fn("ecies_ciphertext::ECIESCiphertext::to_bytes")
    f_from = env.fn("ecies_ciphertext::ECIESCiphertext::from_bytes_impl")
    for has_pk in (True, False):
        ex = new_exec()
        qr.cases += 1

        def mkct(ex, ctx, has_pk=has_pk):
            ctx.body, ctx.bodyL = sym_bytes(ex, ctx, "body")
            ctx.pk = units("embedded_key", 33)
            ctx.mac = units("mac", 32)
            ctx.ct = mk("ECIESCiphertext", public_key_bytes=some(Bytes(seq_of(ctx.pk))) if has_pk else NONE(), ciphertext_bytes=Bytes(ctx.body),
                        hmac_bytes=Bytes(seq_of(ctx.mac)), keys=NONE())
            ctx.wire = seq_concat(seq_of([z3.BitVecVal(b, 8) for b in MAGIC]), *( [seq_of(ctx.pk)] if has_pk else []), ctx.body, seq_of(ctx.mac))

        def setup3(ex):
            ctx = Ctx()
            mkct(ex, ctx)
            return f_to, [Ptr([ctx.ct], 0)], ctx
        rep = lambda has_pk=has_pk: native_ecies(exclude=not has_pk)
        for r in ex.explore(setup3):
            qr.paths += 1
            if r.kind != "ok":
                qr.undecided.append(f"to_bytes: {r.kind} {r.msg}")
                continue
            check(r, r.ret.s, r.ctx.wire, f"ECIESCiphertext::to_bytes (key embedded={has_pk}) is not magic || key || body || MAC", rep)
        finish(qr, ex)
        ex = new_exec()
        qr.cases += 1

        def setup4(ex, has_pk=has_pk):
            ctx = Ctx()
            mkct(ex, ctx)
            if has_pk:
                ctx.assumptions.append(POINT_VALID(seq_of(ctx.pk)))
            return f_from, [Ptr([Bytes(ctx.wire)], 0), Bool(has_pk)], ctx
        try:
            res = ex.explore(setup4)
        except Unsupported as e:
            qr.undecided.append(f"from_bytes_impl has_pub_key={has_pk}: {e}")
            res = []
        for r in res:
            qr.paths += 1
            if r.kind != "ok" or r.ret.variant != "Ok":
                flag_violation(f"ECIESCiphertext::from_bytes (has_pub_key={has_pk}) rejects a well-formed ciphertext: {r.kind} {r.msg if r.kind != 'ok' else ''}", rep)
                continue
            c2 = r.ret.f[0]
            c = r.ctx
            check(r, fld(c2, "ECIESCiphertext", "ciphertext_bytes").s, c.body, f"from_bytes (has_pub_key={has_pk}): body offsets", rep)
            check(r, fld(c2, "ECIESCiphertext", "hmac_bytes").s, seq_of(c.mac), f"from_bytes (has_pub_key={has_pk}): MAC offsets", rep)
            pkf = fld(c2, "ECIESCiphertext", "public_key_bytes")
            if has_pk != (pkf.variant == "Some"):
                flag_violation(f"from_bytes (has_pub_key={has_pk}): embedded key presence", rep)
            elif has_pk:
                check(r, pkf.f[0].s, seq_of(c.pk), "from_bytes: embedded key offsets", rep)
        finish(qr, ex)

    # ---- E5: decrypt_impl: plaintext only behind a matching MAC over magic || embedded key || body; plaintext = AES-CBC^-1(ke, iv, body)
    f_dec = env.fn("ecies::ECIES::decrypt_impl")
    for has_pk in (True, False):
        ex = new_exec()
        qr.cases += 1

        def setup5(ex, has_pk=has_pk):
            ctx = Ctx()
            ctx.body, ctx.bodyL = sym_bytes(ex, ctx, "body")
            ctx.pk, ctx.pkL = sym_bytes(ex, ctx, "embedded_key", 65)
            ctx.mac = units("mac", 32)
            ctx.ct = mk("ECIESCiphertext", public_key_bytes=some(Bytes(ctx.pk)) if has_pk else NONE(), ciphertext_bytes=Bytes(ctx.body),
                        hmac_bytes=Bytes(seq_of(ctx.mac)), keys=NONE())
            ctx.priv, ctx.sec, _ = priv(ctx, "recipient_secret")
            ctx.pub, ctx.pubs = pub(ex, ctx, "sender_pub")
            return f_dec, [Ptr([ctx.ct], 0), Ptr([ctx.priv], 0), Ptr([ctx.pub], 0)], ctx
        rep = lambda has_pk=has_pk: native_ecies(exclude=not has_pk)
        try:
            res = ex.explore(setup5)
        except Unsupported as e:
            qr.undecided.append(f"decrypt_impl has_pub_key={has_pk}: {e}")
            res = []
        for r in res:
            qr.paths += 1
            c = r.ctx
            if r.kind != "ok":
                flag_violation(f"decrypt_impl (embedded key={has_pk}) {r.kind}: {r.msg}", rep)
                continue
            iv, ke, km = spec_keys(c.sec, c.pubs)
            framed = seq_concat(seq_of([z3.BitVecVal(b, 8) for b in MAGIC]), *([c.pk] if has_pk else []), c.body)
            tag = uf("HMAC_SHA256", SEQ, SEQ, z3.BitVecSort(256))(km, framed)
            mac_ok = z3.Concat(*c.mac) == tag
            dec_ok = uf("CBC_AES128_PKCS7_DECRYPT_OK", SEQ, SEQ, SEQ, z3.BoolSort())(ke, iv, c.body)
            if r.ret.variant == "Ok":
                if sat(r.pc, z3.Not(mac_ok)) != z3.unsat:
                    flag_violation(f"decrypt (embedded key={has_pk}) returns plaintext although the MAC does not equal HMAC-SHA256(km, magic || embedded key || body): tampering is not rejected", rep)
                plain = uf("CBC_AES128_PKCS7_DECRYPT", SEQ, SEQ, SEQ, SEQ)(ke, iv, c.body)
                check(r, r.ret.f[0].s, plain, f"decrypt (embedded key={has_pk}): plaintext is not AES-128-CBC^-1(ke, iv, body) with the derived keys", rep)
            else:
                if sat(r.pc, mac_ok, dec_ok) != z3.unsat:
                    flag_violation(f"decrypt (embedded key={has_pk}) rejects a ciphertext with a matching MAC and valid padding", rep)
        finish(qr, ex)
    qr.samples.append({"obligation": qr.name, "parts": ["derive_cipher_keys", "encrypt (both inclusion modes, both sender key compression flags)", "to_bytes", "from_bytes(to_bytes)", "decrypt from an arbitrary ciphertext value"]})
    return qr


# ----------------------------------------------------------------------------- C20: mode dispatch
def q_aes_dispatch(env, name=None):
    qr = QResult(name or "aes_dispatch")
    P = env.P
    algos = list(P.enums["AESAlgorithms"].items())
    SPEC = {"AES128_CBC": "CBC_AES128_PKCS7", "AES256_CBC": "CBC_AES256_PKCS7", "AES128_CTR": "CTR_AES128", "AES256_CTR": "CTR_AES256"}
    klen = {"AES128_CBC": 16, "AES256_CBC": 32, "AES128_CTR": 16, "AES256_CTR": 32}

    def native(algo, decrypt):
        import hashlib
        key = bytes(range(1, 1 + klen[algo]))
        iv = bytes([0] * 8 + [0xff] * 7 + [0xfe])       # low counter bytes about to carry
        msgs = [bytes(range(40)), b"", bytes(range(16)), bytes((i * 7) % 256 for i in range(9000))]
        req = {"tx": {"version": 1, "locktime": 0, "inputs": [], "outputs": []}, "ops": [{"op": "aes_check", "algo": algo, "key": key.hex(), "iv": iv.hex(), "message": m.hex()} for m in msgs]}
        nat = {p: C.Native.run(req, p) for p in ("debug", "release")}
        exp = {"matches_reference": True, "roundtrip": True, "corrupted_ciphertexts_agree_with_reference": True}
        slim = {p: [o.get("ok", o) for o in v] for p, v in nat.items()}
        req["ops"][3]["message"] = req["ops"][3]["message"][:64] + "...(9000 bytes: (7*i) mod 256)"
        return {"request": req, "op_index": 0, "expected": exp, "native": slim, "reproduced": any(o != exp for v in slim.values() for o in v)}

    for direction in ("encrypt_impl", "decrypt_impl"):
        f = env.fn(f"encryption::AES::{direction}")
        for an, disc in algos:
            if an not in SPEC:
                qr.undecided.append(f"unknown AES algorithm variant {an}")
                continue
            ex = Exec(P, EMODELS + HMODELS + MODELS)
            qr.cases += 1

            def setup(ex, an=an, disc=disc):
                ctx = Ctx()
                ctx.key, ctx.keyL = sym_bytes(ex, ctx, "key", 64)
                ctx.iv, ctx.ivL = sym_bytes(ex, ctx, "iv", 64)
                ctx.msg, ctx.msgL = sym_bytes(ex, ctx, "message")
                return f, [Ptr([Bytes(ctx.key)], 0), Ptr([Bytes(ctx.iv)], 0), Ptr([Bytes(ctx.msg)], 0), Enum("AESAlgorithms", an, disc)], ctx
            try:
                res = ex.explore(setup)
            except Unsupported as e:
                qr.undecided.append(f"AES::{direction} {an}: {e}")
                continue
            rep = lambda an=an, direction=direction: native(an, direction == "decrypt_impl")
            for r in res:
                qr.paths += 1
                c = r.ctx
                lens_ok = z3.And(c.keyL == klen[an], c.ivL == 16)
                se = SE.SeqEq(list(r.pc))
                if r.kind != "ok":
                    item = rep()
                    item["message"] = f"AES::{direction} {an}: {r.kind} {r.msg}"
                    (qr.violations if item["reproduced"] else qr.undecided).append(item if item["reproduced"] else item["message"] + " — not reproduced natively")
                    continue
                qr.queries += 1
                if r.ret.variant != "Ok":
                    ok_cond = lens_ok
                    if direction == "decrypt_impl" and "CBC" in an:
                        ok_cond = z3.And(lens_ok, uf(SPEC[an] + "_DECRYPT_OK", SEQ, SEQ, SEQ, z3.BoolSort())(c.key, c.iv, c.msg))
                    if se._check(se.abstract(ok_cond)) != z3.unsat:
                        item = rep()
                        item["message"] = f"AES::{direction} {an} fails although key/IV sizes are right" + (" and the padding is valid" if "CBC" in an and direction == "decrypt_impl" else "")
                        (qr.violations if item["reproduced"] else qr.undecided).append(item if item["reproduced"] else item["message"] + " — not reproduced natively")
                    continue
                if se._check(z3.Not(lens_ok)) != z3.unsat:
                    item = rep()
                    item["message"] = f"AES::{direction} {an} accepts a key or IV of the wrong size"
                    (qr.violations if item["reproduced"] else qr.undecided).append(item if item["reproduced"] else item["message"] + " — not reproduced natively")
                    continue
                if "CBC" in an:
                    fn_ = SPEC[an] + ("_ENCRYPT" if direction == "encrypt_impl" else "_DECRYPT")
                    want = uf(fn_, SEQ, SEQ, SEQ, SEQ)(c.key, c.iv, c.msg)
                else:
                    want = uf(SPEC[an] + "_KEYSTREAM_XOR", SEQ, SEQ, z3.BitVecSort(64), SEQ, SEQ)(c.key, c.iv, z3.BitVecVal(0, 64), c.msg)
                st = {}
                outs = SE.compare(list(r.pc), r.ret.f[0].s, want, st)
                qr.queries += st.get("queries", 0)
                qr.solver_s += st.get("solver_s", 0.0)
                if any(o[0] != "equal" for o in outs):
                    item = rep()
                    item["message"] = f"AES::{direction} {an}: result is not {SPEC[an]} over (key, iv, message) from keystream offset 0 ({[o for o in outs if o[0] != 'equal'][0][-1]})"
                    (qr.violations if item["reproduced"] else qr.undecided).append(item if item["reproduced"] else item["message"] + " — not reproduced natively: " + json.dumps(item["native"])[:200])
            finish(qr, ex)
    qr.samples.append({"obligation": qr.name, "algorithms": [a for a, _ in algos], "directions": ["encrypt_impl", "decrypt_impl"]})
    return qr
