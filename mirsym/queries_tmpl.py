"""E2 queries for C19: script template matching (Script::match_impl on structured scripts) and output/input selection by criteria."""
import itertools, json
import z3
from .executor import Unsupported
from .values import *
from .models import uf, model, ok, err
from .txmodel import *
from . import concrete as C
from . import seqeq as SE
from .queries import QResult, finish, bv_val, Binder, MAX_VIOLATIONS


# ------------------------------------------------------------------ criteria
@model(r"(^|::)Script::is_match$|<impl (\w+::)*Script>::is_match$")
def m_is_match_opaque(ex, a, callee, canon):
    from .models import deref
    s = deref(a[0])
    if isinstance(s, Struct) and s.name == "Script" and isinstance(s.f[0], Bytes):
        # transaction-level query: the template is an uninterpreted predicate on the script bytes
        return Bool(uf("TEMPLATE_MATCHES", SEQ, z3.BoolSort())(s.f[0].s))
    d = ex.P.resolve("script_template::<impl script::Script>::test_impl")
    return ex.call_fn(d, a)


@model(r"(^|::)Script::from_bytes$")
def m_script_from_bytes(ex, a, callee, canon):
    return ok(Struct("Script", [Bytes(ex.bytes_of(a[0]))]))


def q_criteria(env, k=2, name=None):
    """match_output(s)/match_input(s): exactly the indices whose script matches the template (uninterpreted predicate) and whose value
    satisfies exact/min/max, in order; single-result form = first of them"""
    qr = QResult(name or f"criteria_k{k}")
    P = env.P
    tm = uf("TEMPLATE_MATCHES", SEQ, z3.BoolSort())
    for side in ("output", "input"):
        for plural in (True, False):
            fname = f"transaction::Transaction::match_{side}{'s' if plural else ''}"
            try:
                f = env.fn(fname)
            except Unsupported as e:
                qr.undecided.append(str(e))
                continue
            for has in itertools.product([False, True], repeat=4):
                if len(qr.violations) >= MAX_VIOLATIONS:
                    break
                qr.cases += 1
                ex = env.new_exec()

                def setup(ex, has=has, side=side):
                    ctx = Ctx()
                    tx = SymTx(ex, ctx, k if side == "input" else 0, k if side == "output" else 0, extended=(side == "input"))
                    ctx.tx = tx
                    for L in [v for kk, v in ctx.vars.items() if kk.endswith("_len")]:
                        ctx.assumptions.append(z3.ULE(L, 252))
                    ctx.exact, ctx.min, ctx.max = z3.BitVec("crit_exact", 64), z3.BitVec("crit_min", 64), z3.BitVec("crit_max", 64)
                    opt = lambda h, t: some(Int(t, "u64")) if h else none()
                    tmpl = some(Struct("ScriptTemplate", [ListV([])])) if has[0] else none()
                    crit = mk_struct(P, "MatchCriteria", script_template=tmpl, exact_value=opt(has[1], ctx.exact), min_value=opt(has[2], ctx.min), max_value=opt(has[3], ctx.max))
                    return f, [Ptr([tx.value], 0), Ptr([crit], 0)], ctx
                try:
                    results = ex.explore(setup)
                except Unsupported as e:
                    qr.undecided.append(f"{fname} {has}: {e}")
                    continue
                for r in results:
                    qr.paths += 1
                    if len(qr.violations) >= MAX_VIOLATIONS:
                        break
                    c = r.ctx
                    preds = []
                    n = k
                    for j in range(n):
                        if side == "output":
                            val = c.tx.outs[j]["value"]
                            sc = c.tx.outs[j]["script"]
                        else:
                            val = c.tx.ins[j]["satoshis"]
                            sc = seq_concat(c.tx.ins[j]["script"], c.tx.ins[j]["lockscript"])
                        p = z3.BoolVal(True)
                        if has[0]:
                            p = z3.And(p, tm(sc))
                        if has[1]:
                            p = z3.And(p, val == c.exact)
                        if has[2]:
                            p = z3.And(p, z3.UGE(val, c.min))
                        if has[3]:
                            p = z3.And(p, z3.ULE(val, c.max))
                        preds.append(p)
                    if r.kind != "ok":
                        qr.undecided.append(f"{fname}: {r.kind} {r.msg}")
                        continue
                    # what the path returned (concrete indices)
                    if plural:
                        got = [x.concrete() for x in r.ret.f]
                        want_conds = [(p if j in got else z3.Not(p)) for j, p in enumerate(preds)]
                        order_ok = got == sorted(got)
                    else:
                        gi = r.ret.f[0].concrete() if r.ret.variant == "Some" else None
                        want_conds = [z3.Not(preds[j]) for j in range(n if gi is None else gi)] + ([preds[gi]] if gi is not None else [])
                        order_ok = True
                    se = SE.SeqEq(list(r.pc))
                    qr.queries += 1
                    bad = z3.Not(z3.And(*[se.abstract(w) for w in want_conds])) if want_conds else z3.BoolVal(False)
                    if order_ok and se._check(bad) != z3.sat:
                        continue
                    m = se.s.model() if order_ok else None
                    if m is None:
                        se._check()
                        m = se.s.model()
                    # native replay (templates are not replayable as an uninterpreted predicate: only value bounds)
                    if has[0]:
                        qr.undecided.append(f"{fname} {has}: selection deviates from the specification on a path that depends on the template predicate (not replayable)")
                        continue
                    b = Binder(m)
                    txj = b.tx(c.tx)
                    op = {"op": f"match_{side}{'s' if plural else ''}"}
                    if has[1]:
                        op["exact"] = b.bv(c.exact)
                    if has[2]:
                        op["min"] = b.bv(c.min)
                    if has[3]:
                        op["max"] = b.bv(c.max)
                    vals = [bv_val(m, (c.tx.outs[j]["value"] if side == "output" else c.tx.ins[j]["satoshis"])) for j in range(n)]
                    sel = [j for j in range(n) if (not has[1] or vals[j] == op["exact"]) and (not has[2] or vals[j] >= op["min"]) and (not has[3] or vals[j] <= op["max"])]
                    exp = sel if plural else (sel[0] if sel else None)
                    req = {"tx": txj, "ops": [op]}
                    nat = {pr: C.Native.run(req, pr)[0] for pr in ("debug", "release")}
                    item = {"message": f"match_{side}{'s' if plural else ''} with criteria {op}: values {vals} -> expected {exp}", "request": req, "op_index": 0, "expected": exp, "native": nat}
                    if any(v.get("ok") != exp for v in nat.values()):
                        qr.violations.append(item)
                    else:
                        qr.undecided.append(f"criteria: SMT counterexample not reproduced natively ({item['message']})")
                finish(qr, ex)
    return qr


# ------------------------------------------------------------------ template matching on structured scripts
TOKENS = ["OpCode", "Push", "PushData", "AnyData", "Data_Equals", "Data_GreaterThan", "Data_LessThan", "Data_GreaterThanOrEquals", "Data_LessThanOrEquals", "Signature", "PublicKey", "PublicKeyHash"]
BITS = ["OpCode", "Push", "PushData", "If", "Coinbase"]


@model(r"(^|::)PublicKey::from_bytes_impl$")
def m_pubkey_from_bytes(ex, a, callee, canon):
    s = ex.bytes_of(a[0])
    if ex.decide(uf("PUBKEY_ENCODING_VALID", SEQ, z3.BoolSort())(s)):
        return ok(Struct("PublicKey", [Bytes(s), Bool(True)]))
    return err("pubkey")


def mk_token(P, kind, i, ctx, ex):
    E = P.enums["MatchToken"]
    if kind == "OpCode":
        ctx.tok[i] = ("OpCode", None)
        return Enum("MatchToken", "OpCode", E["OpCode"], [Enum("OpCodes", ctx.tokop[i][0], ctx.tokop[i][1])])
    if kind in ("Push", "PushData"):
        s, L = sym_bytes(ex, ctx, f"tokdata{i}", 300)
        ctx.tok[i] = (kind, s)
        if kind == "Push":
            return Enum("MatchToken", "Push", E["Push"], [Bytes(s)])
        return Enum("MatchToken", "PushData", E["PushData"], [Enum("OpCodes", "OP_PUSHDATA1", 76), Bytes(s)])
    if kind == "AnyData":
        ctx.tok[i] = ("AnyData", None)
        return Enum("MatchToken", "AnyData", E["AnyData"], [])
    if kind.startswith("Data_"):
        c = kind[5:]
        n = z3.BitVec(f"toklen{i}", 64)
        ctx.tok[i] = ("Data", (c, n))
        return Enum("MatchToken", "Data", E["Data"], [Int(n, "usize"), Enum("DataLengthConstraints", c, P.enums["DataLengthConstraints"][c])])
    ctx.tok[i] = (kind, None)
    return Enum("MatchToken", kind, E[kind], [])


def mk_bit(P, kind, i, ctx, ex):
    E = P.enums["ScriptBit"]
    if kind == "OpCode":
        ctx.bit[i] = ("OpCode", None)
        return Enum("ScriptBit", "OpCode", E["OpCode"], [Enum("OpCodes", ctx.bitop[i][0], ctx.bitop[i][1])])
    if kind in ("Push", "PushData", "Coinbase"):
        s, L = sym_bytes(ex, ctx, f"bitdata{i}", 300)
        ctx.bit[i] = (kind, (s, L))
        if kind == "PushData":
            return Enum("ScriptBit", "PushData", E["PushData"], [Enum("OpCodes", "OP_PUSHDATA1", 76), Bytes(s)])
        return Enum("ScriptBit", kind, E[kind], [Bytes(s)])
    ctx.bit[i] = ("If", None)
    return Enum("ScriptBit", "If", E["If"], [Enum("OpCodes", "OP_IF", P.enums["OpCodes"]["OP_IF"]), ListV([]), none()])


def element_rule(tok, bit, der_valid, pk_valid):
    """(matches: z3 Bool, extracted tag or None) per the property statement"""
    tk, tv = tok
    bk, bvv = bit
    F, T = z3.BoolVal(False), z3.BoolVal(True)
    is_push = bk in ("Push", "PushData")
    if tk == "OpCode":
        return (tv if bk == "OpCode" else F), None          # tv: equality of the two opcodes, supplied by the caller
    if tk == "Push":
        return (tv == bvv[0] if bk == "Push" else F), None
    if tk == "PushData":
        return (tv == bvv[0] if bk == "PushData" else F), None
    if tk == "AnyData":
        return (T if is_push else F), ("Data" if is_push else None)
    if tk == "Data":
        if not is_push:
            return F, None
        c, n = tv
        L = bvv[1]
        r = {"Equals": L == n, "GreaterThan": z3.UGT(L, n), "LessThan": z3.ULT(L, n), "GreaterThanOrEquals": z3.UGE(L, n), "LessThanOrEquals": z3.ULE(L, n)}[c]
        return r, "Data"
    if tk == "Signature":
        return (der_valid(bvv[0]) if bk == "Push" else F), ("Signature" if bk == "Push" else None)
    if tk == "PublicKey":
        return (pk_valid(bvv[0]) if bk == "Push" else F), ("PublicKey" if bk == "Push" else None)
    if tk == "PublicKeyHash":
        return (bvv[1] == 20 if bk == "Push" else F), ("PublicKeyHash" if bk == "Push" else None)
    raise KeyError(tk)


def q_template(env, name=None, pairs2=True):
    """Script::match_impl on structured scripts: every token kind x every element kind (n=1), two-element scripts for extraction order,
    and unequal lengths"""
    qr = QResult(name or "template_match")
    P = env.P
    f = env.fn("script_template::<impl script::Script>::match_impl")
    # Signature::from_der_impl: DER validity of the pushed bytes or of the bytes without a trailing flag byte — summarised by one predicate
    sig_ok = uf("SIGNATURE_PUSH_PARSES", SEQ, z3.BoolSort())
    pk_ok = uf("PUBKEY_ENCODING_VALID", SEQ, z3.BoolSort())
    shapes = [([t], [b]) for t in TOKENS for b in BITS]
    if pairs2:
        shapes += [(["Data_Equals", "AnyData"], ["Push", "PushData"]), (["PublicKeyHash", "OpCode"], ["Push", "OpCode"]), (["AnyData", "Data_GreaterThan"], ["PushData", "Push"]),
                   (["Signature", "PublicKey"], ["Push", "Push"]), (["OpCode"], ["OpCode", "OpCode"]), (["AnyData", "AnyData"], ["Push"]), ([], [])]
    for toks, bits in shapes:
        for same_op in (True, False):
            if "OpCode" not in toks and same_op is False:
                continue
            if len(qr.violations) >= MAX_VIOLATIONS:
                break
            qr.cases += 1
            ex = env.new_exec()

            def setup(ex, toks=toks, bits=bits, same_op=same_op):
                ctx = Ctx()
                ctx.tok, ctx.bit = {}, {}
                ops = P.enums["OpCodes"]
                ctx.tokop = {i: ("OP_DUP", ops["OP_DUP"]) for i in range(len(toks))}
                ctx.bitop = {i: (("OP_DUP", ops["OP_DUP"]) if same_op else ("OP_HASH160", ops["OP_HASH160"])) for i in range(len(bits))}
                tv = [mk_token(P, t, i, ctx, ex) for i, t in enumerate(toks)]
                bvs = [mk_bit(P, b, i, ctx, ex) for i, b in enumerate(bits)]
                script = Struct("Script", [ListV(bvs)])
                tmpl = Struct("ScriptTemplate", [ListV(tv)])
                ctx.same_op = same_op
                return f, [Ptr([script], 0), Ptr([tmpl], 0)], ctx
            try:
                # Signature token: from_der_impl is summarised (its own query is c06_der_and_flag)
                saved = list(ex.models)
                import re as _re
                ex.models = [(_re.compile(r"(^|::)Signature::from_der_impl$"), lambda ex, a, callee, canon: (ok(Opaque("Signature")) if ex.decide(sig_ok(ex.bytes_of(a[0]))) else err("der")))] + saved
                results = ex.explore(setup)
            except Unsupported as e:
                qr.undecided.append(f"match_impl {toks} vs {bits}: {e}")
                continue
            for r in results:
                qr.paths += 1
                c = r.ctx
                if r.kind != "ok":
                    qr.undecided.append(f"match_impl {toks} vs {bits}: {r.kind} {r.msg}")
                    continue
                if len(toks) != len(bits):
                    if r.ret.variant != "Err":
                        qr.violations.append({"message": f"template of {len(toks)} tokens matches a script of {len(bits)} elements", "request": {"tokens": toks, "bits": bits}, "expected": "err", "native": {}})
                    continue
                conds, tags = [], []
                for i in range(len(toks)):
                    tok = c.tok[i]
                    if tok[0] == "OpCode":
                        tok = ("OpCode", z3.BoolVal(c.same_op))
                    mt, tag = element_rule(tok, c.bit[i], sig_ok, pk_ok)
                    conds.append(mt)
                    tags.append(tag)
                all_match = z3.And(*conds) if conds else z3.BoolVal(True)
                accepted = r.ret.variant == "Ok"
                se = SE.SeqEq(list(r.pc))
                qr.queries += 1
                goal = se.abstract(z3.Not(all_match) if accepted else all_match)
                if se._check(goal) == z3.sat:
                    item = {"message": f"match_impl: template {toks} vs script {bits}{'' if c.same_op else ' (different opcodes)'}: library {'matches' if accepted else 'does not match'} where the element rules say the opposite",
                            "request": {"tokens": toks, "bits": bits}, "expected": "no match" if accepted else "match", "native": {}, "model": str(se.s.model())[:400]}
                    item.update(native_template(toks, bits, c, se.s.model()))
                    if item.get("reproduced"):
                        qr.violations.append(item)
                    else:
                        qr.undecided.append("template: deviation not reproduced natively: " + item["message"] + " " + json.dumps(item.get("native"))[:200])
                    continue
                if accepted:
                    # extraction: matched pushes in script order with their tag
                    got = r.ret.f[0].f
                    want = [(tags[i], c.bit[i][1][0]) for i in range(len(toks)) if tags[i] is not None]
                    okx = len(got) == len(want)
                    if okx:
                        for g, (tag, data) in zip(got, want):
                            if g.f[0].variant != tag or g.f[1].s.get_id() != data.get_id():
                                okx = False
                    if not okx:
                        item = {"message": f"match_impl: extracted values for template {toks} vs script {bits} are not the matched pushes in script order with their token kind (got {[g.f[0].variant for g in got]}, want {[w[0] for w in want]})",
                                "request": {"tokens": toks, "bits": bits}, "expected": [w[0] for w in want], "native": {}}
                        item.update(native_template(toks, bits, c, None))
                        if item.get("reproduced"):
                            qr.violations.append(item)
                        else:
                            qr.undecided.append("template extraction: deviation not reproduced natively: " + item["message"] + " " + json.dumps(item.get("native"))[:200])
            finish(qr, ex)
    qr.samples.append({"obligation": qr.name, "token_kinds": TOKENS, "element_kinds": BITS})
    return qr


def native_template(toks, bits, c, m):
    """concrete script + template text for the native side; lengths from the model where it matters"""
    def blen(i, default):
        if m is None:
            return default
        try:
            return min(bv_val(m, c.bit[i][1][1]), 300)
        except Exception:
            return default
    script = bytearray()
    tparts = []
    expected_tags = []
    for i, (t, b) in enumerate(zip(toks, bits)):
        n = None
        if b == "OpCode":
            script.append(0x76 if c.same_op else 0xa9)
        elif b in ("Push", "PushData"):
            n = blen(i, 20 if b == "Push" else 80)
            if b == "Push":
                n = max(1, min(n, 75))
                script += bytes([n]) + bytes([0x42] * n)
            else:
                n = max(76, min(n, 255))
                script += bytes([0x4c, n]) + bytes([0x42] * n)
        else:
            return {"native": {"skipped": f"element kind {b} is not constructible from script bytes in a replay"}, "reproduced": False}
        if t == "OpCode":
            tparts.append("OP_DUP")
        elif t == "AnyData":
            tparts.append("OP_DATA")
        elif t.startswith("Data_"):
            sym = {"Equals": "=", "GreaterThan": ">", "LessThan": "<", "GreaterThanOrEquals": ">=", "LessThanOrEquals": "<="}[t[5:]]
            base = n if n is not None else 1
            tl = bv_val(m, c.tok[i][1][1]) if m is not None else {">": base - 1, "<": base + 1}.get(sym, base)
            tparts.append(f"OP_DATA{sym}{tl}")
        elif t == "Signature":
            tparts.append("OP_SIG")
        elif t == "PublicKey":
            tparts.append("OP_PUBKEY")
        elif t == "PublicKeyHash":
            tparts.append("OP_PUBKEYHASH")
        else:
            return {"native": {"skipped": f"token kind {t} needs literal data"}, "reproduced": False}
    req = {"tx": {"version": 1, "locktime": 0, "inputs": [], "outputs": []}, "ops": [{"op": "template_match", "script": bytes(script).hex(), "template": " ".join(tparts)}]}
    nat = {p: C.Native.run(req, p)[0] for p in ("debug", "release")}
    # independent expectation
    exp_match = True
    exp_tags = []
    pos = 0
    for i, (t, b) in enumerate(zip(toks, bits)):
        if b == "OpCode":
            el = ("op", None)
        else:
            ln = script_len_at(bytes(script), i)
            el = ("push", ln)
        tp = tparts[i]
        if tp == "OP_DUP":
            exp_match &= (el[0] == "op" and c.same_op)
        elif tp == "OP_DATA":
            exp_match &= el[0] == "push"
            if el[0] == "push":
                exp_tags.append("Data")
        elif tp.startswith("OP_DATA"):
            import re
            mm = re.match(r"OP_DATA(>=|<=|=|>|<)(\d+)", tp)
            k = int(mm.group(2))
            okk = el[0] == "push" and {"=": el[1] == k, ">": el[1] > k, "<": el[1] < k, ">=": el[1] >= k, "<=": el[1] <= k}[mm.group(1)]
            exp_match &= bool(okk)
            if el[0] == "push":
                exp_tags.append("Data")
        elif tp == "OP_PUBKEYHASH":
            exp_match &= (el[0] == "push" and el[1] == 20 and b == "Push")
            exp_tags.append("PublicKeyHash")
        else:
            return {"native": nat, "reproduced": False, "note": "signature/pubkey tokens need real encodings"}
    rep = False
    for v in nat.values():
        if exp_match:
            if v.get("ok") is None or [x[0] for x in v["ok"]] != exp_tags:
                rep = True
        else:
            if "ok" in v:
                rep = True
    return {"native": nat, "reproduced": rep, "request": req, "expected": {"match": exp_match, "tags": exp_tags}}


def script_len_at(script, idx):
    """payload length of the idx-th element of a script made of single opcodes and pushes"""
    i = k = 0
    while i < len(script):
        op = script[i]
        if 1 <= op <= 75:
            ln, step = op, 1 + op
        elif op == 0x4c:
            ln, step = script[i + 1], 2 + script[i + 1]
        else:
            ln, step = None, 1
        if k == idx:
            return ln
        i += step
        k += 1
    return None


# ------------------------------------------------------------------ structured scripts: serialiser and code-separator removal (C02 / C10)
def rand_bits(P, ex, ctx, shape, prefix="b"):
    """shape: nested list of element kinds -> (executor value list, reference bytes (Seq), reference bytes without code separators)"""
    E = P.enums["ScriptBit"]
    ops = P.enums["OpCodes"]
    vals, ser, ser_nocs, kept = [], [], [], []
    u8 = lambda v: z3.Unit(z3.BitVecVal(v, 8))
    for i, k in enumerate(shape):
        nm = f"{prefix}{i}"
        if isinstance(k, tuple) and k[0] == "op":
            vals.append(Enum("ScriptBit", "OpCode", E["OpCode"], [Enum("OpCodes", k[1], ops[k[1]])]))
            ser.append(u8(ops[k[1]]))
            if k[1] != "OP_CODESEPARATOR":
                ser_nocs.append(u8(ops[k[1]]))
                kept.append(clone(vals[-1]))
        elif k == "push":
            s, L = sym_bytes(ex, ctx, nm + "_data", 75)
            ctx.assumptions.append(z3.UGE(L, 1))
            vals.append(Enum("ScriptBit", "Push", E["Push"], [Bytes(s)]))
            piece = [z3.Unit(z3.Extract(7, 0, L)), s]
            ser += piece
            ser_nocs += piece
            kept.append(clone(vals[-1]))
        elif isinstance(k, tuple) and k[0] == "pushdata":
            code, width, cap = {1: ("OP_PUSHDATA1", 1, 255), 2: ("OP_PUSHDATA2", 2, 65535), 4: ("OP_PUSHDATA4", 4, (1 << 32) - 1)}[k[1]]
            s, L = sym_bytes(ex, ctx, nm + "_data", cap)
            vals.append(Enum("ScriptBit", "PushData", E["PushData"], [Enum("OpCodes", code, ops[code]), Bytes(s)]))
            piece = [u8(ops[code])] + [z3.Unit(b) for b in le_bytes(z3.Extract(8 * width - 1, 0, L), width)] + [s]
            ser += piece
            ser_nocs += piece
            kept.append(clone(vals[-1]))
        elif isinstance(k, tuple) and k[0] == "if":
            _, code, pass_shape, fail_shape = k
            pv, ps, pn, pk = rand_bits(P, ex, ctx, pass_shape, nm + "p")
            if fail_shape is None:
                fv, fs, fn_, fk, fail_val, fail_kept = [], [], [], [], none(), none()
            else:
                fv, fs, fn_, fk = rand_bits(P, ex, ctx, fail_shape, nm + "f")
                fail_val, fail_kept = some(ListV(fv)), some(ListV(fk))
            vals.append(Enum("ScriptBit", "If", E["If"], [Enum("OpCodes", code, ops[code]), ListV(pv), fail_val]))
            kept.append(Enum("ScriptBit", "If", E["If"], [Enum("OpCodes", code, ops[code]), ListV(pk), fail_kept]))
            for dst, a_, b_ in ((ser, ps, fs), (ser_nocs, pn, fn_)):
                dst.append(u8(ops[code]))
                dst += a_
                if fail_shape is not None:
                    dst.append(u8(ops["OP_ELSE"]))
                    dst += b_
                dst.append(u8(ops["OP_ENDIF"]))
        elif k == "coinbase":
            s, L = sym_bytes(ex, ctx, nm + "_cb", 100)
            vals.append(Enum("ScriptBit", "Coinbase", E["Coinbase"], [Bytes(s)]))
            ser.append(s)
            ser_nocs.append(s)
            kept.append(clone(vals[-1]))
        else:
            raise KeyError(k)
    return vals, ser, ser_nocs, kept


SCRIPT_SHAPES = [
    [("op", "OP_DUP"), "push", ("op", "OP_CODESEPARATOR"), ("pushdata", 1)],
    [("pushdata", 2), ("pushdata", 4), ("op", "OP_CODESEPARATOR"), ("op", "OP_CODESEPARATOR")],
    [("if", "OP_IF", [("op", "OP_1")], None), ("op", "OP_CODESEPARATOR")],
    [("if", "OP_IF", [("op", "OP_1")], []), ("op", "OP_VERIFY")],
    [("if", "OP_NOTIF", [], [("op", "OP_CODESEPARATOR"), "push"]), ("op", "OP_CHECKSIG")],
    [("if", "OP_IF", [("if", "OP_IF", [("op", "OP_CODESEPARATOR")], [])], [("op", "OP_2")])],
    ["coinbase"],
    [],
]


def q_script_bits(env, name=None):
    """Script::to_bytes / script_bits_to_bytes / get_script_length on structured scripts vs the script wire format, and
    remove_codeseparators removes every OP_CODESEPARATOR (also inside conditionals) and nothing else"""
    qr = QResult(name or "script_bits")
    P = env.P
    native_script_bits.ops = P.enums["OpCodes"]
    f_ser = env.fn("script::Script::to_bytes")
    f_rm = env.fn("script::Script::remove_codeseparators")
    for shape in SCRIPT_SHAPES:
        for what in ("to_bytes", "remove_codeseparators"):
            if len(qr.violations) >= MAX_VIOLATIONS:
                break
            qr.cases += 1
            ex = env.new_exec()

            def setup(ex, shape=shape, what=what):
                ctx = Ctx()
                vals, ser, ser_nocs, kept = rand_bits(P, ex, ctx, shape)
                ctx.ser, ctx.ser_nocs, ctx.kept = seq_concat(*ser) if ser else z3.Empty(SEQ), seq_concat(*ser_nocs) if ser_nocs else z3.Empty(SEQ), kept
                ctx.script = Ptr([Struct("Script", [ListV(vals)])], 0)
                return (f_ser if what == "to_bytes" else f_rm), [ctx.script], ctx
            try:
                results = ex.explore(setup)
            except Unsupported as e:
                qr.undecided.append(f"{what} {shape}: {e}")
                continue
            for r in results:
                qr.paths += 1
                if r.kind != "ok":
                    qr.undecided.append(f"{what} {shape}: {r.kind} {r.msg}")
                    continue
                if what == "to_bytes":
                    got, want = r.ret.s, r.ctx.ser
                else:
                    # serialise the separator-free script with the (separately checked) serialiser and compare with the reference
                    ex2 = env.new_exec()
                    ex2.base_assumptions = list(r.pc)
                    ex2.len_vars = dict(getattr(ex, "len_vars", {}))
                    scr = r.ctx.script.get()
                    res2 = ex2.explore(lambda e2, scr=scr: (f_ser, [Ptr([clone(scr)], 0)], Ctx()))
                    if len(res2) != 1 or res2[0].kind != "ok":
                        qr.undecided.append(f"{what} {shape}: re-serialisation forked or failed")
                        continue
                    got, want = res2[0].ret.s, r.ctx.ser_nocs
                st = {}
                outs = SE.compare(list(r.pc), got, want, st)
                qr.queries += st.get("queries", 0)
                qr.solver_s += st.get("solver_s", 0.0)
                if any(o[0] == "unknown" for o in outs):
                    qr.undecided.append(f"{what} {shape}: solver unknown")
                dif = [o for o in outs if o[0] == "differ"]
                if not dif:
                    continue
                item = native_script_bits(shape, what)
                item["message"] = f"{what} on a script of shape {shape}: " + ("serialised bytes differ from the script wire format" if what == "to_bytes" else "not exactly the OP_CODESEPARATORs were removed") + f" ({dif[0][3]})"
                if item["reproduced"]:
                    qr.violations.append(item)
                else:
                    qr.undecided.append(item["message"] + " — not reproduced natively: " + json.dumps(item["native"])[:200])
            finish(qr, ex)
    qr.samples.append({"obligation": qr.name, "shapes": [str(s) for s in SCRIPT_SHAPES]})
    return qr


def concrete_bits(shape, ops, tag=[0]):
    """concrete bytes of a script of the given shape, and the same without code separators"""
    ser, nocs = bytearray(), bytearray()
    for k in shape:
        tag[0] += 1
        if isinstance(k, tuple) and k[0] == "op":
            ser.append(ops[k[1]])
            if k[1] != "OP_CODESEPARATOR":
                nocs.append(ops[k[1]])
        elif k == "push":
            d = bytes([0xab, tag[0] % 200 + 1, 0xab])
            p = bytes([len(d)]) + d
            ser += p
            nocs += p
        elif isinstance(k, tuple) and k[0] == "pushdata":
            n = {1: 80, 2: 300, 4: 70000}[k[1]]
            d = bytes([0xab]) * n
            hdr = bytes([0x4c, n]) if k[1] == 1 else bytes([0x4d]) + n.to_bytes(2, "little") if k[1] == 2 else bytes([0x4e]) + n.to_bytes(4, "little")
            ser += hdr + d
            nocs += hdr + d
        elif isinstance(k, tuple) and k[0] == "if":
            _, code, ps, fs = k
            a, an = concrete_bits(ps, ops)
            ser.append(ops[code])
            nocs.append(ops[code])
            ser += a
            nocs += an
            if fs is not None:
                b, bn = concrete_bits(fs, ops)
                ser.append(ops["OP_ELSE"])
                nocs.append(ops["OP_ELSE"])
                ser += b
                nocs += bn
            ser.append(ops["OP_ENDIF"])
            nocs.append(ops["OP_ENDIF"])
        else:
            return None, None
    return bytes(ser), bytes(nocs)


def native_script_bits(shape, what):
    from .executor import Program
    ops = native_script_bits.ops
    ser, nocs = concrete_bits(shape, ops)
    if ser is None:
        return {"native": {"skipped": "coinbase scripts are not constructible from bytes"}, "reproduced": False, "request": {}}
    op = {"op": "script_roundtrip", "hex": ser.hex(), "remove_codeseparators": what != "to_bytes"}
    req = {"tx": {"version": 1, "locktime": 0, "inputs": [], "outputs": []}, "ops": [op]}
    nat = {p: C.Native.run(req, p)[0] for p in ("debug", "release")}
    exp = (ser if what == "to_bytes" else nocs).hex()
    return {"native": nat, "request": req, "op_index": 0, "expected": exp, "reproduced": any(v.get("ok") != exp for v in nat.values())}
