"""E2 query for the script tokenizer (C02, parse direction): Script::from_bytes is executed from MIR on the reference serialisation of
structured scripts (every element kind, push-length classes across 75/76 and 255/256, nested conditionals with empty / missing
branches) with symbolic push payloads; the parsed structure must be the script that was serialised.  Truncating the input inside its
last push, or leaving a conditional unclosed, must be an error."""
import json, re
import z3
from .executor import Unsupported, Exec
from .values import *
from .models import MODELS, ok, err, some, NONE, deref, generic_arg
from .models_bip32 import BMODELS
from .txmodel import Ctx
from . import concrete as C
from .queries import QResult, finish, bv_val, MAX_VIOLATIONS

OPB = {"OP_IF": 0x63, "OP_NOTIF": 0x64, "OP_ELSE": 0x67, "OP_ENDIF": 0x68, "OP_DUP": 0x76, "OP_1": 0x51, "OP_0": 0x00, "OP_CHECKSIG": 0xac, "OP_RETURN": 0x6a}


# shapes: ("op", name) | ("push", n) | ("pd1", n) | ("pd2", n) | ("if", code, [pass...], [fail...] | None)
SHAPES = {
    "opcodes": [("op", "OP_DUP"), ("op", "OP_1"), ("op", "OP_CHECKSIG")],
    "push 1 / push 75": [("push", 1), ("push", 75)],
    "pushdata1 76": [("pd1", 76), ("op", "OP_DUP")],
    "pushdata1 255": [("pd1", 255)],
    "pushdata2 256": [("pd2", 256), ("op", "OP_1")],
    "pushdata1 of 3 (non-minimal form)": [("pd1", 3)],
    "if / else": [("if", "OP_IF", [("op", "OP_1")], [("push", 2)]), ("op", "OP_DUP")],
    "notif without else": [("op", "OP_0"), ("if", "OP_NOTIF", [("push", 1)], None)],
    "empty branches": [("if", "OP_IF", [], []), ("if", "OP_IF", [], None)],
    "nested": [("if", "OP_IF", [("if", "OP_NOTIF", [("op", "OP_1")], [("op", "OP_DUP")]), ("push", 1)], [("if", "OP_IF", [], None)])],
    "op_0 then push": [("op", "OP_0"), ("push", 3), ("op", "OP_RETURN")],
    "empty script": [],
}
UNCLOSED = {
    "if without endif": [0x63, 0x51],
    "else without endif": [0x63, 0x51, 0x67, 0x76],
    "nested inner unclosed": [0x63, 0x64, 0x51, 0x68],
}


def serialise(shape, ctx, tag="d"):
    """reference byte layout (list of z3 bv8 / ints) + fills ctx.payloads"""
    out = []
    for el in shape:
        k = el[0]
        if k == "op":
            out.append(z3.BitVecVal(OPB[el[1]], 8))
        elif k in ("push", "pd1", "pd2"):
            n = el[1]
            data = [z3.BitVec(f"{tag}{len(ctx.payloads)}_{i}", 8) for i in range(n)]
            ctx.payloads.append(data)
            if k == "push":
                out.append(z3.BitVecVal(n, 8))
            elif k == "pd1":
                out += [z3.BitVecVal(0x4c, 8), z3.BitVecVal(n, 8)]
            else:
                out += [z3.BitVecVal(0x4d, 8), z3.BitVecVal(n & 0xff, 8), z3.BitVecVal(n >> 8, 8)]
            out += data
        else:
            _, code, p, f = el
            out.append(z3.BitVecVal(OPB[code], 8))
            out += serialise(p, ctx, tag)
            if f is not None:
                out.append(z3.BitVecVal(OPB["OP_ELSE"], 8))
                out += serialise(f, ctx, tag)
            out.append(z3.BitVecVal(OPB["OP_ENDIF"], 8))
    return out


def q_script_parse(env, part="all", name=None):
    """part: "all" | "no_direct_truncation" (everything except inputs cut inside a final DIRECT push) | "direct_truncation" (only those)"""
    qr = QResult(name or f"script_parse_{part}")
    P = env.P
    f = env.fn("script::Script::from_bytes")
    E = P.enums["ScriptBit"]

    # Cursor<&[u8]> = the content-aware cursor of the BIP32 layer plus a partial `read`
    from .models_bip32 import _cur, VCursor

    def m_cursor_read(ex, a, callee, canon):
        c = _cur(a[0])
        tgt = a[1]
        while isinstance(tgt.get(), Ptr):
            tgt = tgt.get()
        items = ex.seq_items(ex.bytes_of(tgt.get()))
        if items is None:
            raise Unsupported("read into a buffer of symbolic length")
        n = min(len(items), max(len(c.items) - c.pos, 0))
        new = c.items[c.pos:c.pos + n] + list(items[n:])
        tgt.set(Bytes(seq_of(new)))
        c.pos += n
        return ok(Int(n, "usize"))
    R = re.compile
    bm = []
    for rx, fn in BMODELS:
        bm.append((R(rx.pattern.replace("Cursor<Vec<u8>>", "Cursor<.*>")), fn))
    SM = [(R(r"^<Cursor<.*> as (std::io::)?Read>::read$"), m_cursor_read)] + bm

    def want_ids(shape, payloads, counter):
        """structure descriptor to compare with: list of tuples"""
        out = []
        for el in shape:
            k = el[0]
            if k == "op":
                out.append(("OpCode", el[1]))
            elif k == "push":
                out.append(("Push", payloads[counter[0]]))
                counter[0] += 1
            elif k in ("pd1", "pd2"):
                out.append(("PushData", "OP_PUSHDATA1" if k == "pd1" else "OP_PUSHDATA2", payloads[counter[0]]))
                counter[0] += 1
            else:
                _, code, p, fl = el
                pp = want_ids(p, payloads, counter)
                ff = want_ids(fl, payloads, counter) if fl is not None else None
                out.append(("If", code, pp, ff))
        return out

    def got_ids(ex, bits):
        out = []
        for b in bits:
            b = deref(b)
            if b.variant == "OpCode":
                out.append(("OpCode", b.f[0].variant))
            elif b.variant == "Push":
                out.append(("Push", ex.seq_items(b.f[0].s)))
            elif b.variant == "PushData":
                out.append(("PushData", b.f[0].variant, ex.seq_items(b.f[1].s)))
            elif b.variant == "If":
                fl = b.f[2]
                out.append(("If", b.f[0].variant, got_ids(ex, b.f[1].f), got_ids(ex, fl.f[0].f) if fl.variant == "Some" else None))
            else:
                out.append((b.variant,))
        return out

    def same(ex, pc, g, w, neq):
        if len(g) != len(w):
            return False
        for x, y in zip(g, w):
            if x[0] != y[0]:
                return False
            if x[0] == "OpCode" and x[1] != y[1]:
                return False
            if x[0] in ("Push", "PushData"):
                if x[0] == "PushData" and x[1] != y[1]:
                    return False
                gx, wy = x[-1], y[-1]
                if gx is None or len(gx) != len(wy):
                    return False
                neq += [p != q for p, q in zip(gx, wy) if p.get_id() != q.get_id()]
            if x[0] == "If":
                if x[1] != y[1] or (x[3] is None) != (y[3] is None):
                    return False
                if not same(ex, pc, x[2], y[2], neq):
                    return False
                if x[3] is not None and not same(ex, pc, x[3], y[3], neq):
                    return False
        return True

    def native(raw):
        req = {"tx": {"version": 1, "locktime": 0, "inputs": [], "outputs": []}, "ops": [{"op": "script_roundtrip", "hex": raw.hex()}]}
        return req, {p: C.Native.run(req, p)[0] for p in ("debug", "release")}

    def concrete_bytes(m, units):
        return bytes((m.eval(u, model_completion=True).as_long() if m is not None else (z3.simplify(u).as_long() if z3.is_bv_value(z3.simplify(u)) else 0x11)) for u in units)

    def run_case(label, units, ctx_payloads, expect, what):
        """expect: ('parse', shape) | ('err', reason)"""
        qr.cases += 1
        ex = Exec(P, SM + MODELS, max_paths=3000)

        def setup(ex):
            ctx = Ctx()
            return f, [Ptr([Bytes(seq_of(units))], 0)], ctx
        try:
            res = ex.explore(setup)
        except Unsupported as e:
            qr.undecided.append(f"{label}: {e}")
            return
        for r in res:
            qr.paths += 1
            bad, neq = None, []
            if r.kind != "ok":
                bad = f"{r.kind}: {r.msg.split(' @')[0][:70]}"
            elif expect[0] == "err":
                if r.ret.variant == "Ok":
                    bad = what
            else:
                if r.ret.variant != "Ok":
                    bad = "a well-formed script is rejected"
                else:
                    g = got_ids(ex, r.ret.f[0].f[0].f)
                    w = want_ids(expect[1], ctx_payloads, [0])
                    if not same(ex, r.pc, g, w, neq):
                        bad = "the parsed element sequence is not the script that was serialised (element kinds, push opcode, payload length or conditional nesting differ)"
                    elif neq:
                        s = z3.Solver()
                        for cnd in r.pc:
                            s.add(cnd)
                        s.add(z3.Or(*neq))
                        qr.queries += 1
                        if s.check() == z3.sat:
                            bad = "a push payload differs from the bytes in the input"
            if bad is None:
                continue
            s = z3.Solver()
            for cnd in r.pc:
                s.add(cnd)
            qr.queries += 1
            if s.check() != z3.sat:
                continue
            raw = concrete_bytes(s.model(), units)
            req, nat = native(raw)
            msg = f"script [{label}]: {bad}"
            item = {"message": msg, "request": req, "op_index": 0, "expected": ("error" if expect[0] == "err" else raw.hex()), "native": nat}
            if expect[0] == "err":
                rep = any("ok" in v for v in nat.values())
            else:
                rep = any(v.get("ok") != raw.hex() for v in nat.values())
            if rep:
                if len(qr.violations) < MAX_VIOLATIONS + 4 and not any(v["message"] == msg for v in qr.violations):
                    qr.violations.append(item)
            else:
                qr.undecided.append(msg + " — not reproduced natively: " + json.dumps(nat)[:200])
        finish(qr, ex)

    for label, shape in SHAPES.items():
        ctx = Ctx()
        ctx.payloads = []
        units = serialise(shape, ctx)
        if part != "direct_truncation":
            run_case(label, units, ctx.payloads, ("parse", shape), "")
        # truncation inside the last push (if the script ends in one): 1 byte short and payload entirely missing
        last = shape[-1] if shape else None
        if last and last[0] in ("push", "pd1", "pd2"):
            n = last[1]
            kind = "direct push" if last[0] == "push" else "OP_PUSHDATA push"
            if (part == "no_direct_truncation" and last[0] == "push") or (part == "direct_truncation" and last[0] != "push"):
                continue
            for cut in sorted({1, n}):
                run_case(f"{label}, last push cut by {cut} byte(s)", units[:len(units) - cut], ctx.payloads, ("err", None),
                         f"truncated {kind}: the last push declares {n} bytes but only {n - cut} remain, and the script is accepted (silently shortened) instead of rejected")
    for label, raw in (UNCLOSED.items() if part != "direct_truncation" else ()):
        run_case(label, [z3.BitVecVal(b, 8) for b in raw], [], ("err", None), "a conditional block that is never closed is accepted")
    qr.samples.append({"obligation": qr.name, "shapes": list(SHAPES), "unclosed": list(UNCLOSED)})
    return qr


# ----------------------------------------------------------------------------- exhaustive element-class sequences (C02)
def q_script_enum(env, max_elems=2, name=None):
    """Script::from_bytes on EVERY sequence of at most `max_elems` elements drawn from an alphabet of element classes (OP_0, direct
    pushes of 1 and 2 bytes, OP_PUSHDATA1 with 0 and 1 bytes, OP_PUSHDATA2 / OP_PUSHDATA4 with 1 byte, OP_IF, OP_NOTIF, OP_ELSE,
    OP_ENDIF, an ordinary opcode, a byte that is no opcode), all payload bytes symbolic, plus every cut inside a final OP_PUSHDATA
    element.  Oracle (an independent tokenizer over the class sequence): (1) whenever the input is accepted, the serialisation order
    of the parsed structure is exactly the input bytes (nothing altered, dropped, padded or re-nested differently); (2) a balanced,
    well-formed sequence must be accepted; (3) an unclosed conditional or a truncated final OP_PUSHDATA push must be rejected.
    Stray OP_ELSE / OP_ENDIF, a second OP_ELSE and non-opcode bytes may be accepted or rejected (only (1) applies).  Inputs whose
    final element is a truncated DIRECT push belong to the open known finding (c02_truncated_direct_push) and are not generated."""
    import itertools
    qr = QResult(name or f"script_enum_{max_elems}")
    P = env.P
    f = env.fn("script::Script::from_bytes")
    OPS = P.enums["OpCodes"]
    known = set(OPS.values())
    non_op = next(b for b in range(0xff, 0x4e, -1) if b not in known)
    from .models_bip32 import _cur

    def m_cursor_read(ex, a, callee, canon):
        c = _cur(a[0])
        tgt = a[1]
        while isinstance(tgt.get(), Ptr):
            tgt = tgt.get()
        items = ex.seq_items(ex.bytes_of(tgt.get()))
        if items is None:
            raise Unsupported("read into a buffer of symbolic length")
        n = min(len(items), max(len(c.items) - c.pos, 0))
        new = c.items[c.pos:c.pos + n] + list(items[n:])
        tgt.set(Bytes(seq_of(new)))
        c.pos += n
        return ok(Int(n, "usize"))
    R = re.compile
    SM = [(R(r"^<Cursor<.*> as (std::io::)?Read>::read$"), m_cursor_read)] + [(R(rx.pattern.replace("Cursor<Vec<u8>>", "Cursor<.*>")), fn) for rx, fn in BMODELS]
    bv = lambda v: z3.BitVecVal(v, 8)
    # class -> (header bytes, payload length, kind)
    CLASSES = {"OP_0": ([0x00], 0, "op"), "push1": ([0x01], 1, "push"), "push2": ([0x02], 2, "push"), "pd1_0": ([0x4c, 0x00], 0, "pd"), "pd1_1": ([0x4c, 0x01], 1, "pd"),
               "pd2_1": ([0x4d, 0x01, 0x00], 1, "pd"), "pd4_1": ([0x4e, 0x01, 0x00, 0x00, 0x00], 1, "pd"), "IF": ([0x63], 0, "if"), "NOTIF": ([0x64], 0, "if"),
               "ELSE": ([0x67], 0, "else"), "ENDIF": ([0x68], 0, "endif"), "DUP": ([0x76], 0, "op"), "nonop": ([non_op], 0, "nonop")}
    names = {v: k for k, v in OPS.items()}

    def flat(ex, bits):
        """serialisation order of a parsed structure as a list of z3 bytes (None when a payload has no concrete length)"""
        out = []
        for b in bits:
            b = deref(b)
            if b.variant == "OpCode":
                out.append(bv(deref(b.f[0]).discr))
            elif b.variant == "Push":
                it = ex.seq_items(b.f[0].s)
                if it is None or len(it) > 75:
                    return None
                out += [bv(len(it))] + list(it)
            elif b.variant == "PushData":
                it = ex.seq_items(b.f[1].s)
                code = deref(b.f[0]).discr
                if it is None:
                    return None
                w = {0x4c: 1, 0x4d: 2, 0x4e: 4}.get(code)
                if w is None:
                    return None
                out += [bv(code)] + [bv((len(it) >> (8 * i)) & 0xff) for i in range(w)] + list(it)
            elif b.variant == "If":
                fl = deref(b.f[2])
                p = flat(ex, deref(b.f[1]).f)
                if p is None:
                    return None
                out += [bv(deref(b.f[0]).discr)] + p
                if fl.variant == "Some":
                    q = flat(ex, deref(fl.f[0]).f)
                    if q is None:
                        return None
                    out += [bv(0x67)] + q
                out.append(bv(0x68))
            else:
                return None
        return out

    def classify(seq):
        """independent tokenizer verdict for an UNCUT class sequence: 'accept' | 'reject' | 'either'"""
        stack = []   # per open conditional: has_else
        verdict = "accept"
        for cl in seq:
            k = CLASSES[cl][2]
            if k == "nonop":
                verdict = "either"
            elif k == "if":
                stack.append(False)
            elif k == "else":
                if not stack or stack[-1]:
                    verdict = "either"
                    if not stack:
                        continue
                stack[-1] = True
            elif k == "endif":
                if not stack:
                    verdict = "either"
                    continue
                stack.pop()
        if stack and verdict == "accept":
            return "reject"     # a conditional block that is never closed
        return verdict

    def native(raw):
        req = {"tx": {"version": 1, "locktime": 0, "inputs": [], "outputs": []}, "ops": [{"op": "script_roundtrip", "hex": raw.hex()}]}
        return req, {p: C.Native.run(req, p)[0] for p in ("debug", "release")}

    f_ser = env.fn("script::Script::to_bytes")

    def run_case(label, units, expect):
        qr.cases += 1
        ex = Exec(P, SM + MODELS, max_paths=400)

        def setup(ex):
            ctx = Ctx()
            ctx.reser = None
            ex._ctx = ctx
            return "__parse_then_serialise__", [Ptr([Bytes(seq_of(units))], 0)], ctx
        orig = ex.call_fn

        def call_fn(name_, args, ex=ex, orig=orig):
            if name_ != "__parse_then_serialise__":
                return orig(name_, args)
            # the REAL serialiser runs on whatever the real parser returned, on the same path
            r0 = orig(f, args)
            if r0.variant == "Ok":
                ex._ctx.reser = orig(f_ser, [Ptr([r0.f[0]], 0)])
            return r0
        ex.call_fn = call_fn
        try:
            res = ex.explore(setup)
        except Unsupported as e:
            qr.undecided.append(f"script classes [{label}]: {e}")
            return
        for r in res:
            qr.paths += 1
            bad, neq = None, []
            if r.kind != "ok":
                bad = f"{r.kind}: {r.msg.split(' @')[0][:70]}"
            elif r.ret.variant == "Ok":
                if expect == "reject":
                    bad = "an unclosed conditional or a truncated final OP_PUSHDATA push is accepted instead of rejected"
                else:
                    g = flat(ex, r.ret.f[0].f[0].f)
                    rs = ex.seq_items(deref(r.ctx.reser).s) if r.ctx.reser is not None else None
                    if rs is None or len(rs) != len(units) or any(z3.simplify(x != y) is not None and z3.is_true(z3.simplify(x != y)) for x, y in zip(rs, units)):
                        bad = "accepted, but Script::to_bytes of the parsed script is not the input byte string"
                    elif g is None or len(g) != len(units):
                        bad = "accepted, but the parsed structure does not serialise back to the input bytes (an element was altered, dropped, padded or nested differently)"
                    else:
                        for x, y in zip(g, units):
                            if x.get_id() == y.get_id():
                                continue
                            xs, ys = z3.simplify(x), z3.simplify(y)
                            if z3.is_bv_value(xs) and z3.is_bv_value(ys):
                                if xs.as_long() != ys.as_long():
                                    bad = "accepted, but the parsed structure does not serialise back to the input bytes (an element was altered, dropped, padded or nested differently)"
                                    break
                            else:
                                neq.append(x != y)
                        if bad is None:
                            neq += [x != y for x, y in zip(rs, units) if x.get_id() != y.get_id()]
                        if bad is None and neq:
                            s = z3.Solver()
                            for cnd in r.pc:
                                s.add(cnd)
                            s.add(z3.Or(*neq))
                            qr.queries += 1
                            if s.check() == z3.sat:
                                bad = "accepted, but a push payload (in the parsed structure or in Script::to_bytes of it) differs from the bytes in the input"
            elif expect == "accept":
                bad = "a well-formed script is rejected"
            if bad is None:
                continue
            s = z3.Solver()
            for cnd in r.pc:
                s.add(cnd)
            if neq and "payload" in bad:
                s.add(z3.Or(*neq))
            qr.queries += 1
            if s.check() != z3.sat:
                continue
            m = s.model()
            raw = bytes(m.eval(u, model_completion=True).as_long() for u in units)
            req, nat = native(raw)
            msg = f"script classes [{label}]: {bad}"
            item = {"message": msg, "request": req, "op_index": 0, "expected": ("error" if expect == "reject" else raw.hex() if expect == "accept" else "error or " + raw.hex()), "native": nat}
            if expect == "reject":
                rep = any("ok" in v for v in nat.values())
            elif expect == "accept":
                rep = any(v.get("ok") != raw.hex() for v in nat.values())
            else:
                rep = any("ok" in v and v.get("ok") != raw.hex() for v in nat.values()) or any("panic" in v for v in nat.values())
            if rep:
                if len(qr.violations) < MAX_VIOLATIONS and not any(v["message"] == msg for v in qr.violations):
                    qr.violations.append(item)
            else:
                qr.undecided.append(msg + " — not reproduced natively: " + json.dumps(nat)[:200])
        finish(qr, ex)

    n_seq = 0
    for k in range(0, max_elems + 1):
        for seq in itertools.product(CLASSES, repeat=k):
            n_seq += 1
            units, cnt = [], 0
            for cl in seq:
                hdr, n, _ = CLASSES[cl]
                units += [bv(b) for b in hdr] + [z3.BitVec(f"p{cnt}_{i}", 8) for i in range(n)]
                cnt += 1
            label = " ".join(seq) if seq else "(empty)"
            run_case(label, units, classify(seq))
            # every cut inside a final OP_PUSHDATA element (header incomplete, or payload missing)
            if seq and CLASSES[seq[-1]][2] == "pd" and all(CLASSES[c][2] != "nonop" for c in seq[:-1]):
                hdr, n, _ = CLASSES[seq[-1]]
                for cut in range(1, len(hdr) + n):
                    if cut >= len(hdr) + n:
                        continue
                    run_case(f"{label}, cut by {cut} byte(s)", units[:len(units) - cut], "reject")
    qr.samples.append({"obligation": qr.name, "classes": list(CLASSES), "sequences": n_seq, "max_elements": max_elems, "non_opcode_byte": non_op})
    return qr
