"""E2 query for the script tokenizer (C02, parse direction): Script::from_bytes is executed from MIR on the reference serialisation of
structured scripts (every element kind, push-length classes across 75/76 and 255/256, nested conditionals with empty / missing
branches) with symbolic push payloads; the parsed structure must be the script that was serialised.  Truncating the input inside its
last push, or leaving a conditional unclosed, must be an error."""
import json, re
import z3
from .executor import Unsupported, Exec
from .values import *
from .models import MODELS, ok, err, some, NONE, deref, generic_arg
from .models_bip32 import BMODELS
from .txmodel import Ctx
from . import concrete as C
from .queries import QResult, finish, bv_val, MAX_VIOLATIONS

OPB = {"OP_IF": 0x63, "OP_NOTIF": 0x64, "OP_ELSE": 0x67, "OP_ENDIF": 0x68, "OP_DUP": 0x76, "OP_1": 0x51, "OP_0": 0x00, "OP_CHECKSIG": 0xac, "OP_RETURN": 0x6a}


# shapes: ("op", name) | ("push", n) | ("pd1", n) | ("pd2", n) | ("if", code, [pass...], [fail...] | None)
SHAPES = {
    "opcodes": [("op", "OP_DUP"), ("op", "OP_1"), ("op", "OP_CHECKSIG")],
    "push 1 / push 75": [("push", 1), ("push", 75)],
    "pushdata1 76": [("pd1", 76), ("op", "OP_DUP")],
    "pushdata1 255": [("pd1", 255)],
    "pushdata2 256": [("pd2", 256), ("op", "OP_1")],
    "pushdata1 of 3 (non-minimal form)": [("pd1", 3)],
    "if / else": [("if", "OP_IF", [("op", "OP_1")], [("push", 2)]), ("op", "OP_DUP")],
    "notif without else": [("op", "OP_0"), ("if", "OP_NOTIF", [("push", 1)], None)],
    "empty branches": [("if", "OP_IF", [], []), ("if", "OP_IF", [], None)],
    "nested": [("if", "OP_IF", [("if", "OP_NOTIF", [("op", "OP_1")], [("op", "OP_DUP")]), ("push", 1)], [("if", "OP_IF", [], None)])],
    "op_0 then push": [("op", "OP_0"), ("push", 3), ("op", "OP_RETURN")],
    "empty script": [],
}
UNCLOSED = {
    "if without endif": [0x63, 0x51],
    "else without endif": [0x63, 0x51, 0x67, 0x76],
    "nested inner unclosed": [0x63, 0x64, 0x51, 0x68],
}


def serialise(shape, ctx, tag="d"):
    """reference byte layout (list of z3 bv8 / ints) + fills ctx.payloads"""
    out = []
    for el in shape:
        k = el[0]
        if k == "op":
            out.append(z3.BitVecVal(OPB[el[1]], 8))
        elif k in ("push", "pd1", "pd2"):
            n = el[1]
            data = [z3.BitVec(f"{tag}{len(ctx.payloads)}_{i}", 8) for i in range(n)]
            ctx.payloads.append(data)
            if k == "push":
                out.append(z3.BitVecVal(n, 8))
            elif k == "pd1":
                out += [z3.BitVecVal(0x4c, 8), z3.BitVecVal(n, 8)]
            else:
                out += [z3.BitVecVal(0x4d, 8), z3.BitVecVal(n & 0xff, 8), z3.BitVecVal(n >> 8, 8)]
            out += data
        else:
            _, code, p, f = el
            out.append(z3.BitVecVal(OPB[code], 8))
            out += serialise(p, ctx, tag)
            if f is not None:
                out.append(z3.BitVecVal(OPB["OP_ELSE"], 8))
                out += serialise(f, ctx, tag)
            out.append(z3.BitVecVal(OPB["OP_ENDIF"], 8))
    return out


def q_script_parse(env, part="all", name=None):
    """part: "all" | "no_direct_truncation" (everything except inputs cut inside a final DIRECT push) | "direct_truncation" (only those)"""
    qr = QResult(name or f"script_parse_{part}")
    P = env.P
    f = env.fn("script::Script::from_bytes")
    E = P.enums["ScriptBit"]

    # Cursor<&[u8]> = the content-aware cursor of the BIP32 layer plus a partial `read`
    from .models_bip32 import _cur, VCursor

    def m_cursor_read(ex, a, callee, canon):
        c = _cur(a[0])
        tgt = a[1]
        while isinstance(tgt.get(), Ptr):
            tgt = tgt.get()
        items = ex.seq_items(ex.bytes_of(tgt.get()))
        if items is None:
            raise Unsupported("read into a buffer of symbolic length")
        n = min(len(items), max(len(c.items) - c.pos, 0))
        new = c.items[c.pos:c.pos + n] + list(items[n:])
        tgt.set(Bytes(seq_of(new)))
        c.pos += n
        return ok(Int(n, "usize"))
    R = re.compile
    bm = []
    for rx, fn in BMODELS:
        bm.append((R(rx.pattern.replace("Cursor<Vec<u8>>", "Cursor<.*>")), fn))
    SM = [(R(r"^<Cursor<.*> as (std::io::)?Read>::read$"), m_cursor_read)] + bm

    def want_ids(shape, payloads, counter):
        """structure descriptor to compare with: list of tuples"""
        out = []
        for el in shape:
            k = el[0]
            if k == "op":
                out.append(("OpCode", el[1]))
            elif k == "push":
                out.append(("Push", payloads[counter[0]]))
                counter[0] += 1
            elif k in ("pd1", "pd2"):
                out.append(("PushData", "OP_PUSHDATA1" if k == "pd1" else "OP_PUSHDATA2", payloads[counter[0]]))
                counter[0] += 1
            else:
                _, code, p, fl = el
                pp = want_ids(p, payloads, counter)
                ff = want_ids(fl, payloads, counter) if fl is not None else None
                out.append(("If", code, pp, ff))
        return out

    def got_ids(ex, bits):
        out = []
        for b in bits:
            b = deref(b)
            if b.variant == "OpCode":
                out.append(("OpCode", b.f[0].variant))
            elif b.variant == "Push":
                out.append(("Push", ex.seq_items(b.f[0].s)))
            elif b.variant == "PushData":
                out.append(("PushData", b.f[0].variant, ex.seq_items(b.f[1].s)))
            elif b.variant == "If":
                fl = b.f[2]
                out.append(("If", b.f[0].variant, got_ids(ex, b.f[1].f), got_ids(ex, fl.f[0].f) if fl.variant == "Some" else None))
            else:
                out.append((b.variant,))
        return out

    def same(ex, pc, g, w, neq):
        if len(g) != len(w):
            return False
        for x, y in zip(g, w):
            if x[0] != y[0]:
                return False
            if x[0] == "OpCode" and x[1] != y[1]:
                return False
            if x[0] in ("Push", "PushData"):
                if x[0] == "PushData" and x[1] != y[1]:
                    return False
                gx, wy = x[-1], y[-1]
                if gx is None or len(gx) != len(wy):
                    return False
                neq += [p != q for p, q in zip(gx, wy) if p.get_id() != q.get_id()]
            if x[0] == "If":
                if x[1] != y[1] or (x[3] is None) != (y[3] is None):
                    return False
                if not same(ex, pc, x[2], y[2], neq):
                    return False
                if x[3] is not None and not same(ex, pc, x[3], y[3], neq):
                    return False
        return True

    def native(raw):
        req = {"tx": {"version": 1, "locktime": 0, "inputs": [], "outputs": []}, "ops": [{"op": "script_roundtrip", "hex": raw.hex()}]}
        return req, {p: C.Native.run(req, p)[0] for p in ("debug", "release")}

    def concrete_bytes(m, units):
        return bytes((m.eval(u, model_completion=True).as_long() if m is not None else (z3.simplify(u).as_long() if z3.is_bv_value(z3.simplify(u)) else 0x11)) for u in units)

    def run_case(label, units, ctx_payloads, expect, what):
        """expect: ('parse', shape) | ('err', reason)"""
        qr.cases += 1
        ex = Exec(P, SM + MODELS, max_paths=3000)

        def setup(ex):
            ctx = Ctx()
            return f, [Ptr([Bytes(seq_of(units))], 0)], ctx
        try:
            res = ex.explore(setup)
        except Unsupported as e:
            qr.undecided.append(f"{label}: {e}")
            return
        for r in res:
            qr.paths += 1
            bad, neq = None, []
            if r.kind != "ok":
                bad = f"{r.kind}: {r.msg.split(' @')[0][:70]}"
            elif expect[0] == "err":
                if r.ret.variant == "Ok":
                    bad = what
            else:
                if r.ret.variant != "Ok":
                    bad = "a well-formed script is rejected"
                else:
                    g = got_ids(ex, r.ret.f[0].f[0].f)
                    w = want_ids(expect[1], ctx_payloads, [0])
                    if not same(ex, r.pc, g, w, neq):
                        bad = "the parsed element sequence is not the script that was serialised (element kinds, push opcode, payload length or conditional nesting differ)"
                    elif neq:
                        s = z3.Solver()
                        for cnd in r.pc:
                            s.add(cnd)
                        s.add(z3.Or(*neq))
                        qr.queries += 1
                        if s.check() == z3.sat:
                            bad = "a push payload differs from the bytes in the input"
            if bad is None:
                continue
            s = z3.Solver()
            for cnd in r.pc:
                s.add(cnd)
            qr.queries += 1
            if s.check() != z3.sat:
                continue
            raw = concrete_bytes(s.model(), units)
            req, nat = native(raw)
            msg = f"script [{label}]: {bad}"
            item = {"message": msg, "request": req, "op_index": 0, "expected": ("error" if expect[0] == "err" else raw.hex()), "native": nat}
            if expect[0] == "err":
                rep = any("ok" in v for v in nat.values())
            else:
                rep = any(v.get("ok") != raw.hex() for v in nat.values())
            if rep:
                if len(qr.violations) < MAX_VIOLATIONS + 4 and not any(v["message"] == msg for v in qr.violations):
                    qr.violations.append(item)
            else:
                qr.undecided.append(msg + " — not reproduced natively: " + json.dumps(nat)[:200])
        finish(qr, ex)

    for label, shape in SHAPES.items():
        ctx = Ctx()
        ctx.payloads = []
        units = serialise(shape, ctx)
        if part != "direct_truncation":
            run_case(label, units, ctx.payloads, ("parse", shape), "")
        # truncation inside the last push (if the script ends in one): 1 byte short and payload entirely missing
        last = shape[-1] if shape else None
        if last and last[0] in ("push", "pd1", "pd2"):
            n = last[1]
            kind = "direct push" if last[0] == "push" else "OP_PUSHDATA push"
            if (part == "no_direct_truncation" and last[0] == "push") or (part == "direct_truncation" and last[0] != "push"):
                continue
            for cut in sorted({1, n}):
                run_case(f"{label}, last push cut by {cut} byte(s)", units[:len(units) - cut], ctx.payloads, ("err", None),
                         f"truncated {kind}: the last push declares {n} bytes but only {n - cut} remain, and the script is accepted (silently shortened) instead of rejected")
    for label, raw in (UNCLOSED.items() if part != "direct_truncation" else ()):
        run_case(label, [z3.BitVecVal(b, 8) for b in raw], [], ("err", None), "a conditional block that is never closed is accepted")
    qr.samples.append({"obligation": qr.name, "shapes": list(SHAPES), "unclosed": list(UNCLOSED)})
    return qr
