"""E2 query for the ECDSA glue (C05): which message scalar and nonce reach the signing primitive from every signing entry point, what
the verifier checks, what the returned Signature carries.  The primitives themselves (scalar reduction, RFC 6979, sign, verify,
recovery id, Diffie-Hellman) are uninterpreted."""
import json, re
import z3
from .executor import Unsupported, Exec
from .values import *
from .models import MODELS, uf, ok, err, some, NONE, deref
from .executor import PathPanic
from .models_hash import HMODELS
from .models_sign import SMODELS, REDUCE, VERIFY, POINT_VALID, B256, SIGBV
from .txmodel import Ctx, sym_bytes
from . import concrete as C
from . import seqeq as SE
from .queries import QResult, finish, MAX_VIOLATIONS


def SHA256(seq):
    return be_bytes(uf("SHA256", SEQ, z3.BitVecSort(256))(seq), 32)


def H(algo, msg):
    h1 = SHA256(msg)
    return h1 if algo == "Sha256" else SHA256(seq_of(h1))


def native_ecdsa():
    ops = [{"op": "ecdsa_check", "key": (b"\x00" * 31 + b"\xa7").hex(), "message": b"hello".hex()},
           {"op": "ecdsa_check", "key": "fffffffffffffffffffffffffffffffebaaedce6af48a03bbfd25e8cd0364140", "message": "", "compressed": False}]
    req = {"tx": {"version": 1, "locktime": 0, "inputs": [], "outputs": []}, "ops": ops}
    nat = {p: C.Native.run(req, p) for p in ("debug", "release")}
    return req, nat


def q_ecdsa_glue(env, name=None):
    qr = QResult(name or "ecdsa_glue")
    P = env.P
    base = [m for m in MODELS if not m[1].__name__.startswith(("m_sha256", "m_sha256d", "m_hash160", "m_sha512", "m_ripemd160", "m_sha1"))]
    S = P.structs

    def mk(name_, **kw):
        f = [None] * len(S[name_])
        for k, v in kw.items():
            f[S[name_].index(k)] = v
        assert all(x is not None for x in f), (name_, S[name_])
        return Struct(name_, f)

    def fld(v, name_, k):
        return v.f[S[name_].index(k)]

    def new_exec():
        return Exec(P, SMODELS + HMODELS + base)

    _nat = {}

    def report(what, needle=None):
        """needle: substring that must occur in a native problem line for the violation to count as reproduced"""
        if len(qr.violations) >= MAX_VIOLATIONS or any(v["message"] == what for v in qr.violations):
            return
        if "r" not in _nat:
            _nat["r"] = native_ecdsa()
        req, nat = _nat["r"]
        probs = [p for v in nat.values() for o in v for p in (o.get("ok", {}).get("problems", ["tool error: " + json.dumps(o)[:200]]) if isinstance(o, dict) else ["tool error"])]
        hit = [p for p in probs if needle is None or needle in p]
        item = {"message": what, "request": req, "op_index": 0, "expected": {"problems": []}, "native": nat, "reproduced": bool(hit)}
        if hit:
            qr.violations.append(item)
        else:
            qr.undecided.append(what + " — not reproduced natively (native problems: " + json.dumps(probs)[:200] + ")")

    def sat(pc, *extra):
        st = {}
        r = SE.check_sat(list(pc), list(extra), st)
        qr.queries += st.get("queries", 0)
        qr.solver_s += st.get("solver_s", 0.0)
        if r == z3.unknown:
            qr.undecided.append("solver unknown")
        return r

    def priv(nm):
        d = z3.BitVec(nm, 256)
        fl = z3.Bool(nm + "_compressed")
        return mk("PrivateKey", secret_key=Opaque("SecretKey", d), is_pub_key_compressed=Bool(fl)), d, fl

    def algo_enum(a):
        return Enum("SigningHash", a, P.enums["SigningHash"][a])

    def logged(r, kind):
        return [kw for (nm, kw) in getattr(r, "recorded", []) if nm == kind and isinstance(kw, dict)]

    def check_signature_value(r, what, d, flag, needle):
        """the returned Signature carries the primitive's signature for (d, k, z) of the single recorded sign call, and recovery info from its recid"""
        sg = logged(r, "sign")
        if len(sg) != 1:
            report(f"{what}: the signing primitive is called {len(sg)} times on a successful path", needle)
            return None
        sig = r.ret.f[0]
        got = fld(sig, "Signature", "sig")
        want = z3.Concat(sg[0]["d"], sg[0]["k"], sg[0]["z"])
        if not (isinstance(got, Opaque) and got.tag == "EcdsaSig") or sat(r.pc, got.payload != want) != z3.unsat:
            report(f"{what}: the returned signature is not the primitive's output", needle)
        if sat(r.pc, sg[0]["d"] != d) != z3.unsat:
            report(f"{what}: the primitive is not called with the signer's private scalar", needle)
        rec = fld(sig, "Signature", "recovery")
        if rec.variant != "Some":
            report(f"{what}: no recovery info", needle)
        else:
            ri = rec.f[0]
            bad = z3.Or(fld(ri, "RecoveryInfo", "is_y_odd").t != uf("RECID_Y_ODD", SIGBV, z3.BoolSort())(want),
                        fld(ri, "RecoveryInfo", "is_x_reduced").t != uf("RECID_X_REDUCED", SIGBV, z3.BoolSort())(want),
                        fld(ri, "RecoveryInfo", "is_pubkey_compressed").t != flag)
            if sat(r.pc, bad) != z3.unsat:
                report(f"{what}: recovery info is not (recid.y_odd, recid.x_reduced, key compression flag)", needle)
        return sg[0]

    def run(fname, setup, what):
        ex = new_exec()
        qr.cases += 1
        try:
            res = ex.explore(setup)
        except Unsupported as e:
            qr.undecided.append(f"{what}: {e}")
            res = []
        finish(qr, ex)
        return res

    # ---- message signers
    f_det = env.fn("ecdsa::sign::ECDSA::sign_with_deterministic_k_impl")
    f_rnd = env.fn("ecdsa::sign::ECDSA::sign_with_random_k_impl")
    f_wk = env.fn("ecdsa::sign::ECDSA::sign_with_k_impl")
    f_dg = env.fn("ecdsa::sign::ECDSA::sign_digest_with_deterministic_k_impl")
    for algo in ("Sha256", "Sha256d"):
        for rev in (False, True):
            for kind, f in (("deterministic", f_det), ("random", f_rnd)):
                what = f"sign_with_{kind}_k ({algo}, reverse_k={rev})"
                needle = f"{algo} {kind}(reverse_k={str(rev).lower()})"

                def setup(ex, f=f, algo=algo, rev=rev):
                    ctx = Ctx()
                    ctx.sk, ctx.d, ctx.flag = priv("signer_secret")
                    ctx.msg, _ = sym_bytes(ex, ctx, "message")
                    return f, [Ptr([ctx.sk], 0), Ptr([Bytes(ctx.msg)], 0), algo_enum(algo), Bool(rev)], ctx
                for r in run(f, setup, what):
                    qr.paths += 1
                    c = r.ctx
                    dig = H(algo, c.msg)
                    z = REDUCE(z3.Concat(*dig))
                    ok_cond = None
                    if r.kind != "ok":
                        report(f"{what}: {r.kind} {r.msg}", needle)
                        continue
                    if r.ret.variant != "Ok":
                        sg = logged(r, "sign")
                        if not sg or sat(r.pc, uf("SIGN_PRIMITIVE_OK", B256, B256, B256, z3.BoolSort())(sg[0]["d"], sg[0]["k"], sg[0]["z"])) != z3.unsat:
                            report(f"{what}: fails although the signing primitive succeeds", needle)
                        continue
                    sg = check_signature_value(r, what, c.d, c.flag, needle)
                    if sg is None:
                        continue
                    if sat(r.pc, sg["z"] != z) != z3.unsat:
                        report(f"{what}: the message scalar handed to the signing primitive is not the big-endian reduction of {algo}(message) - the verifier, which uses that value, rejects the signature", needle)
                    ks = logged(r, "rfc6979")
                    if len(ks) != 1 or sat(r.pc, ks[0]["k"] != sg["k"]) != z3.unsat:
                        report(f"{what}: the nonce is not the output of the RFC 6979 generator", needle)
                        continue
                    kk = ks[0]
                    if sat(r.pc, kk["x"] != c.d) != z3.unsat:
                        report(f"{what}: RFC 6979 is not keyed with the signer's private scalar", needle)
                    if kind == "deterministic":
                        hbytes = list(reversed(dig)) if rev else dig
                        if kk["digest"] != "Sha256r":
                            report(f"{what}: RFC 6979 runs over {kk['digest']} instead of the crate's SHA-256 engine", needle)
                        if sat(r.pc, kk["h"] != REDUCE(z3.Concat(*hbytes))) != z3.unsat:
                            report(f"{what}: RFC 6979 is not fed the {'byte-reversed ' if rev else ''}message digest", needle)
                        if ex_items_nonempty(kk["entropy"]):
                            report(f"{what}: deterministic signing uses additional entropy", needle)

    def _dummy():
        pass

    # ---- caller-supplied nonce
    for algo in ("Sha256", "Sha256d"):
        what = f"sign_with_k ({algo})"
        needle = f"{algo} with_k"

        def setup_k(ex, algo=algo):
            ctx = Ctx()
            ctx.sk, ctx.d, ctx.flag = priv("signer_secret")
            ctx.ek, ctx.k, _ = priv("nonce_secret")
            ctx.msg, _ = sym_bytes(ex, ctx, "message")
            return f_wk, [Ptr([ctx.sk], 0), Ptr([ctx.ek], 0), Ptr([Bytes(ctx.msg)], 0), algo_enum(algo)], ctx
        for r in run(f_wk, setup_k, what):
            qr.paths += 1
            c = r.ctx
            if r.kind != "ok":
                report(f"{what}: {r.kind} {r.msg}", needle)
                continue
            if r.ret.variant != "Ok":
                continue
            sg = check_signature_value(r, what, c.d, c.flag, needle)
            if sg is None:
                continue
            if sat(r.pc, sg["z"] != REDUCE(z3.Concat(*H(algo, c.msg)))) != z3.unsat:
                report(f"{what}: the message scalar is not the big-endian reduction of {algo}(message)", needle)
            if sat(r.pc, sg["k"] != c.k) != z3.unsat:
                report(f"{what}: the nonce is not the caller's", needle)

    # ---- pre-hashed digest
    what = "sign_digest_with_deterministic_k"

    def setup_d(ex):
        ctx = Ctx()
        ctx.sk, ctx.d, ctx.flag = priv("signer_secret")
        ctx.dg = [z3.BitVec(f"digest_{i}", 8) for i in range(32)]
        return f_dg, [Ptr([ctx.sk], 0), Ptr([Arr([Int(t, "u8") for t in ctx.dg])], 0)], ctx
    for r in run(f_dg, setup_d, what):
        qr.paths += 1
        c = r.ctx
        if r.kind != "ok":
            report(f"{what}: {r.kind} {r.msg}", "digest signer")
            continue
        if r.ret.variant != "Ok":
            continue
        sg = check_signature_value(r, what, c.d, c.flag, "digest signer")
        if sg is None:
            continue
        z = REDUCE(z3.Concat(*c.dg))
        if sat(r.pc, sg["z"] != z) != z3.unsat:
            report(f"{what}: the message scalar is not the big-endian reduction of the digest", "digest signer")
        ks = logged(r, "rfc6979")
        if len(ks) != 1 or sat(r.pc, z3.Or(ks[0]["k"] != sg["k"], ks[0]["x"] != c.d, ks[0]["h"] != z)) != z3.unsat or ks[0]["digest"] != "Sha256r" or ex_items_nonempty(ks[0]["entropy"]):
            report(f"{what}: the nonce is not RFC 6979 (SHA-256) of (private scalar, message scalar) without extra entropy", "digest signer")

    # ---- verifiers
    f_vd = env.fn("ecdsa::verify::ECDSA::verify_digest_impl")
    f_vh = env.fn("ecdsa::verify::ECDSA::verify_hashbuf_impl")

    def pubkey(ex, ctx):
        s, _ = sym_bytes(ex, ctx, "pubkey", 65)
        return mk("PublicKey", point=Bytes(s), is_compressed=Bool(z3.Bool("pub_is_compressed"))), s

    def sigval(ctx):
        ctx.sig = z3.BitVec("signature", 768)
        return mk("Signature", sig=Opaque("EcdsaSig", ctx.sig), recovery=Enum("Option", "None", 0, []))

    for algo in ("Sha256", "Sha256d"):
        what = f"verify_digest ({algo})"

        def setup_v(ex, algo=algo):
            ctx = Ctx()
            ctx.pk, ctx.pks = pubkey(ex, ctx)
            ctx.msg, _ = sym_bytes(ex, ctx, "message")
            return f_vd, [Ptr([Bytes(ctx.msg)], 0), Ptr([ctx.pk], 0), Ptr([sigval(ctx)], 0), algo_enum(algo)], ctx
        for r in run(f_vd, setup_v, what):
            qr.paths += 1
            c = r.ctx
            good = z3.And(POINT_VALID(c.pks), uf("POINT_ON_CURVE", SEQ, z3.BoolSort())(c.pks), VERIFY(c.pks, REDUCE(z3.Concat(*H(algo, c.msg))), c.sig))
            if r.kind != "ok":
                report(f"{what}: {r.kind} {r.msg}", algo)
                continue
            accepted = r.ret.variant == "Ok" and z3.is_true(z3.simplify(r.ret.f[0].t))
            if accepted and sat(r.pc, z3.Not(good)) != z3.unsat:
                report(f"{what}: accepts although the verification primitive does not hold for (key, reduction of {algo}(message), signature)", algo)
            if not accepted and sat(r.pc, good) != z3.unsat:
                report(f"{what}: rejects although the verification primitive holds for (key, reduction of {algo}(message), signature)", algo)

    what = "verify_hashbuf"

    def setup_vh(ex):
        ctx = Ctx()
        ctx.pk, ctx.pks = pubkey(ex, ctx)
        ctx.assumptions.append(uf("POINT_ON_CURVE", SEQ, z3.BoolSort())(ctx.pks))      # curve membership of a decodable key: C09's domain (unwrap)
        ctx.dg = [z3.BitVec(f"digest_{i}", 8) for i in range(32)]
        return f_vh, [Arr([Int(t, "u8") for t in ctx.dg]), Ptr([ctx.pk], 0), Ptr([sigval(ctx)], 0)], ctx
    for r in run(f_vh, setup_vh, what):
        qr.paths += 1
        c = r.ctx
        good = z3.And(POINT_VALID(c.pks), VERIFY(c.pks, REDUCE(z3.Concat(*c.dg)), c.sig))
        if r.kind != "ok":
            report(f"{what}: {r.kind} {r.msg}", "digest signer")
            continue
        accepted = r.ret.variant == "Ok" and z3.is_true(z3.simplify(r.ret.f[0].t))
        if accepted and sat(r.pc, z3.Not(good)) != z3.unsat:
            report(f"{what}: accepts although the verification primitive does not hold for (key, reduction of digest, signature)", "digest signer")
        if not accepted and sat(r.pc, good) != z3.unsat:
            report(f"{what}: rejects although the verification primitive holds", "digest signer")

    # ---- ECDH
    f_dh = env.fn("ecdsa::ecdh::ECDH::derive_shared_key_impl")

    def setup_dh(ex):
        ctx = Ctx()
        ctx.sk, ctx.d, _ = priv("own_secret")
        ctx.pk, ctx.pks = pubkey(ex, ctx)
        return f_dh, [Ptr([ctx.sk], 0), Ptr([ctx.pk], 0)], ctx
    for r in run(f_dh, setup_dh, "derive_shared_key"):
        qr.paths += 1
        c = r.ctx
        if r.kind != "ok":
            report(f"derive_shared_key: {r.kind} {r.msg}", "ECDH")
            continue
        if r.ret.variant != "Ok":
            if sat(r.pc, POINT_VALID(c.pks)) != z3.unsat:
                report("derive_shared_key fails for a valid peer key", "ECDH")
            continue
        st = {}
        want = seq_of(be_bytes(uf("ECDH_SHARED_X", B256, SEQ, B256)(c.d, c.pks), 32))
        outs = SE.compare(list(r.pc), r.ret.f[0].s, want, st)
        qr.queries += st.get("queries", 0)
        if any(o[0] != "equal" for o in outs):
            report("derive_shared_key: result is not the shared point's x coordinate for (own scalar, peer key)", "ECDH")
    qr.samples.append({"obligation": qr.name, "entry_points": ["sign_with_deterministic_k x {Sha256,Sha256d} x reverse_k", "sign_with_random_k x {Sha256,Sha256d} x reverse_k", "sign_with_k x {Sha256,Sha256d}",
                                                                "sign_digest_with_deterministic_k", "verify_digest x {Sha256,Sha256d}", "verify_hashbuf", "derive_shared_key"]})
    return qr


def ex_items_nonempty(seq):
    s = z3.simplify(seq)
    return not (z3.is_app(s) and s.decl().kind() == z3.Z3_OP_SEQ_EMPTY)


# ----------------------------------------------------------------------------- public-key recovery glue (C06 / C12)
def q_recover_glue(env, name=None):
    """Signature::get_public_key / get_public_key_from_digest from MIR with the recovery primitive and the SEC1 encoder as
    uninterpreted functions.  Decided: without recovery info -> Err; the recovery primitive gets this signature, the recovery id
    (is_y_odd, is_x_reduced) stored in the signature and the digest of exactly the message under the requested hash (or the caller's
    32-byte digest, other lengths refused); the returned PublicKey is the SEC1 encoding of the recovered point in the form the
    signature's key-compression marker says (compressed iff is_pubkey_compressed), so that HASH160 of it is the signer's address hash
    for either key form."""
    import re as _re
    from .models_hash import _call
    from .models_sign import record, _units, SIGBV
    qr = QResult(name or "recover_glue")
    P = env.P
    base = [m for m in MODELS if not m[1].__name__.startswith(("m_sha256", "m_sha256d", "m_hash160", "m_sha512", "m_ripemd160", "m_sha1"))]
    S = P.structs
    RECOVER = lambda sig, y, x, z: uf("ECDSA_RECOVER", SIGBV, z3.BoolSort(), z3.BoolSort(), B256, B256)(sig, y, x, z)
    RECOVER_OK = lambda sig, y, x, z: uf("ECDSA_RECOVER_OK", SIGBV, z3.BoolSort(), z3.BoolSort(), B256, z3.BoolSort())(sig, y, x, z)

    def bterm(v):
        v = deref(v)
        return v.t if isinstance(v, Bool) else (v.t != 0)

    def m_recid_new(ex, a, callee, canon):
        return Opaque("RecoveryId", (bterm(a[0]), bterm(a[1])))

    def recover(ex, rs, z):
        sig, (y, x) = rs.payload
        record(ex, "recover", sig=sig, y=y, x=x, z=z)
        if ex.decide(RECOVER_OK(sig, y, x, z)):
            return ok(Opaque("VerifyingKey", RECOVER(sig, y, x, z)))
        return err("ecdsa::Error")

    def m_recover_digest(ex, a, callee, canon):
        dv = deref(a[1])
        out = _call(ex, f"<{dv.name} as FixedOutput>::finalize_fixed", [dv])
        return recover(ex, deref(a[0]), z3.Concat(*_units(ex, out)))

    def m_recover_digest_bytes(ex, a, callee, canon):
        items = _units(ex, a[1])
        if len(items) != 32:
            raise PathPanic("GenericArray::from_slice: length mismatch")
        return recover(ex, deref(a[0]), z3.Concat(*items))

    def m_ga_from_slice(ex, a, callee, canon):
        items = _units(ex, a[0])
        if len(items) != 32:
            raise PathPanic("GenericArray::from_slice: length mismatch")
        return a[0]

    def m_vk_to_encoded_point(ex, a, callee, canon):
        vk = deref(a[0])
        flag = bterm(a[1])
        record(ex, "encode", flag=flag, point=vk.payload)
        if ex.decide(flag):
            return Opaque("EncodedPoint", Bytes(seq_of(be_bytes(uf("SEC1_COMPRESSED", B256, z3.BitVecSort(264))(vk.payload), 33))))
        return Opaque("EncodedPoint", Bytes(seq_of(be_bytes(uf("SEC1_UNCOMPRESSED", B256, z3.BitVecSort(520))(vk.payload), 65))))

    def m_opaque_string(ex, a, callee, canon):
        return Opaque("String")

    def m_vk_to_bytes(ex, a, callee, canon):
        # k256's VerifyingKey::to_bytes is the COMPRESSED SEC1 form whatever the caller wanted
        vk = deref(a[0])
        record(ex, "encode", flag=z3.BoolVal(True), point=vk.payload)
        return Bytes(seq_of(be_bytes(uf("SEC1_COMPRESSED", B256, z3.BitVecSort(264))(vk.payload), 33)))

    def m_err_new(ex, a, callee, canon):
        return Opaque("ecdsa::Error")
    R = _re.compile
    CM = [(R(r"VerifyingKey::to_bytes$"), m_vk_to_bytes), (R(r"^ecdsa::Error::new$|^signature::Error::new$"), m_err_new), (R(r"^RecoveryId::new$"), m_recid_new), (R(r"recover_verify_key_from_digest$"), m_recover_digest), (R(r"recover_verify_key_from_digest_bytes$"), m_recover_digest_bytes),
          (R(r"GenericArray<.*>::from_slice$|GenericArray::from_slice$"), m_ga_from_slice), (R(r"VerifyingKey::to_encoded_point$|ToEncodedPoint(<.*>)?>::to_encoded_point$"), m_vk_to_encoded_point),
          (R(r"to_der_hex$"), m_opaque_string)]
    from .models_ecies import m_point_is_compressed, m_point_as_bytes, m_encoded_point_from_bytes, m_from_sec1
    PM = [(R(r"(^|::)EncodedPoint::is_compressed$"), m_point_is_compressed), (R(r"(^|::)EncodedPoint::as_bytes$"), m_point_as_bytes)]
    _nat = {}

    def report(what, needle=None):
        if len(qr.violations) >= MAX_VIOLATIONS or any(v["message"] == what for v in qr.violations):
            return
        if "r" not in _nat:
            ops = [{"op": "bsm_verify", "key": (b"\x00" * 31 + b"\xa7").hex(), "compressed": c, "message": b"verif".hex(), "prefix": 0} for c in (True, False)]
            ops += native_ecdsa()[0]["ops"]
            req = {"tx": {"version": 1, "locktime": 0, "inputs": [], "outputs": []}, "ops": ops}
            _nat["r"] = (req, {p: C.Native.run(req, p) for p in ("debug", "release")})
        req, nat = _nat["r"]
        probs = []
        for v in nat.values():
            for i, o in enumerate(v):
                if i < 2:
                    if o.get("ok") is not True:
                        probs.append(f"bsm_verify ({'compressed' if i == 0 else 'uncompressed'} key): {json.dumps(o)[:120]}")
                else:
                    probs += [p for p in (o.get("ok", {}).get("problems", []) if isinstance(o.get("ok"), dict) else ["tool: " + json.dumps(o)[:120]]) if "recover" in p]
        probs = sorted(set(probs))
        item = {"message": what, "request": req, "op_index": 0, "expected": {"bsm_verify": True, "problems": []}, "native": {"problems": probs[:8]}, "reproduced": bool(probs)}
        if probs:
            qr.violations.append(item)
        else:
            qr.undecided.append(what + " — not reproduced natively")

    def sat(pc, *extra):
        st = {}
        r = SE.check_sat(list(pc), list(extra), st)
        qr.queries += st.get("queries", 0)
        qr.solver_s += st.get("solver_s", 0.0)
        if r == z3.unknown:
            qr.undecided.append("solver unknown")
        return r
    SHA = lambda s: z3.Concat(*be_bytes(uf("SHA256", SEQ, B256)(s), 32)) if False else uf("SHA256", SEQ, B256)(s)
    cases = [("get_public_key", "signature::Signature::get_public_key", algo, has_rec) for algo in ("Sha256", "Sha256d") for has_rec in (True, False)]
    cases += [("get_public_key_from_digest", "signature::Signature::get_public_key_from_digest", n, True) for n in (32, 31, 33, 0)]
    for what, callsite, par, has_rec in cases:
        label = f"{what} ({'hash ' + par if isinstance(par, str) else 'digest of ' + str(par) + ' bytes'}, recovery info {'present' if has_rec else 'absent'})"
        try:
            fn = env.fn(callsite)
        except Unsupported as e:
            qr.undecided.append(f"{label}: {e}")
            continue
        qr.cases += 1
        ex = Exec(P, CM + PM + SMODELS + HMODELS + base)

        def setup(ex, par=par, has_rec=has_rec, what=what):
            ctx = Ctx()
            ctx.sig = z3.BitVec("sig_rs", 768)
            ctx.y, ctx.x, ctx.c = z3.Bool("rec_y_odd"), z3.Bool("rec_x_reduced"), z3.Bool("rec_key_compressed")
            ri = Struct("RecoveryInfo", [None] * 3)
            for k, v in (("is_y_odd", ctx.y), ("is_x_reduced", ctx.x), ("is_pubkey_compressed", ctx.c)):
                ri.f[S["RecoveryInfo"].index(k)] = Bool(v)
            sg = Struct("Signature", [None] * 2)
            sg.f[S["Signature"].index("sig")] = Opaque("EcdsaSig", ctx.sig)
            sg.f[S["Signature"].index("recovery")] = some(ri) if has_rec else (NONE() if callable(NONE) else NONE)
            if what == "get_public_key":
                ctx.msg, ctx.msgL = sym_bytes(ex, ctx, "message")
                return fn, [Ptr([sg], 0), Ptr([Bytes(ctx.msg)], 0), Enum("SigningHash", par, P.enums["SigningHash"][par])], ctx
            ctx.digest = [z3.BitVec(f"digest_{i}", 8) for i in range(par)]
            return fn, [Ptr([sg], 0), Ptr([Bytes(seq_of(ctx.digest))], 0)], ctx
        try:
            results = ex.explore(setup)
        except Unsupported as e:
            qr.undecided.append(f"{label}: {e}")
            continue
        n_ok = 0
        for r in results:
            qr.paths += 1
            c = r.ctx
            if r.kind == "panic":
                report(f"{label}: panics: {r.msg.split(' @')[0][:80]}")
                continue
            if r.kind != "ok":
                qr.undecided.append(f"{label}: {r.kind}")
                continue
            rec = [kw for nm, kw in getattr(r, "recorded", []) if nm == "recover"]
            enc = [kw for nm, kw in getattr(r, "recorded", []) if nm == "encode"]
            wellformed = has_rec and (what == "get_public_key" or par == 32)
            if r.ret.variant == "Ok":
                n_ok += 1
                if not wellformed:
                    report(f"{label}: returns a key although the recovery info is missing or the digest is not 32 bytes")
                    continue
                if len(rec) != 1 or len(enc) != 1:
                    report(f"{label}: returns a key without exactly one recovery and one encoding step")
                    continue
                k = rec[0]
                if what == "get_public_key":
                    h1 = uf("SHA256", SEQ, B256)(c.msg)
                    want_z = h1 if par == "Sha256" else uf("SHA256", SEQ, B256)(seq_of(be_bytes(h1, 32)))
                else:
                    want_z = z3.Concat(*c.digest)
                if sat(r.pc, k["sig"] != c.sig) != z3.unsat:
                    report(f"{label}: the recovery runs on another signature value")
                if sat(r.pc, z3.Or(k["y"] != c.y, k["x"] != c.x)) != z3.unsat:
                    report(f"{label}: the recovery id handed to the primitive is not (is_y_odd, is_x_reduced) of the signature", "recover")
                if sat(r.pc, k["z"] != want_z) != z3.unsat:
                    report(f"{label}: the digest handed to the recovery is not the requested hash of exactly the message (or the caller's digest)", "recover")
                if sat(r.pc, enc[0]["flag"] != c.c) != z3.unsat:
                    report(f"{label}: the recovered key is not encoded in the form the signature's key-compression marker states (an uncompressed signer's key comes back compressed or vice versa, so its HASH160 is not the signer's address)")
                if sat(r.pc, enc[0]["point"] != RECOVER(c.sig, c.y, c.x, want_z)) != z3.unsat:
                    report(f"{label}: the encoded point is not the recovered point")
                # the returned PublicKey holds exactly the encoder's bytes
                pk = r.ret.f[0]
                pts = ex.seq_items(pk.f[S["PublicKey"].index("point")].s)
                want_pts = be_bytes(uf("SEC1_COMPRESSED", B256, z3.BitVecSort(264))(enc[0]["point"]), 33) if pts is not None and len(pts) == 33 else be_bytes(uf("SEC1_UNCOMPRESSED", B256, z3.BitVecSort(520))(enc[0]["point"]), 65)
                if pts is None or len(pts) != len(want_pts) or sat(r.pc, z3.Or(*[p != q for p, q in zip(pts, want_pts)])) != z3.unsat:
                    report(f"{label}: the returned PublicKey does not hold the encoded point's bytes")
            else:
                # rejection is allowed only when the primitive fails, the encoding is refused, or the call is ill-formed
                if wellformed and rec and sat(r.pc, RECOVER_OK(rec[0]["sig"], rec[0]["y"], rec[0]["x"], rec[0]["z"])) == z3.unsat:
                    continue
                if wellformed and not rec:
                    report(f"{label}: refuses without attempting the recovery")
        if (has_rec and (what == "get_public_key" or par == 32)) and n_ok == 0:
            qr.undecided.append(f"{label}: no accepting path (vacuous)")
        finish(qr, ex)
    qr.samples.append({"obligation": qr.name, "entry_points": ["Signature::get_public_key", "Signature::get_public_key_from_digest"]})
    return qr


# ----------------------------------------------------------------------------- public key of a private key (C07)
def q_pubkey_derivation(env, name=None):
    """PrivateKey::get_point and PublicKey::from_private_key_impl from MIR, scalar multiplication and the SEC1 encoder uninterpreted:
    the returned bytes are the encoding of THIS key's public point in the form the key's compression flag states (compressed iff
    is_pub_key_compressed), and from_private_key_impl stores exactly those bytes with that flag."""
    import re as _re
    from .models_sign import record
    qr = QResult(name or "pubkey_derivation")
    P = env.P
    S = P.structs
    base = [m for m in MODELS if not m[1].__name__.startswith(("m_sha256", "m_sha256d", "m_hash160", "m_sha512", "m_ripemd160", "m_sha1"))]
    PUBPOINT = lambda d: uf("PUBLIC_POINT", B256, B256)(d)

    def bterm(v):
        v = deref(v)
        return v.t if isinstance(v, Bool) else (v.t != 0)

    def m_public_key(ex, a, callee, canon):
        sk = deref(a[0])
        return Opaque("K256PublicKey", PUBPOINT(sk.payload))

    def m_as_affine(ex, a, callee, canon):
        return a[0] if isinstance(a[0], Ptr) else Ptr([a[0]], 0)

    def m_to_encoded_point(ex, a, callee, canon):
        p = deref(a[0])
        flag = bterm(a[1])
        record(ex, "encode", flag=flag, point=p.payload)
        if ex.decide(flag):
            return Opaque("EncodedPoint", Bytes(seq_of(be_bytes(uf("SEC1_COMPRESSED", B256, z3.BitVecSort(264))(p.payload), 33))))
        return Opaque("EncodedPoint", Bytes(seq_of(be_bytes(uf("SEC1_UNCOMPRESSED", B256, z3.BitVecSort(520))(p.payload), 65))))

    def m_as_bytes(ex, a, callee, canon):
        return Ptr([deref(a[0]).payload], 0)
    R = _re.compile
    def m_slice_into_vec(ex, a, callee, canon):
        return Bytes(ex.bytes_of(a[0]))
    CM = [(R(r"^<&\[u8\] as Into<Vec<u8>>>::into$"), m_slice_into_vec), (R(r"(^|::)SecretKey::public_key$"), m_public_key), (R(r"(^|::)PublicKey::as_affine$"), m_as_affine), (R(r"to_encoded_point$"), m_to_encoded_point), (R(r"(^|::)EncodedPoint::as_bytes$"), m_as_bytes)]
    _nat = {}

    def report(what):
        if len(qr.violations) >= MAX_VIOLATIONS or any(v["message"] == what for v in qr.violations):
            return
        if "r" not in _nat:
            req = {"tx": {"version": 1, "locktime": 0, "inputs": [], "outputs": []}, "ops": [{"op": "pubkey_derive", "key": k} for k in ((b"\x00" * 31 + b"\xa7").hex(), "fffffffffffffffffffffffffffffffebaaedce6af48a03bbfd25e8cd0364140")]}
            _nat["r"] = (req, {p: C.Native.run(req, p) for p in ("debug", "release")})
        req, nat = _nat["r"]
        probs = sorted({p for v in nat.values() for o in v for p in (o.get("ok", {}).get("problems", []) if isinstance(o.get("ok"), dict) else ["tool: " + json.dumps(o)[:160]])})
        item = {"message": what, "request": req, "op_index": 0, "expected": {"problems": []}, "native": {"problems": probs[:8]}, "reproduced": bool(probs)}
        if probs:
            qr.violations.append(item)
        else:
            qr.undecided.append(what + " — not reproduced natively")

    def sat(pc, *extra):
        st = {}
        r = SE.check_sat(list(pc), list(extra), st)
        qr.queries += st.get("queries", 0)
        qr.solver_s += st.get("solver_s", 0.0)
        if r == z3.unknown:
            qr.undecided.append("solver unknown")
        return r
    for what, callsite in (("PrivateKey::get_point", "keypair::private_key::PrivateKey::get_point"), ("PublicKey::from_private_key_impl", "keypair::public_key::PublicKey::from_private_key_impl")):
        try:
            fn = env.fn(callsite)
        except Unsupported as e:
            qr.undecided.append(f"{what}: {e}")
            continue
        qr.cases += 1
        ex = Exec(P, CM + SMODELS + HMODELS + base)

        def setup(ex):
            ctx = Ctx()
            ctx.d = z3.BitVec("secret", 256)
            ctx.c = z3.Bool("key_compressed")
            pk = Struct("PrivateKey", [None] * 2)
            pk.f[S["PrivateKey"].index("secret_key")] = Opaque("SecretKey", ctx.d)
            pk.f[S["PrivateKey"].index("is_pub_key_compressed")] = Bool(ctx.c)
            return fn, [Ptr([pk], 0)], ctx
        try:
            results = ex.explore(setup)
        except Unsupported as e:
            qr.undecided.append(f"{what}: {e}")
            continue
        seen = 0
        for r in results:
            qr.paths += 1
            c = r.ctx
            if r.kind != "ok":
                report(f"{what}: {r.kind}: {getattr(r, 'msg', '')[:80]}")
                continue
            enc = [kw for nm, kw in getattr(r, "recorded", []) if nm == "encode"]
            if len(enc) != 1:
                report(f"{what}: the result does not come from exactly one SEC1 encoding of the public point")
                continue
            seen += 1
            if sat(r.pc, enc[0]["point"] != PUBPOINT(c.d)) != z3.unsat:
                report(f"{what}: the encoded point is not this key's public point")
            if sat(r.pc, enc[0]["flag"] != c.c) != z3.unsat:
                report(f"{what}: the public key is not encoded in the form the key's compression flag states (an uncompressed key yields the compressed encoding or vice versa, so HASH160, address and locking script are those of the other form)")
            ret = deref(r.ret)
            if what.endswith("get_point"):
                pts = ex.seq_items(ex.bytes_of(ret))
                flag_ok = True
            else:
                pts = ex.seq_items(ret.f[S["PublicKey"].index("point")].s)
                flag_ok = sat(r.pc, bterm(ret.f[S["PublicKey"].index("is_compressed")]) != c.c) == z3.unsat
            want = be_bytes(uf("SEC1_COMPRESSED", B256, z3.BitVecSort(264))(enc[0]["point"]), 33) if pts is not None and len(pts) == 33 else be_bytes(uf("SEC1_UNCOMPRESSED", B256, z3.BitVecSort(520))(enc[0]["point"]), 65)
            if pts is None or len(pts) != len(want) or sat(r.pc, z3.Or(*[p != q for p, q in zip(pts, want)])) != z3.unsat:
                report(f"{what}: the returned bytes are not the encoder's output")
            if not flag_ok:
                report(f"{what}: the stored compression flag is not the private key's")
        if seen == 0:
            qr.undecided.append(f"{what}: no path reaches the encoder (vacuous)")
        finish(qr, ex)
    qr.samples.append({"obligation": qr.name, "entry_points": ["PrivateKey::get_point", "PublicKey::from_private_key_impl"]})
    return qr
