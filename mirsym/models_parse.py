"""Content-aware parsing models (C01 parse direction): the input buffer is a list of PIECES — single bytes (bit-vector terms),
opaque atoms (scripts) with their 64-bit length, and `ite` pieces (compact-size prefixes whose width depends on a symbolic
length).  A cursor over such a buffer hands the reader exactly the terms the reference encoder put there, so
parse(serialise(tx)) can be compared with tx field by field."""
import re
import z3
from .values import *
from .executor import Unsupported, PathPanic
from .models import ok, err, some, NONE, deref, generic_arg

PMODELS = []


def model(pattern):
    def deco(fn):
        PMODELS.append((re.compile(pattern), fn))
        return fn
    return deco


class Pieces:
    """immutable byte buffer made of pieces: ('u', bv8) | ('a', seq_atom, len_bv) | ('ite', cond, [pieces], [pieces])"""
    __slots__ = ("p",)

    def __init__(self, p):
        self.p = list(p)

    def __repr__(self):
        return f"Pieces({len(self.p)})"


def plen(pieces):
    t = z3.BitVecVal(0, 64)
    for x in pieces:
        if x[0] == "u":
            t = t + 1
        elif x[0] == "a":
            t = t + x[2]
        else:
            t = t + z3.If(x[1], plen(x[2]), plen(x[3]))
    return z3.simplify(t)


def varint_pieces(L):
    """compact-size encoding of the 64-bit length L as an ite piece"""
    b = lambda v: ("u", z3.BitVecVal(v, 8))
    u = lambda ts: [("u", t) for t in ts]
    c1 = u([z3.Extract(7, 0, L)])
    c3 = [b(0xfd)] + u(le_bytes(z3.Extract(15, 0, L), 2))
    c5 = [b(0xfe)] + u(le_bytes(z3.Extract(31, 0, L), 4))
    c9 = [b(0xff)] + u(le_bytes(L, 8))
    return [("ite", z3.ULE(L, 252), c1, [("ite", z3.ULE(L, 0xffff), c3, [("ite", z3.ULE(L, 0xffffffff), c5, c9)])])]


class PCursor:
    """std::io::Cursor over Pieces: remaining pieces + consumed length"""

    def __init__(self, pieces):
        self.rest = list(pieces.p)
        self.total = plen(pieces.p)
        self.pos = z3.BitVecVal(0, 64)


def _resolve_head(ex, cur):
    """make the first remaining piece a unit or an atom by deciding leading ite conditions"""
    while cur.rest and cur.rest[0][0] == "ite":
        _, c, a, b = cur.rest[0]
        cur.rest = (list(a) if ex.decide(c) else list(b)) + cur.rest[1:]


def take_units(ex, cur, k):
    out = []
    for _ in range(k):
        _resolve_head(ex, cur)
        if not cur.rest:
            return None
        while cur.rest and cur.rest[0][0] == "a":
            # an opaque atom where single bytes are expected: fine if it is empty, otherwise the parse is misaligned
            if ex.decide(cur.rest[0][2] == 0):
                cur.rest.pop(0)
                _resolve_head(ex, cur)
            else:
                raise Unsupported("integer read inside a non-empty opaque byte string (misaligned parse)")
        if not cur.rest:
            return None
        out.append(cur.rest.pop(0)[1])
    cur.pos = z3.simplify(cur.pos + k)
    return out


@model(r"^Cursor::new$")
def m_pcursor_new(ex, a, callee, canon):
    v = deref(a[0]) if isinstance(a[0], Ptr) else a[0]
    if isinstance(v, Pieces):
        return PCursor(v)
    return Struct("Cursor", [a[0], Int(0, "u64")])


@model(r"^(std|core|alloc)::slice::<impl \[u8\]>::to_vec$")
def m_pieces_to_vec(ex, a, callee, canon):
    v = deref(a[0])
    if isinstance(v, Pieces):
        return v
    return Bytes(ex.bytes_of(a[0]))


@model(r"^<Cursor<.*> as (byteorder::)?ReadBytesExt>::read_(u8|u16|u32|u64|i32|i64)$")
def m_pcursor_read_int(ex, a, callee, canon):
    cur = deref(a[0])
    if not isinstance(cur, PCursor):
        raise Unsupported("read on a non-piece cursor in a parse query")
    ty = canon.rsplit("read_", 1)[1]
    k = INT_BITS[ty] // 8
    endian = generic_arg(callee, 0) or "LittleEndian"
    saved = (list(cur.rest), cur.pos)
    units = take_units(ex, cur, k)
    if units is None:
        cur.rest, cur.pos = saved
        # std's Cursor leaves the position unchanged on a short read_exact
        return err("UnexpectedEof")
    if k == 1:
        t = units[0]
    else:
        order = list(reversed(units)) if "Little" in endian else units
        t = z3.Concat(*order)
    return ok(Int(z3.simplify(t), ty))


@model(r"^<Cursor<.*> as (std::io::)?Read>::read$")
def m_pcursor_read(ex, a, callee, canon):
    cur = deref(a[0])
    if not isinstance(cur, PCursor):
        raise Unsupported("read on a non-piece cursor in a parse query")
    bufp = a[1]
    tgt = bufp
    while isinstance(tgt.get(), Ptr):
        tgt = tgt.get()
    buf = tgt.get()
    m = ex.seq_len(buf.s)
    cm = z3.simplify(m)
    if z3.is_bv_value(cm):
        n = cm.as_long()
        units = []
        while len(units) < n:
            _resolve_head(ex, cur)
            if not cur.rest:
                break
            if cur.rest[0][0] == "a":
                raise Unsupported("fixed-size read runs into an opaque byte string (misaligned parse)")
            units.append(cur.rest.pop(0)[1])
        items = ex.seq_items(buf.s)
        new = units + list(items[len(units):])
        tgt.set(Bytes(seq_of(new)))
        cur.pos = z3.simplify(cur.pos + len(units))
        return ok(Int(len(units), "usize"))
    # symbolic size: must be exactly the next opaque atom (a script of the declared length)
    _resolve_head(ex, cur)
    if not (cur.rest and cur.rest[0][0] == "a") and ex.decide(m == 0):
        return ok(Int(0, "usize"))
    if cur.rest and cur.rest[0][0] == "a":
        _, atom, L = cur.rest[0]
        if ex.decide(m == L):
            cur.rest.pop(0)
            cur.pos = z3.simplify(cur.pos + L)
            if not hasattr(ex, "len_vars"):
                ex.len_vars = {}
            ex.len_vars[atom.get_id()] = L
            ex.__dict__.setdefault("_keep_alive", []).append(atom)   # ids key the table: the term must stay alive
            tgt.set(Bytes(atom))
            return ok(Int(L, "usize"))
    raise Unsupported("variable-size read that is not exactly the next opaque byte string (declared size differs from the script's length): outside the well-formed-input query")


@model(r"^Cursor::get_ref$")
def m_pcursor_get_ref(ex, a, callee, canon):
    cur = deref(a[0])
    if isinstance(cur, PCursor):
        return Ptr([PLen(cur.total)], 0)
    return Ptr(cur.f, 0)


class PLen:
    """stand-in for the inner Vec<u8> of a PCursor when only its length is asked for"""

    def __init__(self, n):
        self.n = n


@model(r"^Vec::len$")
def m_plen(ex, a, callee, canon):
    v = deref(a[0])
    if isinstance(v, PLen):
        return Int(v.n, "usize")
    return ex.len_of(v)


@model(r"^Cursor::position$")
def m_pcursor_position(ex, a, callee, canon):
    cur = deref(a[0])
    if isinstance(cur, PCursor):
        return Int(cur.pos, "u64")
    return cur.f[1]


@model(r"(^|::)Script::from_bytes$|(^|::)Script::from_coinbase_bytes$")
def m_script_identity(ex, a, callee, canon):
    """scripts are opaque in the transaction layer: parsing a script yields the script with those bytes (C02's domain);
    which constructor was used is recorded: coinbase data must be kept verbatim (it need not be a script at all)"""
    s = ex.bytes_of(a[0])
    if not hasattr(ex, "recorded"):
        ex.recorded = []
    ex.recorded.append(("script_ctor", {"kind": "verbatim" if canon.endswith("from_coinbase_bytes") else "tokenised", "bytes": s}))
    return ok(Struct("Script", [Bytes(s)]))


@model(r"^(std::vec::|alloc::vec::)?from_elem$")
def m_from_elem_parse(ex, a, callee, canon):
    v, n = a
    cn = n.concrete()
    if cn is not None and cn <= 4096:
        if isinstance(v, Int) and v.ty == "u8":
            return Bytes(seq_of([v.t] * cn))
        return ListV([clone(v) for _ in range(cn)])
    # zero-filled buffer of a symbolic size: an opaque string of that length (it is overwritten by the following read)
    s = ex.fresh("zerobuf", SEQ)
    if not hasattr(ex, "len_vars"):
        ex.len_vars = {}
    ex.len_vars[s.get_id()] = n.t
    ex.__dict__.setdefault("_keep_alive", []).append(s)   # ids key the table: the term must stay alive
    return Bytes(s)
