"""E2 query for C09: decoders are total.  Every entry point is executed on an input of symbolic length; any feasible panic path
(bounds/overflow assertions of the MIR, slice and GenericArray length checks, unwraps) and any allocation whose size comes from the
input without being bounded by the input length is turned into a concrete input and replayed natively (memory-capped)."""
import json, os, subprocess, tempfile
import z3
from .executor import Unsupported, Exec
from .values import *
from .models import MODELS
from .models_decode import DMODELS, fresh_bytes
from .txmodel import Ctx, sym_bytes
from . import concrete as C
from .queries import QResult, finish, bv_val, MAX_VIOLATIONS

B58 = "123456789ABCDEFGHJKLMNPQRSTUVWXYZabcdefghijkmnopqrstuvwxyz"


def b58encode(b):
    n = int.from_bytes(b, "big")
    out = ""
    while n:
        n, r = divmod(n, 58)
        out = B58[r] + out
    return "1" * (len(b) - len(b.lstrip(b"\0"))) + out


def native_decode(op, mem_kb=3000000):
    """run one decode op natively under an address-space cap; -> {'ok'|'err'|'panic'|'abort': ...} per profile"""
    out = {}
    req = {"tx": {"version": 1, "locktime": 0, "inputs": [], "outputs": []}, "ops": [op]}
    for prof in ("debug", "release"):
        b = C.Native.bin(prof)
        with tempfile.NamedTemporaryFile("w", suffix=".json", delete=False) as f:
            json.dump(req, f)
            path = f.name
        try:
            p = subprocess.run(["bash", "-c", f"ulimit -v {mem_kb}; exec {b} {path}"], stdout=subprocess.PIPE, stderr=subprocess.PIPE, text=True, timeout=120)
            if p.returncode != 0:
                out[prof] = {"abort": f"process died with status {p.returncode}: {(p.stderr or '')[-160:]}"}
            else:
                out[prof] = json.loads(p.stdout.strip().splitlines()[-1])[0]
        except subprocess.TimeoutExpired:
            out[prof] = {"abort": "timeout"}
        finally:
            os.unlink(path)
    return out


GPOINT = bytes.fromhex("0279be667ef9dcbbac55a06295ce870b07029bfcdb2dce28d959f2815b16f81798")   # a valid compressed point (the generator)


def filler(n):
    return bytes((i * 13 + 5) % 251 for i in range(n))


def wif_replay(n):
    """Base58 texts whose decoding has n bytes: plain filler first, then payloads that carry a REAL Base58Check checksum (the paths
    behind the checksum comparison are only reached with one): filler, all-0x01 (a compression marker in every position), 0x80 || 0x01.."""
    import hashlib
    op = {"op": "decode", "kind": "wif", "text": b58encode(filler(n))}
    alts = []
    if n >= 4:
        for payload in (filler(n - 4), bytes([1] * (n - 4)), bytes(([0x80] + [1] * (n - 5))[:n - 4])):
            chk = hashlib.sha256(hashlib.sha256(payload).digest()).digest()[:4]
            alts.append({"op": "decode", "kind": "wif", "text": b58encode(payload + chk)})
    op["alternatives"] = alts
    return op


# entry points: (name, callsite, arg builder(ex, ctx) -> args, replay builder(model, ctx) -> op or None)
def entries(P):
    E = []

    def buf(ex, ctx, name="input", cap=1 << 20):
        s, L = sym_bytes(ex, ctx, name, cap)
        ctx.bufs = getattr(ctx, "bufs", []) + [(name, s, L)]
        return Ptr([Bytes(s)], 0)

    def strarg(ex, ctx, name="text"):
        L = z3.BitVec(name + "_strlen", 64)
        ctx.assumptions.append(z3.ULE(L, 1 << 20))
        ctx.strs = getattr(ctx, "strs", []) + [(name, L)]
        return Ptr([Opaque("strarg", L)], 0)

    def blen_of(m, ctx, name):
        for n, s, L in getattr(ctx, "bufs", []):
            if n == name:
                return bv_val(m, L)
        return 0

    def decoded_len(m, ex_fresh_prefix, pc):
        # length of the Base58-decoded byte string chosen by the model (fresh variable named b58_decoded_len!k)
        for d in m.decls():
            if d.name().startswith(ex_fresh_prefix):
                return m[d].as_long()
        return 0

    E.append(("ecies_ciphertext_from_bytes", "ecies_ciphertext::ECIESCiphertext::from_bytes_impl",
              lambda ex, ctx: [buf(ex, ctx), Bool(z3.Bool("has_pub_key"))],
              lambda m, ctx: {"op": "decode", "kind": "ecies", "hex": (b"BIE1" + GPOINT + filler(4096))[:min(blen_of(m, ctx, "input"), 4096)].hex(), "flag": z3.is_true(m.eval(z3.Bool("has_pub_key"), model_completion=True))}))
    E.append(("private_key_from_wif", "private_key::PrivateKey::from_wif_impl", lambda ex, ctx: [strarg(ex, ctx)],
              lambda m, ctx: wif_replay(min(decoded_len(m, "b58_decoded_len", None), 64))))
    E.append(("address_from_string", "address::P2PKHAddress::from_string_impl", lambda ex, ctx: [strarg(ex, ctx)],
              lambda m, ctx: {"op": "decode", "kind": "address", "text": b58encode(filler(min(decoded_len(m, "b58_decoded_len", None), 64))).rjust(min(bv_val(m, ctx.strs[0][1]), 60), "1")}))
    E.append(("xprv_from_string", "extended_private_key::ExtendedPrivateKey::from_string_impl", lambda ex, ctx: [strarg(ex, ctx)],
              lambda m, ctx: {"op": "decode", "kind": "xprv", "text": b58encode(filler(min(decoded_len(m, "b58_decoded_len", None), 120)))}))
    E.append(("xpub_from_string", "extended_public_key::ExtendedPublicKey::from_string_impl", lambda ex, ctx: [strarg(ex, ctx)],
              lambda m, ctx: {"op": "decode", "kind": "xpub", "text": b58encode(filler(min(decoded_len(m, "b58_decoded_len", None), 120)))}))
    E.append(("verify_hashbuf_digest", "verify::<impl ecdsa::ECDSA>::verify_hashbuf", lambda ex, ctx: [buf(ex, ctx, "digest", 4096), Ptr([Opaque("PublicKey")], 0), Ptr([Opaque("Signature")], 0)],
              lambda m, ctx: {"op": "decode", "kind": "verify_hashbuf", "hex": filler(blen_of(m, ctx, "digest")).hex()}))
    E.append(("sign_digest", "sign::<impl ecdsa::ECDSA>::sign_digest_with_deterministic_k", lambda ex, ctx: [Ptr([Opaque("PrivateKey")], 0), buf(ex, ctx, "digest", 4096)],
              lambda m, ctx: {"op": "decode", "kind": "sign_digest", "hex": filler(blen_of(m, ctx, "digest")).hex()}))
    E.append(("recover_from_digest", "signature::Signature::recover_public_key_from_digest",
              lambda ex, ctx: [Ptr([Struct("Signature", [Opaque("SecpSignature"), Enum("Option", "Some", 1, [Struct("RecoveryInfo", [Bool(z3.Bool("ri_y")), Bool(z3.Bool("ri_x")), Bool(z3.Bool("ri_c"))])])])], 0), buf(ex, ctx, "digest", 4096)],
              lambda m, ctx: {"op": "decode", "kind": "recover_digest", "hex": filler(blen_of(m, ctx, "digest")).hex()}))
    for algo in ("AES128_CBC", "AES256_CBC", "AES128_CTR", "AES256_CTR"):
        for fn in ("encrypt_impl", "decrypt_impl"):
            E.append((f"aes_{fn}_{algo}", f"encryption::AES::{fn}",
                      lambda ex, ctx, algo=algo: [buf(ex, ctx, "key", 64), buf(ex, ctx, "iv", 64), buf(ex, ctx, "message", 4096), Enum("AESAlgorithms", algo, P.enums["AESAlgorithms"][algo])],
                      lambda m, ctx, algo=algo, fn=fn: {"op": "decode", "kind": "aes", "algo": algo, "decrypt": fn == "decrypt_impl", "key": filler(blen_of(m, ctx, "key")).hex(),
                                                       "iv": filler(blen_of(m, ctx, "iv")).hex(), "message": filler(min(blen_of(m, ctx, "message"), 64)).hex()}))
    E.append(("txin_from_outpoint", "txin::TxIn::from_outpoint_bytes_impl", lambda ex, ctx: [buf(ex, ctx, "input", 4096)],
              lambda m, ctx: {"op": "decode", "kind": "outpoint", "hex": filler(blen_of(m, ctx, "input")).hex()}))
    E.append(("signature_from_compact", "signature::Signature::from_compact_impl", lambda ex, ctx: [buf(ex, ctx, "input", 4096)],
              lambda m, ctx: {"op": "decode", "kind": "compact", "hex": filler(blen_of(m, ctx, "input")).hex()}))
    E.append(("sighash_signature_from_bytes", "sighash::SighashSignature::from_bytes_impl", lambda ex, ctx: [buf(ex, ctx, "input", 4096), buf(ex, ctx, "buffer", 64)],
              lambda m, ctx: {"op": "decode", "kind": "sighash_sig", "hex": filler(blen_of(m, ctx, "input")).hex()}))
    E.append(("script_from_bytes_short", "script::Script::from_bytes", lambda ex, ctx: [buf(ex, ctx, "input", 5)],
              lambda m, ctx: {"op": "decode", "kind": "script", "hex": filler(blen_of(m, ctx, "input")).hex()}))
    E.append(("transaction_from_bytes", "transaction::Transaction::from_bytes_impl", lambda ex, ctx: [buf(ex, ctx, "input", 1 << 20)], None))
    E.append(("txin_read_in", "txin::TxIn::read_in", lambda ex, ctx: [Ptr([Struct("Cursor", [deref_buf(buf(ex, ctx, "input", 1 << 20)), Int(0, "u64")])], 0)], None))
    E.append(("txout_read_in", "txout::TxOut::read_in", lambda ex, ctx: [Ptr([Struct("Cursor", [deref_buf(buf(ex, ctx, "input", 1 << 20)), Int(0, "u64")])], 0)], None))
    return E


def deref_buf(p):
    return p.get()


def q_decoders(env, only=None, name=None):
    qr = QResult(name or "decoders_total")
    P = env.P
    for nm, callsite, mkargs, mkreplay in entries(P):
        if only and nm not in only:
            continue
        try:
            f = env.fn(callsite)
        except Unsupported as e:
            qr.undecided.append(f"{nm}: {e}")
            continue
        qr.cases += 1
        ex = Exec(P, DMODELS + MODELS, logic="QF_BV", timeout_ms=20000)

        def setup(ex, mkargs=mkargs, nm=nm):
            ctx = Ctx()
            ex.opaque_read_in = (nm == "transaction_from_bytes")
            ex.script_from_bytes_real = (nm == "script_from_bytes_short")
            args = mkargs(ex, ctx)
            return f, args, ctx
        try:
            results = ex.explore(setup)
        except Unsupported as e:
            qr.undecided.append(f"{nm}: {e}")
            continue
        seen = set()
        for r in results:
            qr.paths += 1
            # (a) panics
            if r.kind == "panic":
                key = r.msg.split(" @")[0][:60]
                if key in seen:
                    continue
                s = z3.SolverFor("QF_BV")
                s.set("timeout", 60000)
                for c in r.pc:
                    s.add(c)
                # prefer small inputs
                for n_, s_, L in getattr(r.ctx, "bufs", []):
                    s.push()
                    s.add(z3.ULE(L, 200))
                    if s.check() != z3.sat:
                        s.pop()
                qr.queries += 1
                rr = s.check()
                if rr == z3.unknown:
                    qr.undecided.append(f"{nm}: solver unknown on a panic path ({key})")
                if rr != z3.sat:
                    continue
                seen.add(key)
                m = s.model()
                if mkreplay is None:
                    qr.undecided.append(f"{nm}: panic path ({key}) without a native replay builder")
                    continue
                op = mkreplay(m, r.ctx)
                # the decoder layer is content-free: a builder may offer alternative inputs of the same length (e.g. with a real checksum)
                for op in [op] + list(op.pop("alternatives", [])):
                    nat = native_decode(op)
                    if any(("panic" in v or "abort" in v) for v in nat.values()):
                        break
                item = {"message": f"{nm}: {key}", "request": {"tx": {"version": 1, "locktime": 0, "inputs": [], "outputs": []}, "ops": [op]}, "op_index": 0, "expected": "Ok or Err (no panic/abort)", "native": nat}
                if any(("panic" in v or "abort" in v) for v in nat.values()):
                    qr.violations.append(item)
                else:
                    qr.undecided.append(f"{nm}: panic path '{key}' not reproduced natively with {json.dumps(op)[:160]} -> {json.dumps(nat)[:160]}")
            # (b) allocations sized by the input but not bounded by its length
            total = None
            for n_, s_, L in getattr(r.ctx, "bufs", []):
                total = L if total is None else total + L
            for rec in getattr(r, "recorded", []):
                if rec[0] not in ("alloc", "alloc_capacity") or total is None:
                    continue
                n, pc_at = rec[1][0], rec[1][1]
                key = (rec[0], nm)
                if key in seen:
                    continue
                s = z3.Solver()
                s.set("timeout", 60000)
                for c in pc_at:
                    s.add(c)
                for n_, s_, L in getattr(r.ctx, "bufs", []):
                    s.add(z3.ULE(L, 300))
                # "bounded by a fixed multiple of the input length": more than 64x the input plus 1 MiB is a declared-size allocation
                s.add(z3.UGT(n.t, z3.BitVecVal(1 << 20, 64) + 64 * total))
                qr.queries += 1
                if s.check() != z3.sat:
                    continue
                seen.add(key)
                item = alloc_replay(nm, rec[0])
                if item is None:
                    qr.undecided.append(f"{nm}: allocation of an input-declared size far beyond the input length (solver), no native replay")
                elif item["reproduced"]:
                    qr.violations.append(item)
                else:
                    qr.undecided.append(f"{nm}: unbounded allocation not reproduced natively: {json.dumps(item['native'])[:200]}")
        finish(qr, ex)
    qr.samples.append({"obligation": qr.name, "entry_points": [e[0] for e in entries(P) if not only or e[0] in only]})
    return qr


def alloc_replay(nm, kind):
    """hand-built byte strings that declare a huge length/count at the allocation site the solver found"""
    huge = bytes([0xff]) + (1 << 40).to_bytes(8, "little")          # compact-size 2^40
    if nm == "txin_read_in" or nm == "transaction_from_bytes":
        txin = bytes(32) + bytes(4) + huge
        raw = bytes([1, 0, 0, 0, 1]) + txin if nm == "transaction_from_bytes" else txin
        opk = "tx" if nm == "transaction_from_bytes" else "txin"
        if kind == "alloc_capacity":
            raw = bytes([1, 0, 0, 0]) + huge
            opk = "tx"
    elif nm == "txout_read_in":
        raw = bytes(8) + huge
        opk = "txout"
    elif nm == "script_from_bytes_short":
        raw = bytes([0x4e, 0xff, 0xff, 0xff, 0xff])   # OP_PUSHDATA4 declaring 2^32-1 bytes
        opk = "script"
    else:
        return None
    raws = [raw]
    if nm == "transaction_from_bytes" and kind == "alloc_capacity":
        # the declared count may be the input count or, after a complete (empty or one-element) input section, the output count
        one_in = bytes(32) + bytes(4) + bytes([0]) + bytes(4)
        raws += [bytes([1, 0, 0, 0, 0]) + huge, bytes([1, 0, 0, 0, 1]) + one_in + huge]
    for raw in raws:
        op = {"op": "decode", "kind": opk, "hex": raw.hex()}
        nat = native_decode(op)
        rep = any(("panic" in v or "abort" in v) for v in nat.values())
        if rep:
            break
    return {"message": f"{nm}: allocates a buffer of a size declared inside the input ({'2^32-1' if opk == 'script' else '2^40'}) before checking that the input holds that many bytes", "request": {"tx": {"version": 1, "locktime": 0, "inputs": [], "outputs": []}, "ops": [op]},
            "op_index": 0, "expected": "Err without allocating", "native": nat, "reproduced": rep}


def point_models():
    """content-aware models of the SEC1 / k256 point API over uninterpreted predicates of the key bytes -> (models, FORMAT_OK, ON_CURVE, KIND, KINDS)"""
    import re
    from .models import uf, ok, err, some, NONE, deref
    from .executor import PathPanic
    FORMAT_OK = lambda s: uf("POINT_ENCODING_VALID", SEQ, z3.BoolSort())(s)
    ON_CURVE = lambda s: uf("POINT_ON_CURVE", SEQ, z3.BoolSort())(s)
    KIND = lambda s: uf("POINT_KIND", SEQ, z3.BitVecSort(8))(s)
    KINDS = [("Identity", 0), ("Compact", 1), ("Compressed", 2), ("Uncompressed", 3)]

    def m_from_bytes(ex, a, callee, canon):
        s = ex.bytes_of(a[0])
        if ex.decide(FORMAT_OK(s)):
            return ok(Opaque("EncodedPoint", Bytes(s)))
        return err("sec1::Error")

    def m_from_sec1(ex, a, callee, canon):
        s = ex.bytes_of(a[0])
        if ex.decide(z3.And(FORMAT_OK(s), ON_CURVE(s))):
            return ok(Opaque("K256PublicKey", Bytes(s)))
        return err("elliptic_curve::Error")

    def m_pk_from_encoded_point(ex, a, callee, canon):
        # k256::PublicKey::from_encoded_point -> CtOption
        p = deref(a[0])
        return Opaque("CtOption", (ON_CURVE(p.payload.s), Opaque("K256PublicKey", p.payload)))

    def m_coordinates(ex, a, callee, canon):
        p = deref(a[0])
        s = p.payload.s
        for nm, d in KINDS:
            if ex.decide(KIND(s) == d):
                if nm == "Compressed":
                    return Enum("Coordinates", nm, d, [Ptr([Opaque("FieldBytes", s)], 0), Bool(ex.fresh("y_is_odd", z3.BoolSort()))])
                if nm == "Uncompressed":
                    return Enum("Coordinates", nm, d, [Ptr([Opaque("FieldBytes", s)], 0), Ptr([Opaque("FieldBytes", s)], 0)])
                if nm == "Compact":
                    return Enum("Coordinates", nm, d, [Ptr([Opaque("FieldBytes", s)], 0)])
                return Enum("Coordinates", nm, d, [])
        raise PathPanic("unreachable point kind")

    def m_decompress(ex, a, callee, canon):
        x = deref(a[0])
        return Opaque("CtOption", (ON_CURVE(x.payload), Opaque("AffinePoint", None)))

    def m_affine_from_point(ex, a, callee, canon):
        p = deref(a[0])
        s = p.payload.s
        return Opaque("CtOption", (z3.Or(ON_CURVE(s), KIND(s) == 0), Opaque("AffinePoint", p.payload)))

    def m_ct_map(ex, a, callee, canon):
        c = deref(a[0])
        return Opaque("CtOption", (c.payload[0], Opaque("EncodedPoint", Bytes(seq_of([ex.fresh("pt", z3.BitVecSort(8)) for _ in range(65)])))))

    def m_ct_into_option(ex, a, callee, canon):
        c = deref(a[0])
        if ex.decide(c.payload[0]):
            return some(c.payload[1])
        return NONE()

    def m_ct_unwrap(ex, a, callee, canon):
        c = deref(a[0])
        if ex.decide(c.payload[0]):
            return c.payload[1]
        raise PathPanic("CtOption::unwrap on a value that is not there (assertion left == right)")

    def m_ct_is_some(ex, a, callee, canon):
        c = deref(a[0])
        want = canon.endswith("is_some")
        return Opaque("Choice", c.payload[0] if want else z3.Not(c.payload[0]))

    def m_choice_into_bool(ex, a, callee, canon):
        c = deref(a[0])
        return Bool(c.payload) if isinstance(c, Opaque) and c.tag == "Choice" else c

    def m_choice_from(ex, a, callee, canon):
        return Opaque("Choice", None)

    def m_point_compress(ex, a, callee, canon):
        p = deref(a[0])
        return Opaque("EncodedPoint", Bytes(seq_of([ex.fresh("cpt", z3.BitVecSort(8)) for _ in range(33)])))

    def m_point_is_compressed(ex, a, callee, canon):
        return Bool(ex.fresh("is_compressed", z3.BoolSort()))

    def m_point_as_bytes(ex, a, callee, canon):
        return Ptr([deref(a[0]).payload], 0)

    def m_vk_from_point(ex, a, callee, canon):
        p = deref(a[0])
        if ex.decide(ON_CURVE(p.payload.s)):
            return ok(Opaque("VerifyingKey", p.payload))
        return err("ecdsa::Error")

    def m_to_string(ex, a, callee, canon):
        return Opaque("String")

    R = re.compile
    PK = [(R(r"(^|::)EncodedPoint::from_bytes$"), m_from_bytes), (R(r"(^|::)PublicKey::from_sec1_bytes$"), m_from_sec1), (R(r"(^|::)EncodedPoint::coordinates$"), m_coordinates),
          (R(r"DecompressPoint<.*>>::decompress$"), m_decompress), (R(r"^<(\w+::)*AffinePoint as (\w+::)*FromEncodedPoint<.*>>::from_encoded_point$"), m_affine_from_point),
          (R(r"^<(\w+::)*PublicKey<.*> as (\w+::)*FromEncodedPoint<.*>>::from_encoded_point$|(^|::)PublicKey::from_encoded_point$(?<!public_key::PublicKey::from_encoded_point)"), m_pk_from_encoded_point),
          (R(r"^CtOption::map$"), m_ct_map), (R(r"^<CtOption<.*> as Into<(std::option::)?Option<.*>>>::into$|^<(std::option::)?Option<.*> as From<CtOption<.*>>>::from$"), m_ct_into_option),
          (R(r"^CtOption::unwrap$"), m_ct_unwrap), (R(r"^CtOption::is_some$|^CtOption::is_none$"), m_ct_is_some), (R(r"^<bool as From<(\w+::)*Choice>>::from$|^<(\w+::)*Choice as Into<bool>>::into$"), m_choice_into_bool),
          (R(r"^<(\w+::)*Choice as From<u8>>::from$"), m_choice_from), (R(r"(^|::)EncodedPoint::compress$"), m_point_compress), (R(r"(^|::)EncodedPoint::is_compressed$"), m_point_is_compressed),
          (R(r"(^|::)EncodedPoint::as_bytes$"), m_point_as_bytes), (R(r"(^|::)VerifyingKey::from_encoded_point$"), m_vk_from_point), (R(r"^<.* as ToString>::to_string$"), m_to_string)]
    return PK, FORMAT_OK, ON_CURVE, KIND, KINDS


# ----------------------------------------------------------------------------- C09: a decoded public key never makes a later operation panic
def q_pubkey_use(env, name=None):
    """PublicKey::from_bytes_impl(any bytes) followed by each public operation on the accepted key: no panic path.
    Point-encoding facts are uninterpreted predicates of the bytes: FORMAT_OK (SEC1 tag/length), ON_CURVE (a non-identity curve point),
    KIND (identity / compact / compressed / uncompressed); stated facts: a key whose bytes are ON_CURVE is compressed or uncompressed."""
    import re
    from .models import uf, ok, err, some, NONE, deref
    from .models_hash import HMODELS, _call
    from .models_sign import SMODELS
    from .executor import PathPanic
    qr = QResult(name or "pubkey_use_total")
    P = env.P
    PK, FORMAT_OK, ON_CURVE, KIND, KINDS = point_models()
    smod = [m for m in SMODELS if m[1].__name__ not in ("m_point_from_bytes", "m_vk_from_point", "m_affine_from_point", "m_ctoption_unwrap", "m_from_sec1")]
    base = [m for m in MODELS if not m[1].__name__.startswith(("m_sha256", "m_sha256d", "m_hash160", "m_sha512", "m_ripemd160", "m_sha1"))]
    f_from = env.fn("public_key::PublicKey::from_bytes_impl")
    S = P.structs
    sig = Struct("Signature", [None] * len(S["Signature"]))
    sig.f[S["Signature"].index("sig")] = Opaque("EcdsaSig", z3.BitVec("signature", 768))
    sig.f[S["Signature"].index("recovery")] = Enum("Option", "None", 0, [])
    uses = {
        "to_decompressed": ("public_key::PublicKey::to_decompressed_impl", lambda pk, ctx: [Ptr([pk], 0)]),
        "to_compressed": ("public_key::PublicKey::to_compressed_impl", lambda pk, ctx: [Ptr([pk], 0)]),
        "verify_hashbuf": ("ecdsa::verify::ECDSA::verify_hashbuf_impl", lambda pk, ctx: [Arr([Int(z3.BitVec(f"digest_{i}", 8), "u8") for i in range(32)]), Ptr([pk], 0), Ptr([sig], 0)]),
        "verify_digest": ("ecdsa::verify::ECDSA::verify_digest_impl", lambda pk, ctx: [Ptr([Bytes(ctx.msg)], 0), Ptr([pk], 0), Ptr([sig], 0), Enum("SigningHash", "Sha256d", P.enums["SigningHash"]["Sha256d"])]),
        "derive_shared_key": ("ecdsa::ecdh::ECDH::derive_shared_key_impl", lambda pk, ctx: [Ptr([ctx.sk], 0), Ptr([pk], 0)]),
        "address_from_pubkey": ("address::P2PKHAddress::from_pubkey_impl", lambda pk, ctx: [Ptr([pk], 0)]),
    }
    sk = Struct("PrivateKey", [None] * len(S["PrivateKey"]))
    sk.f[S["PrivateKey"].index("secret_key")] = Opaque("SecretKey", z3.BitVec("own_secret", 256))
    sk.f[S["PrivateKey"].index("is_pub_key_compressed")] = Bool(True)
    examples = {0: "00", 1: "05" + "%064x" % 5, 2: "02" + "%064x" % 5, 3: "04" + "%064x" % 1 + "%064x" % 1}
    for use, (callsite, mkargs) in uses.items():
        try:
            f = env.fn(callsite)
        except Unsupported as e:
            qr.undecided.append(f"{use}: {e}")
            continue
        qr.cases += 1
        ex = Exec(P, PK + smod + HMODELS + base)

        def setup(ex, f=f, mkargs=mkargs):
            ctx = Ctx()
            ctx.raw, ctx.rawL = sym_bytes(ex, ctx, "pubkey_bytes", 65)
            ctx.msg, _ = sym_bytes(ex, ctx, "message", 64)
            ctx.sk = sk
            # stated fact about SEC1 points: an encoding of a non-identity curve point is compressed or uncompressed
            ctx.assumptions.append(z3.Implies(ON_CURVE(ctx.raw), z3.Or(KIND(ctx.raw) == 2, KIND(ctx.raw) == 3)))
            ctx.assumptions.append(z3.ULE(KIND(ctx.raw), 3))
            ctx.f, ctx.mkargs = f, mkargs
            ex._ctx = ctx
            return "__pubkey_use__", [], ctx
        orig = ex.call_fn

        def call_fn(name_, args, ex=ex, orig=orig):
            if name_ != "__pubkey_use__":
                return orig(name_, args)
            ctx = ex._ctx
            r = orig(f_from, [Ptr([Bytes(ctx.raw)], 0)])
            if r.variant != "Ok":
                return r
            return orig(ctx.f, ctx.mkargs(r.f[0], ctx))
        ex.call_fn = call_fn
        try:
            results = ex.explore(setup)
        except Unsupported as e:
            qr.undecided.append(f"{use}: {e}")
            continue
        seen = set()
        for r in results:
            qr.paths += 1
            if r.kind != "panic":
                continue
            key = r.msg.split(" @")[0][:70]
            if key in seen:
                continue
            st = {}
            from . import seqeq as SE
            rr = SE.check_sat(list(r.pc), [], st)
            qr.queries += st.get("queries", 0)
            if rr == z3.unknown:
                qr.undecided.append(f"{use}: solver unknown on a panic path")
            if rr != z3.sat:
                continue
            seen.add(key)
            # which kind of encoding does the path need?
            kind = None
            for k in (2, 3, 0, 1):
                if SE.check_sat(list(r.pc), [KIND(r.ctx.raw) == k], {}) == z3.sat:
                    kind = k
                    break
            op = {"op": "decode", "kind": "pubkey_use", "hex": examples.get(kind, examples[2])}
            nat = native_decode(op)
            item = {"message": f"PublicKey::from_bytes accepts an encoding that is not a curve point ({[n for n, d in KINDS if d == kind]}); {use} on the accepted key panics: {key}", "request": {"tx": {"version": 1, "locktime": 0, "inputs": [], "outputs": []}, "ops": [op]},
                    "op_index": 0, "expected": "Ok or Err (no panic)", "native": nat}
            if any(("panic" in v or "abort" in v) for v in nat.values()):
                qr.violations.append(item)
            else:
                qr.undecided.append(f"{use}: panic path '{key}' not reproduced natively with {op['hex'][:20]}.. -> {json.dumps(nat)[:160]}")
        finish(qr, ex)
    qr.samples.append({"obligation": qr.name, "uses": list(uses)})
    return qr
