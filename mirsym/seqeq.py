"""Equality of byte-string terms without the SMT sequence theory.

Byte strings in this encoding are concatenations of single bytes (bit-vector
terms), opaque atoms (symbolic scripts, results of uninterpreted Seq functions)
and `ite`s over bit-vector conditions.  Two such terms are compared by
flattening both under the path condition (an `ite` whose condition the path
condition does not decide splits the query), aligning atoms syntactically and
handing the remaining byte-wise (dis)equalities — pure QF_BV — to the solver.
Applications of uninterpreted hash functions are abstracted bottom-up: two
applications get the same fresh variable iff their arguments are proved equal
by the same procedure (congruence); otherwise they are unrelated variables, so
nothing is ever proved from a hash collision."""
import time
import z3


class Mismatch(Exception):
    """structural difference between the two flattened strings (an atom facing a byte or another atom, or different lengths)"""


class NeedSplit(Exception):
    def __init__(self, cond):
        self.cond = cond


class SeqEq:
    def __init__(self, pc, timeout_ms=60000, stats=None):
        self.s = z3.Solver()
        self.s.set("timeout", timeout_ms)
        self.classes = []   # (fname, flat_arg, var)
        self.memo_bv = {}
        self.stats = stats if stats is not None else {}
        self.n = 0
        for c in pc:
            # path-condition literals may mention uninterpreted functions of byte strings (e.g. the length of the
            # separator-free subscript): abstract them with the same class variables as the compared terms
            self.s.add(self.abstract(c))

    def _check(self, *assumptions):
        t0 = time.time()
        r = self.s.check(*assumptions)
        self.stats["solver_s"] = self.stats.get("solver_s", 0.0) + time.time() - t0
        self.stats["queries"] = self.stats.get("queries", 0) + 1
        return r

    def implied(self, cond):
        """True / False if pc decides cond, None otherwise"""
        c = z3.simplify(cond)
        if z3.is_true(c):
            return True
        if z3.is_false(c):
            return False
        if self._check(z3.Not(c)) == z3.unsat:
            return True
        if self._check(c) == z3.unsat:
            return False
        return None

    # ------------------------------------------------------------------ flattening
    def flatten(self, t):
        out = []
        self._flat(t, out)
        return out

    def _flat(self, t, out):
        k = t.decl().kind()
        if k == z3.Z3_OP_SEQ_EMPTY:
            return
        if k == z3.Z3_OP_SEQ_UNIT:
            out.append(("u", self.abstract(t.arg(0))))
            return
        if k == z3.Z3_OP_SEQ_CONCAT:
            for i in range(t.num_args()):
                self._flat(t.arg(i), out)
            return
        if k == z3.Z3_OP_ITE:
            d = self.implied(self.abstract(t.arg(0)))
            if d is None:
                raise NeedSplit(t.arg(0))
            self._flat(t.arg(1) if d else t.arg(2), out)
            return
        if k == z3.Z3_OP_UNINTERPRETED:
            if t.num_args() == 0:
                out.append(("a", t.get_id(), t))
            else:
                # Seq-valued uninterpreted function: atom identified by function name + flattened arguments
                args = tuple(self._key(self.flatten(t.arg(i))) if z3.is_seq(t.arg(i)) else ("bv", self.abstract(t.arg(i)).get_id()) for i in range(t.num_args()))
                out.append(("a", (t.decl().name(), args), t))
            return
        raise ValueError("unsupported sequence term: " + str(t)[:200])

    @staticmethod
    def _key(flat):
        return tuple((p[0], p[1].get_id() if p[0] == "u" else p[1]) for p in flat)

    # ------------------------------------------------------------------ hash abstraction inside bit-vector terms
    def abstract(self, bv):
        """replace applications f(seq) of uninterpreted functions by class variables"""
        k = bv.get_id()
        if k in self.memo_bv:
            return self.memo_bv[k]
        if z3.is_app(bv) and bv.num_args() > 0:
            if bv.decl().kind() == z3.Z3_OP_UNINTERPRETED and any(z3.is_seq(bv.arg(i)) for i in range(bv.num_args())):
                flat = self.flatten(bv.arg(0))
                name = bv.decl().name()
                var = None
                for (n2, f2, v2) in self.classes:
                    if n2 == name and self.provably_equal(flat, f2):
                        var = v2
                        break
                if var is None:
                    self.n += 1
                    var = z3.Const(f"{name}#{self.n}", bv.sort())
                    # Ackermann: functional consistency with every earlier application of the same function whose
                    # argument has the same shape (equal argument bytes => equal results); so a model in which two
                    # digests differ also makes their preimages differ
                    for (n2, f2, v2) in self.classes:
                        if n2 != name:
                            continue
                        try:
                            eqs = self.align(flat, f2)
                        except Mismatch:
                            continue
                        if eqs:
                            self.s.add(z3.Implies(z3.And(*eqs), var == v2))
                    self.classes.append((name, flat, var))
                r = var
            else:
                ch = [self.abstract(c) if not z3.is_seq(c) else c for c in bv.children()]
                r = bv.decl()(*ch)
        else:
            r = bv
        self.memo_bv[k] = r
        return r

    # ------------------------------------------------------------------ comparison
    def align(self, A, B):
        """-> list of bit-vector equalities that make A == B; raises Mismatch on structural difference"""
        if len(A) != len(B):
            raise Mismatch(f"different shapes: {len(A)} vs {len(B)} pieces")
        eqs = []
        for x, y in zip(A, B):
            if x[0] != y[0]:
                raise Mismatch("an opaque byte string faces a single byte")
            if x[0] == "a":
                if x[1] != y[1]:
                    raise Mismatch(f"different opaque byte strings: {x[2]} vs {y[2]}")
            else:
                if x[1].get_id() != y[1].get_id():
                    eqs.append(x[1] == y[1])
        return eqs

    def provably_equal(self, A, B):
        try:
            eqs = self.align(A, B)
        except Mismatch:
            return False
        if not eqs:
            return True
        return self._check(z3.Not(z3.And(*eqs))) == z3.unsat


def compare(pc, a, b, stats=None, depth=0):
    """a, b: Seq terms.  -> list of outcomes, one per case split:
       ('equal', pc') | ('differ', pc', model_or_None, reason) | ('unknown', pc', reason)"""
    se = SeqEq(pc, stats=stats)
    try:
        A = se.flatten(a)
        B = se.flatten(b)
    except NeedSplit as ns:
        if depth > 12:
            return [("unknown", pc, "too many case splits")]
        c = ns.cond
        return compare(pc + [c], a, b, stats, depth + 1) + compare(pc + [z3.Not(c)], a, b, stats, depth + 1)
    if se._check() != z3.sat:
        return []  # this case split is infeasible
    try:
        eqs = se.align(A, B)
    except Mismatch as mm:
        return [("differ", pc, se.s.model(), str(mm))]
    if not eqs:
        return [("equal", pc)]
    r = se._check(z3.Not(z3.And(*eqs)))
    if r == z3.unsat:
        return [("equal", pc)]
    if r == z3.sat:
        return [("differ", pc, se.s.model(), "bytes differ")]
    return [("unknown", pc, se.s.reason_unknown())]
