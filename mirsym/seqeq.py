"""Equality of byte-string terms without the SMT sequence theory.

Byte strings in this encoding are concatenations of single bytes (bit-vector
terms), opaque atoms (symbolic scripts, results of uninterpreted Seq functions)
and `ite`s over bit-vector conditions.  Two such terms are compared by
flattening both under the path condition (an `ite` whose condition the path
condition does not decide splits the query), aligning atoms syntactically and
handing the remaining byte-wise (dis)equalities — pure QF_BV — to the solver.
Applications of uninterpreted hash functions are abstracted bottom-up: two
applications get the same fresh variable iff their arguments are proved equal
by the same procedure (congruence); otherwise they are unrelated variables, so
nothing is ever proved from a hash collision."""
import time
import z3


COMMUTATIVE = {"BIGMUL"}

_HAS_UF = {}   # term id -> (term kept alive, bool): does the term contain an uninterpreted function application?


def has_uf(t):
    k = t.get_id()
    hit = _HAS_UF.get(k)
    if hit is not None:
        return hit[1]
    r = False
    if z3.is_app(t) and t.num_args() > 0:
        if t.decl().kind() == z3.Z3_OP_UNINTERPRETED:
            r = True
        else:
            for c in t.children():
                if has_uf(c):
                    r = True
                    break
    _HAS_UF[k] = (t, r)
    return r


# ---------------------------------------------------------------- second solver
# A sample of the QF_BV queries (the first CROSS_BUDGET per process) is exported as SMT-LIB and decided again by cvc5; a disagreement
# makes the whole run undecided (see run.py).  Queries that still mention sequence terms are skipped (cvc5 gets pure bit-vector logic).
CROSS = {"done": 0, "agree": 0, "disagree": [], "inconclusive": 0}
CROSS_BUDGET = int(__import__("os").environ.get("MIRSYM_CROSSCHECK", "12"))


def crosscheck(solver, assumptions, verdict):
    if CROSS["done"] >= CROSS_BUDGET:
        return
    import subprocess, tempfile, os
    try:
        s2 = z3.Solver()
        for a in solver.assertions():
            s2.add(a)
        for a in assumptions:
            s2.add(a)
        text = s2.to_smt2()
        if "Seq" in text or "seq." in text:
            return
        CROSS["done"] += 1
        body = "(set-logic QF_UFBV)\n" + "\n".join(l for l in text.splitlines() if not l.startswith("(set-info") and not l.startswith("; ")) + "\n"
        with tempfile.NamedTemporaryFile("w", suffix=".smt2", delete=False) as f:
            f.write(body)
            path = f.name
        try:
            p = subprocess.run(["cvc5", "--lang", "smt2", "--tlimit=20000", path], stdout=subprocess.PIPE, stderr=subprocess.PIPE, text=True, timeout=40)
            out = (p.stdout or "").strip().splitlines()
        finally:
            os.unlink(path)
        ans = out[0].strip() if out else ""
        if "(error" in (p.stdout or "") or ans not in ("sat", "unsat"):
            CROSS["inconclusive"] += 1
            return
        if ans == str(verdict):
            CROSS["agree"] += 1
        else:
            CROSS["disagree"].append(f"z3 {verdict} vs cvc5 {ans} ({len(body)} bytes of SMT-LIB)")
    except Exception:
        CROSS["inconclusive"] += 1


class Mismatch(Exception):
    """structural difference between the two flattened strings (an atom facing a byte or another atom, or different lengths)"""


class NeedSplit(Exception):
    def __init__(self, cond):
        self.cond = cond


class SeqEq:
    def __init__(self, pc, timeout_ms=60000, stats=None, axioms=()):
        self.s = z3.Solver()
        self.s.set("timeout", timeout_ms)
        self.classes = []   # (fname, flat_arg, var)
        self.bvclasses = []  # (fname, abstracted args, var)
        self.memo_bv = {}
        self._alive = []    # memo keys are z3 AST ids: keep every memoised term alive so that an id is never reused by another term
        self.stats = stats if stats is not None else {}
        self.n = 0
        for c in list(pc) + list(axioms):
            # path-condition literals may mention uninterpreted functions of byte strings (e.g. the length of the
            # separator-free subscript): abstract them with the same class variables as the compared terms
            self.s.add(self.abstract(c))

    def _check(self, *assumptions):
        t0 = time.time()
        r = self.s.check(*assumptions)
        self.stats["solver_s"] = self.stats.get("solver_s", 0.0) + time.time() - t0
        self.stats["queries"] = self.stats.get("queries", 0) + 1
        if r != z3.unknown:
            crosscheck(self.s, assumptions, r)
        return r

    def implied(self, cond):
        """True / False if pc decides cond, None otherwise"""
        c = z3.simplify(cond)
        if z3.is_true(c):
            return True
        if z3.is_false(c):
            return False
        if self._check(z3.Not(c)) == z3.unsat:
            return True
        if self._check(c) == z3.unsat:
            return False
        return None

    # ------------------------------------------------------------------ flattening
    def flatten(self, t):
        out = []
        self._flat(t, out)
        return out

    def _flat(self, t, out):
        k = t.decl().kind()
        if k == z3.Z3_OP_SEQ_EMPTY:
            return
        if k == z3.Z3_OP_SEQ_UNIT:
            out.append(("u", self.abstract(t.arg(0))))
            return
        if k == z3.Z3_OP_SEQ_CONCAT:
            for i in range(t.num_args()):
                self._flat(t.arg(i), out)
            return
        if k == z3.Z3_OP_ITE:
            d = self.implied(self.abstract(t.arg(0)))
            if d is None:
                raise NeedSplit(t.arg(0))
            self._flat(t.arg(1) if d else t.arg(2), out)
            return
        if k == z3.Z3_OP_UNINTERPRETED:
            if t.num_args() == 0:
                out.append(("a", t.get_id(), t))
            else:
                # Seq-valued uninterpreted function: atom identified by function name + flattened arguments
                args = tuple(self._key(self.flatten(t.arg(i))) if z3.is_seq(t.arg(i)) else ("bv", self.abstract(t.arg(i)).get_id()) for i in range(t.num_args()))
                out.append(("a", (t.decl().name(), args), t))
            return
        raise ValueError("unsupported sequence term: " + str(t)[:200])

    @staticmethod
    def _key(flat):
        return tuple((p[0], p[1].get_id() if p[0] == "u" else p[1]) for p in flat)

    # ------------------------------------------------------------------ hash abstraction inside bit-vector terms
    def abstract(self, bv):
        """replace applications f(seq) of uninterpreted functions by class variables"""
        k = bv.get_id()
        if k in self.memo_bv:
            return self.memo_bv[k]
        if not has_uf(bv):
            return bv
        if z3.is_app(bv) and bv.num_args() > 0:
            if bv.decl().kind() == z3.Z3_OP_UNINTERPRETED and any(z3.is_seq(bv.arg(i)) for i in range(bv.num_args())):
                # every argument takes part in the class: byte-string arguments flattened, bit-vector arguments abstracted
                args = [("s", self.flatten(bv.arg(i))) if z3.is_seq(bv.arg(i)) else ("b", self.abstract(bv.arg(i))) for i in range(bv.num_args())]
                name = bv.decl().name()
                var = None
                for (n2, a2, v2) in self.classes:
                    if n2 == name and self._args_equal(args, a2):
                        var = v2
                        break
                if var is None:
                    self.n += 1
                    var = z3.Const(f"{name}#{self.n}", bv.sort())
                    # Ackermann: functional consistency with every earlier application of the same function whose
                    # arguments have the same shape (equal argument bytes => equal results); so a model in which two
                    # digests differ also makes their preimages differ
                    for (n2, a2, v2) in self.classes:
                        if n2 != name:
                            continue
                        try:
                            eqs = self._args_align(args, a2)
                        except Mismatch:
                            continue
                        if eqs:
                            self.s.add(z3.Implies(z3.And(*eqs), var == v2))
                    self.classes.append((name, args, var))
                r = var
            elif bv.decl().kind() == z3.Z3_OP_UNINTERPRETED and not any(z3.is_seq(c) for c in bv.children()):
                # uninterpreted function of bit-vectors (external big-number multiplication/division): class variable per
                # provably equal argument tuple (argument order irrelevant for the commutative BIGMUL)
                name = bv.decl().name()
                args = [self.abstract(c) for c in bv.children()]
                var = None
                for (n2, a2, v2) in self.bvclasses:
                    if n2 != name or len(a2) != len(args):
                        continue
                    cands = [list(zip(args, a2))]
                    if name in COMMUTATIVE and len(args) == 2:
                        cands.append(list(zip(args, reversed(a2))))
                    for pairs in cands:
                        eqs = [p == q for p, q in pairs if p.get_id() != q.get_id()]
                        if not eqs or self._check(z3.Not(z3.And(*eqs))) == z3.unsat:
                            var = v2
                            break
                    if var is not None:
                        break
                if var is None:
                    self.n += 1
                    var = z3.Const(f"{name}#{self.n}", bv.sort())
                    for (n2, a2, v2) in self.bvclasses:
                        if n2 == name and len(a2) == len(args):
                            self.s.add(z3.Implies(z3.And(*[p == q for p, q in zip(args, a2)]), var == v2))
                    self.bvclasses.append((name, args, var))
                r = var
            else:
                ch = [self.abstract(c) if not z3.is_seq(c) else c for c in bv.children()]
                r = bv.decl()(*ch)
        else:
            r = bv
        self.memo_bv[k] = r
        self._alive.append(bv)
        return r

    # ------------------------------------------------------------------ comparison
    def align(self, A, B):
        """-> list of bit-vector equalities that make A == B; raises Mismatch on structural difference"""
        if len(A) != len(B):
            raise Mismatch(f"different shapes: {len(A)} vs {len(B)} pieces")
        eqs = []
        for x, y in zip(A, B):
            if x[0] != y[0]:
                raise Mismatch("an opaque byte string faces a single byte")
            if x[0] == "a":
                if x[1] != y[1]:
                    raise Mismatch(f"different opaque byte strings: {x[2]} vs {y[2]}")
            else:
                if x[1].get_id() != y[1].get_id():
                    eqs.append(x[1] == y[1])
        return eqs

    def _args_align(self, X, Y):
        if len(X) != len(Y):
            raise Mismatch("different arity")
        eqs = []
        for (kx, x), (ky, y) in zip(X, Y):
            if kx != ky:
                raise Mismatch("argument kinds differ")
            if kx == "s":
                eqs += self.align(x, y)
            elif x.get_id() != y.get_id():
                eqs.append(x == y)
        return eqs

    def _args_equal(self, X, Y):
        try:
            eqs = self._args_align(X, Y)
        except Mismatch:
            return False
        if not eqs:
            return True
        return self._check(z3.Not(z3.And(*eqs))) == z3.unsat

    def provably_equal(self, A, B):
        try:
            eqs = self.align(A, B)
        except Mismatch:
            return False
        if not eqs:
            return True
        return self._check(z3.Not(z3.And(*eqs))) == z3.unsat


def commutativity_axioms(terms, fname="BIGMUL"):
    """instances f(p,q) == f(q,p) for every application of the (mathematically commutative) uninterpreted function in the terms"""
    seen, out, todo = set(), [], list(terms)
    while todo:
        t = todo.pop()
        if t.get_id() in seen:
            continue
        seen.add(t.get_id())
        if z3.is_app(t):
            if t.decl().kind() == z3.Z3_OP_UNINTERPRETED and t.decl().name() == fname and t.num_args() == 2:
                out.append(t == t.decl()(t.arg(1), t.arg(0)))
            todo.extend(t.children())
    return out


def compare(pc, a, b, stats=None, depth=0, axioms=()):
    """a, b: Seq terms.  -> list of outcomes, one per case split:
       ('equal', pc') | ('differ', pc', model_or_None, reason) | ('unknown', pc', reason)"""
    se = SeqEq(pc, stats=stats, axioms=axioms)
    try:
        A = se.flatten(a)
        B = se.flatten(b)
    except NeedSplit as ns:
        if depth > 8:
            return [("unknown", pc, "too many case splits")]
        c = ns.cond
        return compare(pc + [c], a, b, stats, depth + 1, axioms) + compare(pc + [z3.Not(c)], a, b, stats, depth + 1, axioms)
    if se._check() != z3.sat:
        return []  # this case split is infeasible
    try:
        eqs = se.align(A, B)
    except Mismatch as mm:
        return [("differ", pc, se.s.model(), str(mm))]
    if not eqs:
        return [("equal", pc)]
    r = se._check(z3.Not(z3.And(*eqs)))
    if r == z3.unsat:
        return [("equal", pc)]
    if r == z3.sat:
        return [("differ", pc, se.s.model(), "bytes differ")]
    return [("unknown", pc, se.s.reason_unknown())]


def check_sat(pc, extra, stats=None, depth=0):
    """satisfiability of pc /\\ extra with hash abstraction; an `ite` over byte strings whose condition pc does not decide splits the query"""
    try:
        se = SeqEq(list(pc), stats=stats)
        return se._check(*[se.abstract(e) for e in extra])
    except NeedSplit as ns:
        if depth > 8:
            return z3.unknown
        a = check_sat(list(pc) + [ns.cond], extra, stats, depth + 1)
        if a == z3.sat:
            return a
        b = check_sat(list(pc) + [z3.Not(ns.cond)], extra, stats, depth + 1)
        if b == z3.sat:
            return b
        return z3.unknown if z3.unknown in (a, b) else z3.unsat
