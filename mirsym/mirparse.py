"""Parser for the subset of rustc's `-Zunpretty=mir` text that the target
functions of bsv-wasm use.  Output: dict name -> Fn with typed locals, basic
blocks of (statements, terminator) in a small AST of tuples."""
import re

# ----------------------------------------------------------------------------- helpers


def find_close(s, i, open_ch="(", close_ch=")"):
    """s[i] == open_ch; return index of the matching close (only counts this bracket kind,
    skipping string literals)."""
    depth = 0
    j = i
    n = len(s)
    while j < n:
        c = s[j]
        if c == '"':
            j += 1
            while j < n and s[j] != '"':
                if s[j] == "\\":
                    j += 1
                j += 1
        elif c == open_ch:
            depth += 1
        elif c == close_ch:
            depth -= 1
            if depth == 0:
                return j
        j += 1
    raise ValueError("unbalanced: " + s[i:i + 80])


def split_top(s, sep=","):
    """split on sep at depth 0 of ()[]{} and <> (with '->' and '=>' not counting as '>')."""
    out, depth, cur = [], 0, []
    i, n = 0, len(s)
    while i < n:
        c = s[i]
        if c == '"':
            j = i + 1
            while j < n and s[j] != '"':
                if s[j] == "\\":
                    j += 1
                j += 1
            cur.append(s[i:j + 1])
            i = j + 1
            continue
        if c in "([{":
            depth += 1
        elif c in ")]}":
            depth -= 1
        elif c == "<":
            depth += 1
        elif c == ">":
            if i > 0 and s[i - 1] in "-=":
                pass
            else:
                depth -= 1
        if c == sep and depth == 0:
            out.append("".join(cur).strip())
            cur = []
        else:
            cur.append(c)
        i += 1
    last = "".join(cur).strip()
    if last:
        out.append(last)
    return out


# ----------------------------------------------------------------------------- places / operands

def parse_place(s, i=0):
    """-> (place, next_index); place = ('local', n) | ('deref', p) | ('field', p, idx, ty) |
    ('downcast', p, variant) | ('index', p, operand_place) | ('constindex', p, n)"""
    s_len = len(s)
    if s[i] == "(":
        if s.startswith("(*", i):
            inner, j = parse_place(s, i + 2)
            assert s[j] == ")", s[i:]
            p = ("deref", inner)
            j += 1
        else:
            inner, j = parse_place(s, i + 1)
            if s.startswith(" as ", j):
                k = s.index(")", j)
                p = ("downcast", inner, s[j + 4:k].strip())
                j = k + 1
            elif s[j] == ".":
                m = re.match(r"\.(\d+): ", s[j:])
                assert m, s[i:]
                close = find_close(s, i)
                ty = s[j + m.end():close]
                p = ("field", inner, int(m.group(1)), ty)
                j = close + 1
            else:
                raise ValueError("place? " + s[i:i + 120])
    else:
        m = re.match(r"_(\d+)", s[i:])
        if not m:
            raise ValueError("place? " + s[i:i + 120])
        p = ("local", int(m.group(1)))
        j = i + m.end()
    # suffixes
    while j < s_len and s[j] == "[":
        k = find_close(s, j, "[", "]")
        idx = s[j + 1:k]
        m = re.match(r"_(\d+)$", idx)
        if m:
            p = ("index", p, int(m.group(1)))
        else:
            m = re.match(r"(\d+) of (\d+)$", idx)
            if m:
                p = ("constindex", p, int(m.group(1)))
            else:
                m = re.match(r"(\d*):(-?\d*)$", idx)
                if m:
                    p = ("subslice", p, idx)
                else:
                    raise ValueError("index? " + idx)
        j = k + 1
    return p, j


def parse_operand(s):
    s = s.strip()
    if s.startswith("no_retag "):
        s = s[len("no_retag "):]
    if s.startswith("copy "):
        p, j = parse_place(s, 5)
        assert j == len(s), s
        return ("copy", p)
    if s.startswith("move "):
        p, j = parse_place(s, 5)
        assert j == len(s), s
        return ("move", p)
    if s.startswith("const "):
        return ("const", s[6:].strip())
    if re.match(r"[\w<]", s) and "(" not in s.split("::")[0]:
        return ("fnitem", s)
    raise ValueError("operand? " + s)


BINOPS = ("AddWithOverflow", "SubWithOverflow", "MulWithOverflow", "AddUnchecked", "SubUnchecked", "MulUnchecked", "ShlUnchecked", "ShrUnchecked",
          "Add", "Sub", "Mul", "Div", "Rem", "BitXor", "BitAnd", "BitOr", "Shl", "Shr", "Eq", "Lt", "Le", "Ne", "Ge", "Gt", "Cmp", "Offset")
UNOPS = ("Not", "Neg", "PtrMetadata")
_binop_re = re.compile(r"(" + "|".join(BINOPS) + r")\((.*)\)$", re.S)
_unop_re = re.compile(r"(" + "|".join(UNOPS) + r")\((.*)\)$", re.S)


def parse_rvalue(s):
    s = s.strip()
    if s.startswith("no_retag "):
        s = s[len("no_retag "):]
    m = _binop_re.match(s)
    if m:
        a = split_top(m.group(2))
        if len(a) == 2:
            return ("binop", m.group(1), parse_operand(a[0]), parse_operand(a[1]))
    m = _unop_re.match(s)
    if m:
        return ("unop", m.group(1), parse_operand(m.group(2)))
    if s.startswith("discriminant("):
        p, j = parse_place(s, len("discriminant("))
        return ("discriminant", p)
    if s.startswith("Len("):
        p, j = parse_place(s, 4)
        return ("len", p)
    if s.startswith("&raw const ") or s.startswith("&raw mut "):
        k = s.index(" ", 5) + 1
        p, j = parse_place(s, k)
        return ("ref", p, "raw")
    if s.startswith("&mut "):
        p, j = parse_place(s, 5)
        assert j == len(s), s
        return ("ref", p, "mut")
    if s.startswith("&fake "):
        k = s.index(" ", 6) + 1 if s.startswith("&fake shallow ") else 6
        p, j = parse_place(s, k)
        return ("ref", p, "shared")
    if s.startswith("&"):
        p, j = parse_place(s, 1)
        assert j == len(s), s
        return ("ref", p, "shared")
    mfn = re.match(r"([\w<][^\n]*?) as ((?:for<[^>]*> )?(?:unsafe )?fn\(.*) \((PointerCoercion\(ReifyFnPointer.*\))\)$", s, re.S)
    if mfn and not s.startswith(("copy ", "move ", "const ")):
        return ("cast", ("fnitem", mfn.group(1).strip()), mfn.group(2).strip(), mfn.group(3))
    if s.startswith(("copy ", "move ", "const ")):
        # possible cast:  <operand> as <ty> (<Kind>)
        m = re.match(r"(.*) as (.*) \((\w+(?:\(.*\))?)\)$", s, re.S)
        if m and not s.startswith("const \""):
            try:
                op = parse_operand(m.group(1))
                return ("cast", op, m.group(2).strip(), m.group(3))
            except (ValueError, AssertionError):
                pass
        return ("use", parse_operand(s))
    if s.startswith("["):
        k = find_close(s, 0, "[", "]")
        inner = s[1:k]
        parts = split_top(inner, ";")
        if len(parts) == 2 and k == len(s) - 1:
            return ("repeat", parse_operand(parts[0]), parts[1].strip())
        return ("array", [parse_operand(x) for x in split_top(inner)])
    if s.startswith("(") and s.endswith(")"):
        inner = s[1:-1]
        return ("tuple", [parse_operand(x) for x in split_top(inner)] if inner.strip() else [])
    if s.startswith("{closure@") or s.startswith("{coroutine@"):
        k = find_close(s, 0, "{", "}")
        cty = s[:k + 1]
        rest = s[k + 1:].strip()
        fields = []
        if rest.startswith("{"):
            inner = rest[1:find_close(rest, 0, "{", "}")]
            for f in split_top(inner):
                name, op = f.split(":", 1)
                fields.append((name.strip(), parse_operand(op)))
        return ("closure", cty, fields)
    # aggregates: Path { f: op, .. } | Path(op, ..) | Path (unit)
    m = re.match(r"([^\s({][^{(]*?)\s*\{(.*)\}$", s, re.S)
    if m and not s.endswith(")"):
        fields = []
        for f in split_top(m.group(2)):
            name, op = f.split(":", 1)
            fields.append((name.strip(), parse_operand(op)))
        return ("adt", m.group(1).strip(), fields, "struct")
    if s.endswith(")"):
        # find the argument group: last balanced parens
        depth = 0
        j = len(s) - 1
        while j >= 0:
            if s[j] == ")":
                depth += 1
            elif s[j] == "(":
                depth -= 1
                if depth == 0:
                    break
            j -= 1
        path = s[:j].strip()
        inner = s[j + 1:-1]
        ops = [parse_operand(x) for x in split_top(inner)] if inner.strip() else []
        return ("adt", path, [(str(i), o) for i, o in enumerate(ops)], "tuple")
    return ("adt", s, [], "unit")


# ----------------------------------------------------------------------------- terminators

_targets_re = re.compile(r"\s*->\s*(\[.*\]|unwind.*|bb\d+)\s*$", re.S)


def parse_targets(t):
    """'[return: bb1, unwind continue]' -> dict"""
    d = {}
    t = t.strip()
    if t.startswith("["):
        for part in split_top(t[1:-1]):
            if ":" in part:
                k, v = part.split(":", 1)
                d[k.strip()] = v.strip()
            else:
                d[part.split()[0]] = " ".join(part.split()[1:])
    else:
        d["unwind"] = t
    return d


def parse_terminator(s):
    s = s.strip().rstrip(";").strip()
    if s == "return":
        return ("return",)
    if s == "unreachable":
        return ("unreachable",)
    if s in ("resume", "abort") or s.startswith("terminate") or s.startswith("unwind_"):
        return ("resume",)
    m = re.match(r"goto -> (bb\d+)$", s)
    if m:
        return ("goto", m.group(1))
    if s.startswith("switchInt("):
        k = find_close(s, len("switchInt"))
        op = parse_operand(s[len("switchInt("):k])
        tg = s[k + 1:].strip()
        assert tg.startswith("-> ["), s
        cases = []
        other = None
        for part in split_top(tg[4:-1]):
            kk, v = part.split(":")
            kk = kk.strip()
            if kk == "otherwise":
                other = v.strip()
            else:
                cases.append((int(kk), v.strip()))
        return ("switch", op, cases, other)
    if s.startswith("drop("):
        k = find_close(s, 4)
        p, _ = parse_place(s, 5)
        return ("drop", p, parse_targets(s[k + 1:].strip()[2:].strip()))
    if s.startswith("assert("):
        k = find_close(s, 6)
        args = split_top(s[7:k])
        cond = args[0].strip()
        neg = False
        if cond.startswith("!"):
            neg = True
            cond = cond[1:]
        msg = args[1] if len(args) > 1 else ""
        return ("assert", parse_operand(cond), neg, msg, parse_targets(s[k + 1:].strip()[2:].strip()))
    if s.startswith("falseEdge") or s.startswith("falseUnwind"):
        m = re.search(r"real: (bb\d+)", s)
        return ("goto", m.group(1))
    # call:  [DEST = ] callee(args) -> targets
    m = _targets_re.search(s)
    if not m:
        raise ValueError("terminator? " + s)
    targets = parse_targets(m.group(1))
    head = s[:m.start()].rstrip()
    assert head.endswith(")"), s
    depth = 0
    j = len(head) - 1
    while j >= 0:
        c = head[j]
        if c == ")":
            depth += 1
        elif c == "(":
            depth -= 1
            if depth == 0:
                break
        j -= 1
    args_s = head[j + 1:-1]
    callee_part = head[:j]
    dest = None
    # destination: a place followed by ' = ' at depth 0 from the start
    mm = re.match(r"(\(.*?\)|_\d+)(\[[^\]]*\])* = ", callee_part)
    if callee_part.startswith("_") or callee_part.startswith("("):
        # parse a place from the start
        try:
            p, jj = parse_place(callee_part, 0)
            if callee_part.startswith(" = ", jj):
                dest = p
                callee_part = callee_part[jj + 3:]
        except (ValueError, AssertionError):
            pass
    args = [parse_operand(a) for a in split_top(args_s)] if args_s.strip() else []
    callee = callee_part.strip()
    if callee.startswith(("move ", "copy ")):
        callee = ("indirect", parse_operand(callee))
    return ("call", dest, callee, args, targets)


# ----------------------------------------------------------------------------- functions

class Fn:
    def __init__(self, name, params, ret, body_text):
        self.name = name
        self.params = params  # list of (local_no, type)
        self.ret = ret
        self.body_text = body_text
        self.locals = {}      # n -> type string
        self.blocks = None    # name -> (stmts, term)
        self.cleanup = set()
        self.debug = {}

    def parse_body(self):
        if self.blocks is not None:
            return
        self.blocks = {}
        txt = self.body_text
        for m in re.finditer(r"^\s*let (?:mut )?_(\d+): (.*);$", txt, re.M):
            self.locals[int(m.group(1))] = m.group(2).strip()
        for n, t in self.params:
            self.locals[n] = t
        for m in re.finditer(r"^\s*debug (\w+) => (.*);$", txt, re.M):
            self.debug[m.group(1)] = m.group(2)
        for m in re.finditer(r"^    (bb\d+)( \(cleanup\))?: \{\n(.*?)^    \}$", txt, re.S | re.M):
            name, cleanup, body = m.group(1), m.group(2), m.group(3)
            if cleanup:
                self.cleanup.add(name)
                self.blocks[name] = None  # cleanup blocks are never executed (panics end the path)
                continue
            # statements end with ';' at end of line; a statement may span lines (rare) -> join
            lines = [l.strip() for l in body.strip().split("\n")]
            stmts_txt, cur = [], ""
            for l in lines:
                cur = (cur + " " + l).strip() if cur else l
                if cur.endswith(";"):
                    stmts_txt.append(cur[:-1])
                    cur = ""
            if cur:
                stmts_txt.append(cur)
            term_txt = stmts_txt[-1]
            stmts = []
            for st in stmts_txt[:-1]:
                stmts.append(parse_statement(st))
            self.blocks[name] = (stmts, parse_terminator(term_txt))


def parse_statement(st):
    st = st.strip()
    if st.startswith(("StorageLive", "StorageDead", "nop", "FakeRead", "PlaceMention", "AscribeUserType", "Coverage", "ConstEvalCounter", "Retag", "BackwardIncompatibleDropHint")):
        return ("nop",)
    if st.startswith("assume("):
        return ("nop",)
    if st.startswith("discriminant(") and ") = " in st:
        k = find_close(st, len("discriminant"))
        p, _ = parse_place(st, len("discriminant("))
        return ("setdiscr", p, int(st[k + 4:].strip()))
    if st.startswith("Deinit("):
        return ("nop",)
    p, j = parse_place(st, 0)
    assert st.startswith(" = ", j), st
    return ("assign", p, parse_rvalue(st[j + 3:]))


_fn_head = re.compile(r"^(fn|const|static) (.*)$", re.M)


def parse_mir(text):
    """-> dict name -> Fn (bodies parsed lazily)"""
    fns = {}
    # top-level items start at column 0 with 'fn ' / 'const ' / 'static ' and end with '\n}\n'
    pos = 0
    for m in re.finditer(r"^(fn |const |static (?:mut )?)", text, re.M):
        start = m.start()
        if start < pos:
            continue
        line_end = text.index("\n", start)
        head = text[start:line_end]
        if not head.rstrip().endswith("{"):
            mm1 = re.match(r"const (.*?): (.*?) = (const .*);$", head.strip())
            if mm1:
                f1 = Fn(mm1.group(1), [], mm1.group(2), mm1.group(3))
                f1.is_const = True
                fns[mm1.group(1)] = f1
            pos = line_end
            continue
        end = text.find("\n}\n", start)
        if end < 0:
            end = len(text)
        body = text[line_end + 1:end]
        pos = end
        kind = m.group(1).strip()
        if kind == "fn":
            h = head[3:].rstrip()[:-1].rstrip()
            # name(params) -> ret
            # find the parameter list: first '(' at angle-depth 0 after the name; names contain '<impl at ..>' and '{closure#0}'
            i = 0
            depth = 0
            while i < len(h):
                c = h[i]
                if c == "<":
                    depth += 1
                elif c == ">" and (i == 0 or h[i - 1] not in "-="):
                    depth -= 1
                elif c == "(" and depth == 0:
                    break
                i += 1
            name = h[:i]
            k = find_close(h, i)
            params_s = h[i + 1:k]
            ret = h[k + 1:].strip()
            ret = ret[2:].strip() if ret.startswith("->") else "()"
            params = []
            for p in split_top(params_s):
                mm = re.match(r"_(\d+): (.*)$", p, re.S)
                if mm:
                    params.append((int(mm.group(1)), mm.group(2).strip()))
            fns[name] = Fn(name, params, ret, body)
        else:
            h = head[len(m.group(1)):].rstrip()[:-1].rstrip()
            # name: type =
            mm = re.match(r"(.*): (.*?) =$", h, re.S)
            if mm:
                f = Fn(mm.group(1), [], mm.group(2), body)
                f.is_const = True
                fns[mm.group(1)] = f
    return fns


if __name__ == "__main__":
    import sys
    fns = parse_mir(open(sys.argv[1]).read())
    pat = re.compile(sys.argv[2]) if len(sys.argv) > 2 else None
    ok = bad = 0
    for n, f in fns.items():
        if pat and not pat.search(n):
            continue
        try:
            f.parse_body()
            ok += 1
        except Exception as e:
            bad += 1
            print("PARSE FAIL", n, "::", repr(e)[:300])
    print(len(fns), "items;", ok, "parsed,", bad, "failed")
