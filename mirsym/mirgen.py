"""Regenerate the MIR dump of /repo's current working tree (cached by a hash of src/** + Cargo.toml + Cargo.lock)."""
import hashlib, os, subprocess, time

VERIF = os.path.dirname(os.path.dirname(os.path.abspath(__file__)))
BUILD = os.path.join(VERIF, "build")


def src_hash(repo="/repo"):
    h = hashlib.sha256()
    files = []
    for root, _, fs in os.walk(os.path.join(repo, "src")):
        for f in fs:
            files.append(os.path.join(root, f))
    files += [os.path.join(repo, "Cargo.toml"), os.path.join(repo, "Cargo.lock")]
    for p in sorted(files):
        if os.path.exists(p):
            h.update(p.encode())
            h.update(open(p, "rb").read())
    return h.hexdigest()[:20]


def get_mir(repo="/repo"):
    """-> (mir_text, info)"""
    hsh = src_hash(repo)
    d = os.path.join(BUILD, "mir")
    os.makedirs(d, exist_ok=True)
    path = os.path.join(d, hsh + ".mir")
    info = {"src_hash": hsh, "cached": True, "gen_s": 0.0}
    import fcntl
    lock = open(os.path.join(d, "gen.lock"), "w")
    fcntl.flock(lock, fcntl.LOCK_EX)   # one generator at a time; the others find the cache filled
    if not os.path.exists(path) or os.path.getsize(path) < 1000:
        t0 = time.time()
        env = dict(os.environ, CARGO_NET_OFFLINE="true", CARGO_TARGET_DIR=os.path.join(BUILD, "mir-target"), CARGO_TERM_COLOR="never")
        # a hash-dependent codegen flag forces rustc to run again for a changed tree without touching /repo
        cmd = ["cargo", "+nightly", "rustc", "--offline", "--lib", "--", "-Zunpretty=mir", "-C", "debug-assertions=off", "-C", "overflow-checks=on",
               "-C", f"metadata=mirsym{hsh}", "-Awarnings"]
        p = subprocess.run(cmd, cwd=repo, env=env, stdout=subprocess.PIPE, stderr=subprocess.PIPE, text=True)
        if p.returncode != 0 or "fn " not in p.stdout:
            raise RuntimeError("MIR generation failed:\n" + p.stderr[-3000:])
        tmp = path + f".tmp{os.getpid()}"
        open(tmp, "w").write(p.stdout)
        os.replace(tmp, path)
        info.update({"cached": False, "gen_s": round(time.time() - t0, 1)})
        # keep the cache small
        olds = sorted((os.path.getmtime(os.path.join(d, f)), f) for f in os.listdir(d) if f.endswith(".mir"))
        for _, f in olds[:-6]:
            os.unlink(os.path.join(d, f))
    fcntl.flock(lock, fcntl.LOCK_UN)
    lock.close()
    return open(path).read(), info
