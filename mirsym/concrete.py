"""Concrete evaluation of SMT terms under a model (uninterpreted primitives replaced by the
real algorithms from hashlib), model -> native request conversion, and the native txtool bridge."""
import hashlib, json, os, subprocess, tempfile
import z3
from .values import SEQ

SAFE_OPS = [0x61, 0x51, 0x52, 0x53, 0x54, 0x55, 0x56, 0x57, 0x58, 0x59, 0x5a, 0x75, 0x76, 0x77, 0x78, 0x7c, 0x87, 0x93, 0x94, 0x9a, 0xac, 0xab]
# 0xab (OP_CODESEPARATOR) is in the alphabet on purpose: code-separator removal must be exercised


def safe_script(raw, length, allow_cs=True):
    """map arbitrary model bytes to a script of exactly `length` single-byte opcodes the library parses and
    re-serialises unchanged (scripts are opaque in the encoding: only identity and length matter)"""
    out = bytearray()
    ops = SAFE_OPS if allow_cs else SAFE_OPS[:-1]
    for i in range(length):
        b = raw[i] if i < len(raw) else (i * 7 + 3)
        out.append(ops[b % len(ops)])
    return bytes(out)


def remove_codeseparators(b):
    """reference OP_CODESEPARATOR removal by an opcode walk (push data is skipped, not scanned)"""
    out = bytearray()
    i, n = 0, len(b)
    while i < n:
        op = b[i]
        if 1 <= op <= 75:
            out += b[i:i + 1 + op]
            i += 1 + op
        elif op == 0x4c and i + 1 < n:
            l = b[i + 1]
            out += b[i:i + 2 + l]
            i += 2 + l
        elif op == 0x4d and i + 2 < n:
            l = int.from_bytes(b[i + 1:i + 3], "little")
            out += b[i:i + 3 + l]
            i += 3 + l
        elif op == 0x4e and i + 4 < n:
            l = int.from_bytes(b[i + 1:i + 5], "little")
            out += b[i:i + 5 + l]
            i += 5 + l
        else:
            if op != 0xab:
                out.append(op)
            i += 1
    return bytes(out)


def sha256d(b):
    return hashlib.sha256(hashlib.sha256(b).digest()).digest()


def ripemd160(b):
    try:
        return hashlib.new("ripemd160", b).digest()
    except Exception:
        raise RuntimeError("ripemd160 unavailable in hashlib")


def _s128(v):
    v &= (1 << 128) - 1
    return v - (1 << 128) if v >> 127 else v


def _tdiv(a, b):
    q = abs(a) // abs(b)
    return q if (a < 0) == (b < 0) else -q


BV_FUNCS = {
    "BIGMUL": lambda a, b: _s128(a) * _s128(b),
    "BIGDIV": lambda a, b: _tdiv(_s128(a), _s128(b)) if _s128(b) != 0 else 0,
    "BIGREM": lambda a, b: (_s128(a) - _s128(b) * _tdiv(_s128(a), _s128(b))) if _s128(b) != 0 else 0,
}

REAL_UF = {
    "SHA256D": lambda b: int.from_bytes(sha256d(b), "big"),
    "SHA256": lambda b: int.from_bytes(hashlib.sha256(b).digest(), "big"),
    "SHA512": lambda b: int.from_bytes(hashlib.sha512(b).digest(), "big"),
    "HASH160": lambda b: int.from_bytes(ripemd160(hashlib.sha256(b).digest()), "big"),
}


def seq_value_to_bytes(t):
    """concrete z3 Seq(BV8) value -> bytes"""
    t = z3.simplify(t)
    out = bytearray()

    def walk(x):
        k = x.decl().kind()
        if k == z3.Z3_OP_SEQ_EMPTY:
            return
        if k == z3.Z3_OP_SEQ_UNIT:
            a = z3.simplify(x.arg(0))
            if not z3.is_bv_value(a):
                raise ValueError("non-concrete element " + str(a))
            out.append(a.as_long())
            return
        if k == z3.Z3_OP_SEQ_CONCAT:
            for i in range(x.num_args()):
                walk(x.arg(i))
            return
        raise ValueError("non-concrete sequence: " + str(x)[:200])
    walk(t)
    return bytes(out)


def bytes_to_seq(b):
    if len(b) == 0:
        return z3.Empty(SEQ)
    units = [z3.Unit(z3.BitVecVal(x, 8)) for x in b]
    return units[0] if len(units) == 1 else z3.Concat(*units)


def evaluate(term, binding, seq_ufs=None):
    """bottom-up evaluation: variables from `binding` (list of (var, value) pairs), uninterpreted hash
    functions by the real algorithm; returns a simplified concrete term"""
    seq_ufs = seq_ufs or {}
    t = z3.substitute(term, *binding) if binding else term
    memo = {}

    def ev(x):
        k = x.get_id()
        if k in memo:
            return memo[k]
        if z3.is_app(x) and x.num_args() > 0:
            ch = [ev(c) for c in x.children()]
            name = x.decl().name()
            if name in REAL_UF and x.decl().kind() == z3.Z3_OP_UNINTERPRETED:
                b = seq_value_to_bytes(ch[0])
                r = z3.BitVecVal(REAL_UF[name](b), x.sort().size())
            elif name in seq_ufs and x.decl().kind() == z3.Z3_OP_UNINTERPRETED:
                r = bytes_to_seq(seq_ufs[name](seq_value_to_bytes(ch[0])))
            elif name in BV_FUNCS and x.decl().kind() == z3.Z3_OP_UNINTERPRETED:
                vals = [z3.simplify(c).as_long() for c in ch]
                r = z3.BitVecVal(BV_FUNCS[name](*vals) % (1 << x.sort().size()), x.sort().size())
            else:
                r = z3.simplify(x.decl()(*ch)) if x.decl().kind() != z3.Z3_OP_ITE else None
                if r is None:
                    c = z3.simplify(ch[0])
                    r = ch[1] if z3.is_true(c) else ch[2] if z3.is_false(c) else z3.simplify(z3.If(*ch))
        else:
            r = x
        memo[k] = r
        return r
    return ev(t)


class Native:
    """builds (once per process) and runs the native txtool in dev and release profile"""
    _bins = {}

    @classmethod
    def bin(cls, profile):
        if profile in cls._bins:
            return cls._bins[profile]
        from vlib import kani_engine as KE
        with KE.TargetDir("native") as td:
            KE.sync_lock()
            cmd = ["cargo", "build", "--offline", "--bin", "txtool"] + (["--release"] if profile == "release" else [])
            rc, out, to, dt = KE._run(cmd, KE.HARNESS, 1800, env=dict(KE.ENV, CARGO_TARGET_DIR=td))
            if rc != 0:
                raise RuntimeError("txtool build failed:\n" + out[-3000:])
            src = os.path.join(td, "release" if profile == "release" else "debug", "txtool")
            dst = os.path.join(KE.BUILD, f"txtool-{profile}-{os.getpid()}")
            import shutil
            shutil.copy2(src, dst)
        cls._bins[profile] = dst
        return dst

    @classmethod
    def run(cls, request, profile="debug"):
        b = cls.bin(profile)
        with tempfile.NamedTemporaryFile("w", suffix=".json", delete=False) as f:
            json.dump(request, f)
            path = f.name
        try:
            p = subprocess.run([b, path], stdout=subprocess.PIPE, stderr=subprocess.PIPE, text=True, timeout=300)
        finally:
            os.unlink(path)
        if p.returncode != 0:
            return [{"toolerror": (p.stderr or p.stdout)[-500:]}]
        try:
            return json.loads(p.stdout.strip().splitlines()[-1])
        except Exception:
            return [{"toolerror": p.stdout[-500:]}]

    @classmethod
    def cleanup(cls):
        for p in cls._bins.values():
            try:
                os.unlink(p)
            except OSError:
                pass
        cls._bins.clear()
