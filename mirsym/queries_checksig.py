"""E2 query for the signature-checking opcodes (C15): one interpreter step of OP_CHECKSIG(VERIFY) / OP_CHECKMULTISIG(VERIFY) on a
symbolic stack and spending context.  ECDSA verification, DER / point validity and the sighash preimage function (decided against the
published formats under C03 / C10) are uninterpreted; what is decided is the crate's glue: which stack items are key and signature,
which flag, input index, subscript (after the last executed code separator) and declared value select the preimage, which digest of it
is verified, in which order signatures meet keys, and what the step leaves on the stack."""
import json, re
import z3
from .executor import Unsupported, Exec, PathPanic
from .values import *
from .models import MODELS, uf, ok, err, some, NONE, deref
from .models_hash import HMODELS
from .models_sign import SMODELS, REDUCE, B256
from . import models_interp  # registers BigInt / stack models into MODELS
from .queries_total import point_models
from .txmodel import Ctx, mk_struct, none, mk_interp
from . import concrete as C
from . import seqeq as SE
from .queries import QResult, finish, MAX_VIOLATIONS

FLAGS = {0x01: "ALL", 0x02: "NONE", 0x03: "SINGLE", 0x41: "InputsOutputs", 0x42: "Inputs", 0x43: "InputsOutput", 0x81: None, 0x82: None, 0x83: None, 0xc1: None, 0xc2: None, 0xc3: None}


STANDARD = set(FLAGS)


def SHA256(seq):
    return be_bytes(uf("SHA256", SEQ, z3.BitVecSort(256))(seq), 32)


def g_split_off(ex, a, callee, canon):
    p = a[0]
    while isinstance(p.get(), Ptr):
        p = p.get()
    v = p.get()
    n = len(v.f)
    at = a[1]
    ca = at.concrete()
    if ca is None:
        ca = ex.concretize(at.t, list(range(0, n + 1)))
        if ca is None:
            raise PathPanic("split_off: `at` split index is out of bounds")
    if ca > n:
        raise PathPanic("split_off: `at` split index is out of bounds")
    tail = ListV(list(v.f[ca:]))
    p.set(ListV(list(v.f[:ca])))
    return tail


def g_list_reverse(ex, a, callee, canon):
    p = a[0]
    while isinstance(p.get(), Ptr):
        p = p.get()
    p.set(ListV(list(reversed(p.get().f))))
    return UNIT


def native_checksig():
    ops = []
    for kind, m, n in (("p2pk", 1, 1), ("p2pkh", 1, 1), ("multisig", 2, 3), ("multisig", 1, 1), ("multisig", 3, 3)):
        for sep in (False, True):
            for flag in (0x41, 0x01, 0xc3, 0x42):
                ops.append({"op": "checksig", "kind": kind, "m": m, "n": n, "separator": sep, "flag": flag, "value": 5000})
    req = {"tx": {"version": 1, "locktime": 0, "inputs": [], "outputs": []}, "ops": ops}
    nat = {p: C.Native.run(req, p) for p in ("debug", "release")}
    return req, nat


def q_checksig(env, max_n=2, flags=(0x41, 0x01, 0xc3, 0x40), part="all", min_n=1, ops=None, name=None):
    """flags: the sighash flag bytes the signature items may end in (plus every non-flag byte); None = all 256 byte values"""
    qr = QResult(name or f"checksig_{part}_n{max_n}")
    P = env.P
    P.enums.setdefault("Sign", {"Minus": 0, "NoSign": 1, "Plus": 2})
    PK, FORMAT_OK, ON_CURVE, KIND, KINDS = point_models()
    DER_VALID = lambda s: uf("DER_VALID", SEQ, z3.BoolSort())(s)
    VERIFY = lambda key, z, sig: uf("ECDSA_VERIFY_DER", SEQ, B256, SEQ, z3.BoolSort())(key, z, sig)
    PRE = lambda fl: uf("SIGHASH_PREIMAGE", z3.BitVecSort(8), SEQ)(fl)
    PRE_OK = lambda fl: uf("SIGHASH_PREIMAGE_OK", z3.BitVecSort(8), z3.BoolSort())(fl)
    f = env.fn("script_matching::<impl interpreter::Interpreter>::match_opcode")
    ALLFLAGS = set(P.enums["SigHash"].values())

    def m_preimage(ex, a, callee, canon):
        tx, n, flag, script, value = a
        ex.recorded.append(("preimage", {"n": n, "flag": flag, "script": deref(script), "value": value}))
        fb = z3.BitVecVal(flag.discr, 8)
        if not ex.decide(PRE_OK(fb)):
            return err("sighash")
        pre = PRE(fb)
        if not hasattr(ex, "len_vars"):
            ex.len_vars = {}
        if pre.get_id() not in ex.len_vars:
            ex.len_vars[pre.get_id()] = z3.BitVec(f"preimage_len_{flag.discr}", 64)
            ex.__dict__.setdefault("_keep_alive", []).append(pre)   # ids key the table: the term must stay alive
        return ok(Bytes(pre))

    def m_verify_prehashed(ex, a, callee, canon):
        key, z, sig = deref(a[0]), deref(a[1]), deref(a[2])
        sb = sig.f[0].s if isinstance(sig, Struct) else None
        if sb is None:
            raise Unsupported("verify_prehashed on " + repr(sig)[:80])
        zt = z.payload
        ex.recorded.append(("verify", {"key": key.payload.s, "z": zt, "sig": sb}))
        if ex.decide(VERIFY(key.payload.s, zt, sb)):
            return ok()
        return err("ecdsa::Error")

    def m_opaque_string(ex, a, callee, canon):
        return Opaque("String")

    def m_print(ex, a, callee, canon):
        return UNIT

    def m_list_range_from(ex, a, callee, canon):
        v = deref(a[0])
        lo = deref(a[1]).f[0]
        n = len(v.f)
        cl = lo.concrete()
        if cl is None:
            cl = ex.concretize(lo.t, list(range(0, n + 1)))
            if cl is None:
                raise PathPanic("range start index out of range for slice")
        if cl > n:
            raise PathPanic("range start index out of range for slice")
        return Ptr([ListV(list(v.f[cl:]))], 0)

    def m_split_off(ex, a, callee, canon):
        p = a[0]
        while isinstance(p.get(), Ptr):
            p = p.get()
        v = p.get()
        n = len(v.f)
        at = a[1]
        ca = at.concrete()
        if ca is None:
            ca = ex.concretize(at.t, list(range(0, n + 1)))
            if ca is None:
                raise PathPanic("split_off: `at` split index is out of bounds")
        if ca > n:
            raise PathPanic("split_off: `at` split index is out of bounds")
        tail = ListV(list(v.f[ca:]))
        p.set(ListV(list(v.f[:ca])))
        return tail

    def m_list_reverse(ex, a, callee, canon):
        p = a[0]
        while isinstance(p.get(), Ptr):
            p = p.get()
        p.set(ListV(list(reversed(p.get().f))))
        return UNIT

    R = re.compile
    CM = [(R(r"^core::slice::<impl \[Vec<u8>\]>::reverse$"), m_list_reverse), (R(r"^<Vec<(\w+::)*ScriptBit> as Index<RangeFrom<usize>>>::index$"), m_list_range_from), (R(r"^Vec::split_off$"), m_split_off),
          (R(r"sighash_preimage_impl$"), m_preimage), (R(r"VerifyPrimitive<.*>>::verify_prehashed$"), m_verify_prehashed),
          (R(r"(^|::)Script::to_asm_string$|to_hex$"), m_opaque_string), (R(r"(^|::)_print$|^std::io::_print$"), m_print)]
    smod = [m for m in SMODELS if m[1].__name__ not in ("m_point_from_bytes", "m_vk_from_point", "m_affine_from_point", "m_ctoption_unwrap", "m_from_sec1", "m_verify_prehashed")]
    base = [m for m in MODELS if not m[1].__name__.startswith(("m_sha256", "m_sha256d", "m_hash160", "m_sha512", "m_ripemd160", "m_sha1", "m_checksig"))]

    def new_exec():
        return Exec(P, CM + PK + smod + HMODELS + base, max_paths=20000)

    _nat = {}

    def report(what, needle=None):
        if len(qr.violations) >= MAX_VIOLATIONS or any(v["message"] == what for v in qr.violations):
            return
        if any(isinstance(u, str) and u.startswith(what) for u in qr.undecided):
            return
        if "r" not in _nat:
            _nat["r"] = native_checksig()
        req, nat = _nat["r"]
        probs = sorted({p for v in nat.values() for o in v for p in (o.get("ok", {}).get("problems", []) if isinstance(o.get("ok"), dict) else ["tool: " + json.dumps(o)[:160]])})
        hit = [p for p in probs if needle is None or needle in p]
        item = {"message": what, "request": {"tx": req["tx"], "ops": req["ops"][:2]}, "op_index": 0, "expected": {"problems": []}, "native": {"problems": probs[:8]}, "reproduced": bool(hit)}
        if hit:
            qr.violations.append(item)
        else:
            qr.undecided.append(what + " — not reproduced natively (native problems: " + json.dumps(probs)[:240] + ")")

    _ps = {}

    def sat(pc, *extra):
        """one abstraction + solver per path (keyed by the identity of the path-condition list), reused for all questions about it"""
        key = id(pc)
        ent = _ps.get(key)
        if ent is None or ent[0] is not pc:
            _ps.clear()
            st = {}
            ent = (pc, SE.SeqEq(list(pc), stats=st), st)
            _ps[key] = ent
        se, st = ent[1], ent[2]
        q0, t0 = st.get("queries", 0), st.get("solver_s", 0.0)
        r = se._check(*[se.abstract(e) for e in extra])
        qr.queries += st.get("queries", 0) - q0
        qr.solver_s += st.get("solver_s", 0.0) - t0
        if r == z3.unknown:
            qr.undecided.append("solver unknown")
        return r

    def bit(i, tag):
        """a distinguishable script element: a one-byte push of its own symbolic byte"""
        return Enum("ScriptBit", "Push", P.enums["ScriptBit"]["Push"], [Bytes(seq_of([z3.BitVec(f"{tag}{i}", 8)]))])

    def bit_id(b):
        b = deref(b)
        try:
            return str(z3.simplify(b.f[0].s))
        except Exception:
            return repr(b)

    def context(ctx, u, L, has_lock=True, has_sats=True, k_in=1):
        ctx.unlock = [bit(i, "u") for i in range(u)]
        ctx.lock = [bit(i, "l") for i in range(L)]
        ctx.value = z3.BitVec("spent_value", 64)
        ins = []
        for i in range(k_in):
            ins.append(mk_struct(P, "TxIn", prev_tx_id=Bytes(seq_of([z3.BitVec(f"txid{i}_{j}", 8) for j in range(32)])), vout=Int(z3.BitVec(f"vout{i}", 32), "u32"),
                                 unlocking_script=Struct("Script", [ListV(list(ctx.unlock))]), sequence=Int(z3.BitVec(f"seq{i}", 32), "u32"),
                                 locking_script=some(Struct("Script", [ListV(list(ctx.lock))])) if has_lock else none(), satoshis=some(Int(ctx.value, "u64")) if has_sats else none()))
        hc = mk_struct(P, "HashCache", hash_inputs=none(), hash_sequence=none(), hash_outputs=none())
        tx = mk_struct(P, "Transaction", version=Int(z3.BitVec("version", 32), "u32"), inputs=ListV(ins), outputs=ListV([]), n_locktime=Int(z3.BitVec("locktime", 32), "u32"), hash_cache=hc)
        return tx

    def state_of(ctx, items, cs):
        return mk_struct(P, "State", stack=ListV([Bytes(seq_of(it)) for it in items]), alt_stack=ListV([]), status=Enum("Status", "Running", P.enums["Status"]["Running"]),
                         executed_opcodes=ListV([]), codeseparator_offset=Int(cs, "usize"))

    def valid_single(c, sig, pk, pc_flag_byte):
        """spec: is (sig item, key item) a valid signature check for the context?  -> z3 Bool (given the flag byte value)"""
        der = seq_of(sig[:-1])
        pks = seq_of(pk)
        z = REDUCE(z3.Concat(*SHA256(seq_of(SHA256(PRE(pc_flag_byte))))))
        return z3.And(DER_VALID(der), FORMAT_OK(pks), ON_CURVE(pks), PRE_OK(pc_flag_byte), VERIFY(pks, z, der))

    def check_preimage_calls(r, what, c, cs, u, L, idx):
        for kw in [kw for nm, kw in getattr(r, "recorded", []) if nm == "preimage"]:
            off = max(cs - u, 0)
            want = [bit_id(b) for b in c.lock[off:]]
            got = [bit_id(b) for b in deref(kw["script"]).f[0].f]
            if got != want:
                report(f"{what}: the subscript handed to the sighash is not the locking script from the element after the last executed code separator (offset {cs} with {u} unlocking elements: expected {len(want)} elements, got {len(got)})")
            if kw["n"].concrete() != idx:
                report(f"{what}: the sighash is computed for input {kw['n'].concrete()} instead of the input being verified ({idx})")
            if sat(r.pc, kw["value"].t != c.value) != z3.unsat:
                report(f"{what}: the value handed to the sighash is not the declared value of the spent output")

    # ------------------------------------------------------------ OP_CHECKSIG / OP_CHECKSIGVERIFY
    for op in ([o for o in ("OP_CHECKSIG", "OP_CHECKSIGVERIFY") if ops is None or o in ops] if part in ("all", "single") else ()):
        opbyte = P.enums["OpCodes"][op]
        for depth, siglen, pklen, has_lock, has_sats, idx, cs in ([(3, 9, 33, True, True, 0, c) for c in (0, 2, 3, 4)] + [(2, 9, 33, True, True, 0, 3), (1, 9, 33, True, True, 0, 0), (0, 9, 33, True, True, 0, 0),
                                                                                                                         (2, 0, 33, True, True, 0, 0), (2, 1, 33, True, True, 0, 0), (2, 9, 0, True, True, 0, 0), (2, 9, 65, True, True, 0, 0),
                                                                                                                         (2, 9, 33, False, True, 0, 0), (2, 9, 33, True, False, 0, 0), (2, 9, 33, True, True, 1, 0), (2, 74, 33, True, True, 0, 0)]):
            u, L = 2, 3
            what = f"{op} (stack depth {depth}, signature item {siglen} bytes, key item {pklen} bytes, locking script {'present' if has_lock else 'absent'}, value {'present' if has_sats else 'absent'}, input index {idx}, code-separator offset {cs})"
            qr.cases += 1
            ex = new_exec()

            def setup(ex, depth=depth, siglen=siglen, pklen=pklen, has_lock=has_lock, has_sats=has_sats, idx=idx, cs=cs):
                ctx = Ctx()
                tx = context(ctx, u, L, has_lock, has_sats)
                ctx.sig = [z3.BitVec(f"sig_{i}", 8) for i in range(siglen)]
                ctx.pk = [z3.BitVec(f"pk_{i}", 8) for i in range(pklen)]
                below = [[z3.BitVec(f"below{i}", 8)] for i in range(max(depth - 2, 0))]
                ctx.below = below
                items = (below + [ctx.sig, ctx.pk])[-depth:] if depth else []
                if depth == 1:
                    items = [ctx.pk]
                ctx.items = items
                if siglen:
                    # a stack item that is a complete DER string without a flag byte is outside the bound
                    ctx.assumptions.append(z3.Not(DER_VALID(seq_of(ctx.sig))))
                    if flags is not None:
                        ctx.assumptions.append(z3.Or(*[ctx.sig[-1] == k for k in flags], z3.And(*[ctx.sig[-1] != k for k in ALLFLAGS])))
                ctx.assumptions.append(z3.Implies(ON_CURVE(seq_of(ctx.pk)), z3.Or(KIND(seq_of(ctx.pk)) == 2, KIND(seq_of(ctx.pk)) == 3)))
                ctx.assumptions.append(z3.ULE(KIND(seq_of(ctx.pk)), 3))
                st = state_of(ctx, items, cs)
                ctx.state = Ptr([st], 0)
                txs = some(mk_struct(P, "TxScript", tx=tx, input_index=Int(idx, "usize")))
                return f, [Int(cs, "usize"), Ptr([Enum("OpCodes", op, opbyte)], 0), ctx.state, txs], ctx
            try:
                results = ex.explore(setup)
            except Unsupported as e:
                qr.undecided.append(f"{what}: {e}")
                continue
            for r in results:
                qr.paths += 1
                c = r.ctx
                if r.kind == "panic":
                    report(f"{what}: panics: {r.msg.split(' @')[0][:80]}")
                    continue
                if r.kind != "ok":
                    continue
                wellformed = depth >= 2 and siglen >= 1 and has_lock and has_sats and idx == 0
                # acceptance
                if op == "OP_CHECKSIG":
                    if r.ret.variant == "Ok":
                        stv = r.ret.f[0].f[P.structs["State"].index("stack")].f
                        top = ex.seq_items(stv[-1].s) if stv else None
                        if top is None:
                            qr.undecided.append(f"{what}: result stack top of unknown shape")
                            continue
                        acc = z3.Or(*[t != 0 for t in top]) if top else z3.BoolVal(False)
                        if len(stv) != max(depth - 2, 0) + 1:
                            report(f"{what}: the step does not replace exactly signature and key by one result item")
                        canon_ok = z3.Or(z3.And(acc, z3.BoolVal(len(top) == 1) if True else None, top[0] == 1) if len(top) == 1 else z3.BoolVal(False), z3.Not(acc) if len(top) == 0 else z3.BoolVal(False))
                        if sat(r.pc, z3.Not(canon_ok)) != z3.unsat:
                            report(f"{what}: the pushed result is not the canonical true (01) / false (empty) value")
                    else:
                        acc = z3.BoolVal(False)
                else:
                    acc = z3.BoolVal(r.ret.variant == "Ok")
                    if r.ret.variant == "Ok":
                        stv = r.ret.f[0].f[P.structs["State"].index("stack")].f
                        if len(stv) != max(depth - 2, 0):
                            report(f"{what}: the step does not remove exactly signature and key")
                if not wellformed:
                    if sat(r.pc, acc) != z3.unsat:
                        report(f"{what}: accepts although the spending context is incomplete or the operands are missing")
                    continue
                check_preimage_calls(r, what, c, cs, u, L, idx)
                # the flag the path committed to (the preimage call records it); paths without a preimage call rejected before it
                fb = c.sig[-1]
                calls = [kw for nm, kw in getattr(r, "recorded", []) if nm == "preimage"]
                if calls:
                    ks = sorted({kw["flag"].discr for kw in calls})
                else:
                    ks = sorted(ALLFLAGS)
                    if sat(r.pc, acc) != z3.unsat:
                        report(f"{what}: accepts without computing a sighash preimage")
                for k in ks:
                    kk = z3.BitVecVal(k, 8)
                    if calls and sat(r.pc, fb != kk) != z3.unsat:
                        report(f"{what}: the sighash flag used ({k:#04x}) is not the last byte of the signature item")
                    good = valid_single(c, c.sig, c.pk, kk)
                    if calls and k in STANDARD and sat(r.pc, fb == kk, acc, z3.Not(good)) != z3.unsat:
                        zrev = REDUCE(z3.Concat(*list(reversed(SHA256(seq_of(SHA256(PRE(kk))))))))
                        # explained only by a verification over the reversed digest?
                        via_rev = sat(r.pc, fb == kk, acc, z3.Not(good), z3.Not(VERIFY(seq_of(c.pk), zrev, seq_of(c.sig[:-1])))) == z3.unsat
                        if __import__("os").environ.get("MIRSYM_DEBUG"):
                            print("DEBUG", what, "flag", k, "ret", r.ret.variant, "calls", len(calls), "verify", len([1 for nm, kw in r.recorded if nm == "verify"]), file=__import__("sys").stderr)
                            print("   pc tail", [str(x)[:90] for x in r.pc][-6:], file=__import__("sys").stderr)
                        if via_rev:
                            report(f"{op}: accepts a signature that is valid only over the BYTE-REVERSED double-SHA256 of the sighash preimage: not a valid signature over the specified preimage", "byte-reversed sighash")
                        else:
                            report(f"{what}: accepts (flag {k:#04x}) although the item minus its flag byte is not a valid DER signature, the key not a curve point, or ECDSA verification over double-SHA256(preimage selected by the flag byte) does not hold", "accepted=true")
                    if k in STANDARD and sat(r.pc, fb == kk, z3.Not(acc), good) != z3.unsat:
                        report(f"{what}: rejects (flag {k:#04x}) a valid signature by the supplied key over the specified preimage", "spend signed through the API")
            finish(qr, ex)

    # ------------------------------------------------------------ OP_CHECKMULTISIG / OP_CHECKMULTISIGVERIFY
    for op in ([o for o in ("OP_CHECKMULTISIG", "OP_CHECKMULTISIGVERIFY") if ops is None or o in ops] if part in ("all", "multi") else ()):
        opbyte = P.enums["OpCodes"][op]
        for n in range(min_n, max_n + 1):
          for m in range(1, n + 1):
            for fl_assign in sorted({tuple([0x41] * m), tuple([0x01] * m), tuple(([0x41, 0x01] * m)[:m])}):
                u, L, cs = m + 1, n + 3, 0
                what = f"{op} {m}-of-{n} (flags {[hex(x) for x in fl_assign]})"
                qr.cases += 1
                ex = new_exec()

                def setup(ex, m=m, n=n, fl_assign=fl_assign):
                    ctx = Ctx()
                    tx = context(ctx, u, L)
                    ctx.sigs = [[z3.BitVec(f"sig{i}_{j}", 8) for j in range(8)] + [z3.BitVec(f"flag{i}", 8)] for i in range(m)]
                    ctx.pks = [[z3.BitVec(f"pk{i}_{j}", 8) for j in range(33)] for i in range(n)]
                    ctx.below = [[z3.BitVec("below0", 8)]]
                    dummy = [z3.BitVec("dummy", 8)]
                    for sg in ctx.sigs:
                        # well-formed operands (the bound of this query): DER || standard flag, keys on the curve, preimage computable
                        ctx.assumptions.append(DER_VALID(seq_of(sg[:-1])))
                        ctx.assumptions.append(z3.Not(DER_VALID(seq_of(sg))))
                        ctx.assumptions.append(sg[-1] == fl_assign[ctx.sigs.index(sg)])
                        ctx.assumptions.append(PRE_OK(z3.BitVecVal(fl_assign[ctx.sigs.index(sg)], 8)))
                    for pk in ctx.pks:
                        ctx.assumptions.append(z3.And(FORMAT_OK(seq_of(pk)), ON_CURVE(seq_of(pk)), z3.Or(KIND(seq_of(pk)) == 2, KIND(seq_of(pk)) == 3)))
                    items = ctx.below + [dummy] + ctx.sigs + [[z3.BitVecVal(m, 8)]] + ctx.pks + [[z3.BitVecVal(n, 8)]]
                    ctx.items = items
                    ctx.state = Ptr([state_of(ctx, items, cs)], 0)
                    txs = some(mk_struct(P, "TxScript", tx=tx, input_index=Int(0, "usize")))
                    return f, [Int(cs, "usize"), Ptr([Enum("OpCodes", op, opbyte)], 0), ctx.state, txs], ctx
                try:
                    results = ex.explore(setup)
                except Unsupported as e:
                    qr.undecided.append(f"{what}: {e}")
                    continue
                for r in results:
                    qr.paths += 1
                    c = r.ctx
                    if r.kind == "panic":
                        report(f"{what}: panics: {r.msg.split(' @')[0][:80]}")
                        continue
                    if r.kind != "ok":
                        continue
                    if op == "OP_CHECKMULTISIG":
                        if r.ret.variant == "Ok":
                            stv = r.ret.f[0].f[P.structs["State"].index("stack")].f
                            top = ex.seq_items(stv[-1].s) if stv else []
                            acc = z3.Or(*[t != 0 for t in top]) if top else z3.BoolVal(False)
                            if len(stv) != 2:
                                report(f"{what}: the step does not replace dummy, signatures, keys and both counts by one result item")
                        else:
                            acc = z3.BoolVal(False)
                    else:
                        acc = z3.BoolVal(r.ret.variant == "Ok")
                        if r.ret.variant == "Ok" and len(r.ret.f[0].f[P.structs["State"].index("stack")].f) != 1:
                            report(f"{what}: the step does not remove dummy, signatures, keys and both counts")
                    check_preimage_calls(r, what, c, cs, u, L, 0)

                    def okp(i, j):
                        sg, pk = c.sigs[i], c.pks[j]
                        z = REDUCE(z3.Concat(*SHA256(seq_of(SHA256(PRE(z3.BitVecVal(fl_assign[i], 8)))))))
                        return VERIFY(seq_of(pk), z, seq_of(sg[:-1]))

                    def match(i, j):
                        if i == m:
                            return z3.BoolVal(True)
                        if j == n:
                            return z3.BoolVal(False)
                        return z3.If(okp(i, j), match(i + 1, j + 1), match(i, j + 1))
                    want = match(0, 0)
                    # the byte-reversed acceptance is reported under OP_CHECKSIG; here verification means either digest order the code uses
                    def okp_code(i, j):
                        sg, pk = c.sigs[i], c.pks[j]
                        d = SHA256(seq_of(SHA256(PRE(z3.BitVecVal(fl_assign[i], 8)))))
                        return z3.Or(VERIFY(seq_of(pk), REDUCE(z3.Concat(*d)), seq_of(sg[:-1])), VERIFY(seq_of(pk), REDUCE(z3.Concat(*list(reversed(d)))), seq_of(sg[:-1])))
                    if sat(r.pc, acc, z3.Not(want)) != z3.unsat:
                        # does it also fail under the laxer (either digest order) reading?
                        def match2(i, j):
                            if i == m:
                                return z3.BoolVal(True)
                            if j == n:
                                return z3.BoolVal(False)
                            return z3.If(okp_code(i, j), match2(i + 1, j + 1), match2(i, j + 1))
                        if sat(r.pc, acc, z3.Not(match2(0, 0))) != z3.unsat:
                            report(f"{what}: accepts although the signatures do not match distinct keys in order", "multisig")
                        else:
                            report(f"{op}: accepts a signature that is valid only over the BYTE-REVERSED double-SHA256 of the sighash preimage: not a valid signature over the specified preimage", "byte-reversed sighash")
                    if sat(r.pc, z3.Not(acc), want) != z3.unsat:
                        report(f"{what}: rejects although every signature matches a distinct key in order", "spend signed through the API")
                finish(qr, ex)
    # ------------------------------------------------------------ whole runs: which subscript reaches the sighash after conditionals / separators
    if part in ("context", "context_inbranch"):
        run_separator_context(env, qr, part, new_exec, context, report, sat, PRE_OK, DER_VALID, FORMAT_OK, ON_CURVE, KIND)
    qr.samples.append({"obligation": qr.name, "opcodes": ["OP_CHECKSIG", "OP_CHECKSIGVERIFY", "OP_CHECKMULTISIG", "OP_CHECKMULTISIGVERIFY"], "multisig": f"1 <= m <= n <= {max_n}"})
    return qr


def run_separator_context(env, qr, part, new_exec, context, report, sat, PRE_OK, DER_VALID, FORMAT_OK, ON_CURVE, KIND):
    """C15 'computed with the subscript that starts after the most recently executed code separator', decided over WHOLE RUNS
    (Interpreter::run_impl on unlocking ++ locking elements with a spending context): conditionals executed before the separator,
    several separators, separators in branches that do not run (part 'context'), a separator inside a branch that runs (part
    'context_inbranch').  The subscript handed to sighash_preimage_impl is compared, flattened to its serialisation order, with the
    reference: the locking script's serialisation from the element after the last executed OP_CODESEPARATOR to its end."""
    P = env.P
    f_run = env.fn("interpreter::Interpreter::run_impl")
    E, OPS = P.enums["ScriptBit"], P.enums["OpCodes"]

    def opb(nm):
        return Enum("ScriptBit", "OpCode", E["OpCode"], [Enum("OpCodes", nm, OPS[nm])])

    def ifb(code, p, fl):
        return Enum("ScriptBit", "If", E["If"], [Enum("OpCodes", code, OPS[code]), ListV(list(p)), some(ListV(list(fl))) if fl is not None else NONE_()])

    def NONE_():
        return none()

    def push(bs):
        return Enum("ScriptBit", "Push", E["Push"], [Bytes(seq_of(bs))])

    names = {v: k for k, v in OPS.items()}

    def flat(b):
        """serialisation order of one element as a list of hashable ids"""
        b = deref(b)
        if b.variant == "OpCode":
            o = deref(b.f[0])
            return [("op", names.get(o.discr, o.discr))]
        if b.variant in ("Push", "PushData"):
            return [("push", str(z3.simplify(b.f[-1].s)))]
        if b.variant == "If":
            code, p, fl = deref(b.f[0]), deref(b.f[1]), deref(b.f[2])
            out = [("op", names.get(code.discr, code.discr))]
            for x in p.f:
                out += flat(x)
            if fl.variant == "Some":
                out.append(("op", "OP_ELSE"))
                for x in deref(fl.f[0]).f:
                    out += flat(x)
            out.append(("op", "OP_ENDIF"))
            return out
        return [("?", repr(b)[:60])]

    def flat_all(bits):
        out = []
        for b in bits:
            out += flat(b)
        return out

    NOP, SEP = (lambda: opb("OP_NOP")), (lambda: opb("OP_CODESEPARATOR"))
    # label -> (unlock builder(c) , lock builder(c), expected = number of flattened ids of the lock to drop, native lock prefix asm)
    # c.sig / c.pk are symbolic byte lists, c.cond one symbolic byte
    shapes = {}
    if part == "context":
        shapes["pk CHECKSIG"] = (lambda c: [push(c.sig)], lambda c: [push(c.pk), opb("OP_CHECKSIG")], lambda lk: 0, None)
        shapes["NOP CODESEP pk CHECKSIG"] = (lambda c: [push(c.sig)], lambda c: [NOP(), SEP(), push(c.pk), opb("OP_CHECKSIG")], lambda lk: 2, ("OP_NOP OP_CODESEPARATOR {core}", []))
        shapes["CODESEP NOP CODESEP pk CHECKSIGVERIFY"] = (lambda c: [push(c.sig)], lambda c: [SEP(), NOP(), SEP(), push(c.pk), opb("OP_CHECKSIGVERIFY")], lambda lk: 3, ("OP_CODESEPARATOR OP_NOP OP_CODESEPARATOR {core}", []))
        shapes["<c> IF NOP NOP ELSE NOP ENDIF CODESEP pk CHECKSIG"] = (lambda c: [push(c.sig)], lambda c: [push([c.cond]), ifb("OP_IF", [NOP(), NOP()], [NOP()]), SEP(), push(c.pk), opb("OP_CHECKSIG")],
                                                                       lambda lk: len(flat_all(lk[:3])), ("OP_1 OP_IF OP_NOP OP_NOP OP_ELSE OP_NOP OP_ENDIF OP_CODESEPARATOR {core}", []))
        shapes["unlock <sig> <c> | NOTIF NOP ENDIF CODESEP pk CHECKSIG"] = (lambda c: [push(c.sig), push([c.cond])], lambda c: [ifb("OP_NOTIF", [NOP()], None), SEP(), push(c.pk), opb("OP_CHECKSIG")],
                                                                           lambda lk: len(flat_all(lk[:2])), ("OP_0 OP_NOTIF OP_NOP OP_ENDIF OP_CODESEPARATOR {core}", []))
        shapes["1 IF 1 IF NOP ENDIF ENDIF CODESEP pk CHECKSIG"] = (lambda c: [push(c.sig)], lambda c: [opb("OP_1"), ifb("OP_IF", [opb("OP_1"), ifb("OP_IF", [NOP()], None)], None), SEP(), push(c.pk), opb("OP_CHECKSIG")],
                                                                  lambda lk: len(flat_all(lk[:3])), ("OP_1 OP_IF OP_1 OP_IF OP_NOP OP_ENDIF OP_ENDIF OP_CODESEPARATOR {core}", []))
        shapes["0 IF CODESEP ENDIF pk CHECKSIG (separator in a branch that does not run)"] = (lambda c: [push(c.sig)], lambda c: [opb("OP_0"), ifb("OP_IF", [SEP()], None), push(c.pk), opb("OP_CHECKSIG")], lambda lk: 0, None)
        shapes["CODESEP 1 IF NOP ENDIF pk CHECKSIG (conditional after the separator)"] = (lambda c: [push(c.sig)], lambda c: [SEP(), opb("OP_1"), ifb("OP_IF", [NOP()], None), push(c.pk), opb("OP_CHECKSIG")], lambda lk: 1, ("OP_CODESEPARATOR OP_1 OP_IF OP_NOP OP_ENDIF {core}", ["OP_1", "OP_IF", "OP_NOP", "OP_ENDIF"]))
        shapes["1 IF NOP ENDIF CODESEP 1 pk 1 CHECKMULTISIG"] = (lambda c: [opb("OP_0"), push(c.sig)], lambda c: [opb("OP_1"), ifb("OP_IF", [NOP()], None), SEP(), opb("OP_1"), push(c.pk), opb("OP_1"), opb("OP_CHECKMULTISIG")],
                                                                lambda lk: len(flat_all(lk[:3])), ("OP_1 OP_IF OP_NOP OP_ENDIF OP_CODESEPARATOR {core}", []))
    else:
        # the separator runs INSIDE a branch: the serialisation after it still holds the rest of the branch and the closing OP_ENDIF
        shapes["1 IF CODESEP NOP ENDIF pk CHECKSIG (separator inside the branch that runs)"] = (lambda c: [push(c.sig)], lambda c: [opb("OP_1"), ifb("OP_IF", [SEP(), NOP()], None), push(c.pk), opb("OP_CHECKSIG")], lambda lk: 3, ("OP_1 OP_IF OP_CODESEPARATOR OP_NOP OP_ENDIF {core}", ["OP_NOP", "OP_ENDIF"]))

    import re as _re
    extra = [(_re.compile(r"^Arguments::from_str$"), lambda ex, a, callee, canon: Opaque("fmt"))]
    for label, (mk_unlock, mk_lock, drop, prefix) in shapes.items():
        qr.cases += 1
        ex = new_exec()
        ex.models = extra + list(ex.models)

        def setup(ex, mk_unlock=mk_unlock, mk_lock=mk_lock):
            ctx = Ctx()
            ctx.sig = [z3.BitVec(f"sig_{i}", 8) for i in range(9)]
            ctx.pk = [z3.BitVec(f"pk_{i}", 8) for i in range(33)]
            ctx.cond = z3.BitVec("cond", 8)
            tx = context(ctx, 0, 0)
            ctx.unlock, ctx.lock = mk_unlock(ctx), mk_lock(ctx)
            ti = P.structs["TxIn"]
            txin = tx.f[P.structs["Transaction"].index("inputs")].f[0]
            txin.f[ti.index("unlocking_script")] = Struct("Script", [ListV(list(ctx.unlock))])
            txin.f[ti.index("locking_script")] = some(Struct("Script", [ListV(list(ctx.lock))]))
            ctx.assumptions.append(z3.Not(DER_VALID(seq_of(ctx.sig))))
            ctx.assumptions.append(DER_VALID(seq_of(ctx.sig[:-1])))
            ctx.assumptions.append(z3.Or(ctx.sig[-1] == 0x41, ctx.sig[-1] == 0x01))
            ctx.assumptions.append(PRE_OK(z3.BitVecVal(0x41, 8)))
            ctx.assumptions.append(PRE_OK(z3.BitVecVal(0x01, 8)))
            pks = seq_of(ctx.pk)
            ctx.assumptions.append(z3.And(FORMAT_OK(pks), ON_CURVE(pks), z3.Or(KIND(pks) == 2, KIND(pks) == 3)))
            state = mk_struct(P, "State", stack=ListV([]), alt_stack=ListV([]), status=Enum("Status", "Running", P.enums["Status"]["Running"]), executed_opcodes=ListV([]), codeseparator_offset=Int(0, "usize"))
            fields = dict(script_bits=ListV(list(ctx.unlock) + list(ctx.lock)), script_index=Int(0, "usize"), state=state, tx_script=some(mk_struct(P, "TxScript", tx=tx, input_index=Int(0, "usize"))))
            for extra_f in P.structs["Interpreter"]:
                if extra_f not in fields:
                    # bookkeeping counters added to the interpreter start at zero, as in its constructors
                    fields[extra_f] = Int(0, "usize")
            ctx.interp = Ptr([mk_interp(P, **fields)], 0)
            return f_run, [ctx.interp], ctx
        try:
            results = ex.explore(setup)
        except Unsupported as e:
            qr.undecided.append(f"run [{label}]: {e}")
            continue
        seen_call = False
        for r in results:
            qr.paths += 1
            c = r.ctx
            if r.kind == "panic":
                report(f"run [{label}]: panics: {r.msg.split(' @')[0][:80]}")
                continue
            if r.kind != "ok":
                qr.undecided.append(f"run [{label}]: {r.kind} {getattr(r, 'msg', '')}"[:200])
                continue
            for kw in [kw for nm, kw in getattr(r, "recorded", []) if nm == "preimage"]:
                seen_call = True
                full = flat_all(c.lock)
                want = full[drop(c.lock):]
                got = flat_all(deref(kw["script"]).f[0].f)
                qr.queries += 1
                if got != want:
                    msg = (f"run [{label}]: the subscript handed to the sighash is not the locking script from the element after the most recently executed OP_CODESEPARATOR "
                           f"(expected its last {len(want)} of {len(full)} serialised elements, got {len(got)}: {[g[1] if g[0] == 'op' else 'push' for g in got]})")
                    report_context(qr, msg, prefix)
                if kw["n"].concrete() != 0:
                    report(f"run [{label}]: the sighash is computed for input {kw['n'].concrete()} instead of the input being verified (0)")
                if sat(r.pc, kw["value"].t != c.value) != z3.unsat:
                    report(f"run [{label}]: the value handed to the sighash is not the declared value of the spent output")
        if not seen_call:
            qr.undecided.append(f"run [{label}]: no path reaches the sighash computation (vacuous)")
        finish(qr, ex)
    qr.samples.append({"obligation": qr.name, "run_shapes": list(shapes)})


def report_context(qr, what, prefix):
    """native confirmation: a P2PK spend whose locking script is <prefix> <key> OP_CHECKSIG, signed over the reference subscript
    (<key> OP_CHECKSIG, or the remaining serialisation for a separator inside a branch), must be accepted"""
    if len(qr.violations) >= MAX_VIOLATIONS or any(v["message"] == what for v in qr.violations):
        return
    tpl, sub_ops = prefix or ("{core}", [])
    # the shapes with a symbolic condition are replayed with both outcomes of the condition (either branch may be the deviating one)
    tpls = [tpl]
    if tpl.startswith("OP_1 OP_IF") and "OP_1 OP_IF OP_1" not in tpl and "OP_CODESEPARATOR OP_NOP OP_ENDIF" not in tpl:
        tpls.append("OP_0" + tpl[4:])
    if tpl.startswith("OP_0 OP_NOTIF"):
        tpls.append("OP_1" + tpl[4:])
    ops = [{"op": "checksig", "kind": "p2pk", "m": 1, "n": 1, "separator": False, "lock_tpl": t, "sub_prefix_ops": sub_ops, "flag": fl, "value": 5000} for t in tpls for fl in (0x41, 0x01)]
    req = {"tx": {"version": 1, "locktime": 0, "inputs": [], "outputs": []}, "ops": ops}
    nat = {p: C.Native.run(req, p) for p in ("debug", "release")}
    probs = sorted({p for v in nat.values() for o in v for p in (o.get("ok", {}).get("problems", []) if isinstance(o.get("ok"), dict) else ["tool: " + json.dumps(o)[:160]])})
    item = {"message": what, "request": req, "op_index": 0, "expected": {"problems": []}, "native": {"problems": probs[:8]}, "reproduced": bool(probs)}
    if probs:
        qr.violations.append(item)
    else:
        qr.undecided.append(what + " — not reproduced natively")


def q_interp_tx_total(env, name=None):
    """C16 with a spending context: Interpreter::from_transaction on any input index, and the signature-opcode step from states reachable
    through spliced conditional branches (the code-separator offset counts executed elements, so it can exceed the length of the locking
    script): a state or an error, never a panic."""
    qr = QResult(name or "interp_tx_total")
    P = env.P
    P.enums.setdefault("Sign", {"Minus": 0, "NoSign": 1, "Plus": 2})
    PK, FORMAT_OK, ON_CURVE, KIND, KINDS = point_models()
    PRE = lambda fl: uf("SIGHASH_PREIMAGE", z3.BitVecSort(8), SEQ)(fl)

    def m_preimage(ex, a, callee, canon):
        if not ex.decide(ex.fresh("preimage_ok", z3.BoolSort())):
            return err("sighash")
        pre = PRE(z3.BitVecVal(a[2].discr, 8))
        if not hasattr(ex, "len_vars"):
            ex.len_vars = {}
        ex.len_vars[pre.get_id()] = z3.BitVec(f"preimage_len_{a[2].discr}", 64)
        ex.__dict__.setdefault("_keep_alive", []).append(pre)
        return ok(Bytes(pre))

    def m_verify_prehashed(ex, a, callee, canon):
        return ok() if ex.decide(ex.fresh("verify_ok", z3.BoolSort())) else err("ecdsa::Error")

    def m_opaque_string(ex, a, callee, canon):
        return Opaque("String")

    def m_list_range_from(ex, a, callee, canon):
        v = deref(a[0])
        lo = deref(a[1]).f[0].concrete()
        if lo is None or lo > len(v.f):
            raise PathPanic("range start index out of range for slice")
        return Ptr([ListV(list(v.f[lo:]))], 0)

    def m_script_from_bytes(ex, a, callee, canon):
        if ex.decide(ex.fresh("script_parses", z3.BoolSort())):
            return ok(Struct("Script", [ListV([])]))
        return err("script")

    def m_script_to_bytes(ex, a, callee, canon):
        s = ex.fresh("script_bytes", SEQ)
        if not hasattr(ex, "len_vars"):
            ex.len_vars = {}
        ex.len_vars[s.get_id()] = ex.fresh("script_len", z3.BitVecSort(64))
        ex.__dict__.setdefault("_keep_alive", []).append(s)
        return Bytes(s)

    R = re.compile
    CM = [(R(r"sighash_preimage_impl$"), m_preimage), (R(r"VerifyPrimitive<.*>>::verify_prehashed$"), m_verify_prehashed), (R(r"(^|::)Script::to_asm_string$|to_hex$"), m_opaque_string),
          (R(r"(^|::)_print$|^std::io::_print$"), lambda ex, a, callee, canon: UNIT), (R(r"^<Vec<(\w+::)*ScriptBit> as Index<RangeFrom<usize>>>::index$"), m_list_range_from),
          (R(r"(^|::)Script::from_bytes$"), m_script_from_bytes), (R(r"(^|::)Script::to_bytes$"), m_script_to_bytes),
          (R(r"^Vec::split_off$"), g_split_off), (R(r"^core::slice::<impl \[Vec<u8>\]>::reverse$"), g_list_reverse)]
    smod = [m for m in SMODELS if m[1].__name__ not in ("m_point_from_bytes", "m_vk_from_point", "m_affine_from_point", "m_ctoption_unwrap", "m_from_sec1", "m_verify_prehashed")]
    base = [m for m in MODELS if not m[1].__name__.startswith(("m_sha256", "m_sha256d", "m_hash160", "m_sha512", "m_ripemd160", "m_sha1", "m_checksig"))]

    def native(ops):
        req = {"tx": {"version": 1, "locktime": 0, "inputs": [], "outputs": []}, "ops": ops}
        nat = {p: C.Native.run(req, p) for p in ("debug", "release")}
        bad = any(isinstance(o, dict) and ("panic" in o or "toolerror" in o) for v in nat.values() for o in v)
        return {"request": req, "op_index": 0, "expected": "a state or an error (no panic)", "native": nat, "reproduced": bad}

    def tx_of(k_in, u, L):
        ins = []
        for i in range(k_in):
            ins.append(mk_struct(P, "TxIn", prev_tx_id=Bytes(seq_of([z3.BitVec(f"txid{i}_{j}", 8) for j in range(32)])), vout=Int(z3.BitVec(f"vout{i}", 32), "u32"),
                                 unlocking_script=Struct("Script", [ListV([Enum("ScriptBit", "Push", P.enums["ScriptBit"]["Push"], [Bytes(seq_of([z3.BitVec(f"u{i}_{j}", 8)]))]) for j in range(u)])]),
                                 sequence=Int(z3.BitVec(f"seq{i}", 32), "u32"),
                                 locking_script=some(Struct("Script", [ListV([Enum("ScriptBit", "Push", P.enums["ScriptBit"]["Push"], [Bytes(seq_of([z3.BitVec(f"l{i}_{j}", 8)]))]) for j in range(L)])])),
                                 satoshis=some(Int(z3.BitVec(f"value{i}", 64), "u64"))))
        hc = mk_struct(P, "HashCache", hash_inputs=none(), hash_sequence=none(), hash_outputs=none())
        return mk_struct(P, "Transaction", version=Int(z3.BitVec("version", 32), "u32"), inputs=ListV(ins), outputs=ListV([]), n_locktime=Int(z3.BitVec("locktime", 32), "u32"), hash_cache=hc)

    # ---- T1: Interpreter::from_transaction(tx, index) for every index
    f_ft = env.fn("interpreter::Interpreter::from_transaction")
    for k_in in (0, 1, 2):
        qr.cases += 1
        ex = Exec(P, CM + PK + smod + HMODELS + base)

        def setup(ex, k_in=k_in):
            ctx = Ctx()
            ctx.idx = z3.BitVec("input_index", 64)
            return f_ft, [Ptr([tx_of(k_in, 1, 2)], 0), Int(ctx.idx, "usize")], ctx
        try:
            res = ex.explore(setup)
        except Unsupported as e:
            qr.undecided.append(f"from_transaction with {k_in} inputs: {e}")
            continue
        for r in res:
            qr.paths += 1
            if r.kind != "panic":
                continue
            s = z3.Solver()
            for cnd in r.pc:
                s.add(cnd)
            qr.queries += 1
            if s.check() != z3.sat:
                continue
            idx = min(s.model().eval(r.ctx.idx, model_completion=True).as_long(), 1000)
            item = native([{"op": "interp_tx", "unlock_asm": "00", "lock_asm": "OP_1", "index": max(idx, 1)}])
            item["message"] = f"Interpreter::from_transaction panics for input index {idx} of a transaction with {k_in} input(s): {r.msg.split(' @')[0][:70]}"
            if item["reproduced"]:
                if not qr.violations:
                    qr.violations.append(item)
            else:
                qr.undecided.append(item["message"] + " — not reproduced natively")
        finish(qr, ex)

    # ---- T2: signature-opcode step with a code-separator offset beyond the locking script (reachable through spliced branches)
    f = env.fn("script_matching::<impl interpreter::Interpreter>::match_opcode")
    u, L = 1, 3
    for op in ("OP_CHECKSIG", "OP_CHECKMULTISIG"):
        opbyte = P.enums["OpCodes"][op]
        for cs in (u + L, u + L + 1, u + L + 3):
            qr.cases += 1
            ex = Exec(P, CM + PK + smod + HMODELS + base, max_paths=20000)

            def setup(ex, cs=cs, op=op, opbyte=opbyte):
                ctx = Ctx()
                sig = [z3.BitVec(f"sig_{i}", 8) for i in range(8)] + [z3.BitVecVal(0x41, 8)]
                pk = [z3.BitVec(f"pk_{i}", 8) for i in range(33)]
                items = [sig, pk] if op == "OP_CHECKSIG" else [[z3.BitVec("dummy", 8)], sig, [z3.BitVecVal(1, 8)], pk, [z3.BitVecVal(1, 8)]]
                st = mk_struct(P, "State", stack=ListV([Bytes(seq_of(it)) for it in items]), alt_stack=ListV([]), status=Enum("Status", "Running", P.enums["Status"]["Running"]),
                               executed_opcodes=ListV([]), codeseparator_offset=Int(cs, "usize"))
                txs = some(mk_struct(P, "TxScript", tx=tx_of(1, u, L), input_index=Int(0, "usize")))
                return f, [Int(cs, "usize"), Ptr([Enum("OpCodes", op, opbyte)], 0), Ptr([st], 0), txs], ctx
            try:
                res = ex.explore(setup)
            except Unsupported as e:
                qr.undecided.append(f"{op} with code-separator offset {cs}: {e}")
                continue
            for r in res:
                qr.paths += 1
                if r.kind != "panic":
                    continue
                s = z3.Solver()
                s.set("timeout", 30000)
                for cnd in r.pc:
                    s.add(cnd)
                qr.queries += 1
                if s.check() == z3.unsat:
                    continue
                lock = "OP_1 OP_IF OP_NOP OP_NOP OP_NOP OP_ENDIF OP_CODESEPARATOR 0279be667ef9dcbbac55a06295ce870b07029bfcdb2dce28d959f2815b16f81798 " + ("OP_CHECKSIG" if op == "OP_CHECKSIG" else "OP_1 OP_CHECKMULTISIG")
                unlock = "300602010102010141" if op == "OP_CHECKSIG" else "OP_0 300602010102010141 OP_1"
                if op == "OP_CHECKMULTISIG":
                    lock = "OP_1 OP_IF OP_NOP OP_NOP OP_NOP OP_NOP OP_NOP OP_ENDIF OP_CODESEPARATOR 0279be667ef9dcbbac55a06295ce870b07029bfcdb2dce28d959f2815b16f81798 OP_1 OP_CHECKMULTISIG"
                    unlock = "OP_0 300602010102010141 OP_1"
                item = native([{"op": "interp_tx", "unlock_asm": unlock, "lock_asm": lock}])
                item["message"] = f"{op}: the step panics when the code-separator offset ({cs}) exceeds unlocking + locking script length ({u}+{L}), a state reached when a conditional branch executed before the separator: {r.msg.split(' @')[0][:70]}"
                if item["reproduced"]:
                    if not any(v["message"].startswith(op) for v in qr.violations):
                        qr.violations.append(item)
                else:
                    qr.undecided.append(item["message"] + " — not reproduced natively: " + json.dumps(item["native"])[:200])
            finish(qr, ex)
    # ---- T3: OP_CHECKMULTISIG with declared counts that exceed the stack
    opbyte = P.enums["OpCodes"]["OP_CHECKMULTISIG"]
    for depth in (1, 2, 3):
        qr.cases += 1
        ex = Exec(P, CM + PK + smod + HMODELS + base, max_paths=20000)

        def setup(ex, depth=depth):
            ctx = Ctx()
            ctx.items = [[z3.BitVec(f"s{i}", 8)] for i in range(depth)]
            st = mk_struct(P, "State", stack=ListV([Bytes(seq_of(it)) for it in ctx.items]), alt_stack=ListV([]), status=Enum("Status", "Running", P.enums["Status"]["Running"]),
                           executed_opcodes=ListV([]), codeseparator_offset=Int(0, "usize"))
            txs = some(mk_struct(P, "TxScript", tx=tx_of(1, u, L), input_index=Int(0, "usize")))
            return f, [Int(0, "usize"), Ptr([Enum("OpCodes", "OP_CHECKMULTISIG", opbyte)], 0), Ptr([st], 0), txs], ctx
        try:
            res = ex.explore(setup)
        except Unsupported as e:
            qr.undecided.append(f"OP_CHECKMULTISIG on a stack of {depth} one-byte items: {e}")
            continue
        for r in res:
            qr.paths += 1
            if r.kind != "panic" or any("declared key or signature count" in v["message"] for v in qr.violations):
                continue
            s = z3.Solver()
            for cnd in r.pc:
                s.add(cnd)
            qr.queries += 1
            if s.check() != z3.sat:
                continue
            m = s.model()
            vals = [m.eval(it[0], model_completion=True).as_long() for it in r.ctx.items]
            asm = " ".join(("OP_0" if v == 0 else "%02x" % v) for v in vals)
            item = native([{"op": "interp_tx", "unlock_asm": asm, "lock_asm": "OP_CHECKMULTISIG"}])
            item["message"] = f"OP_CHECKMULTISIG panics when the declared key or signature count exceeds the stack (stack {['%02x' % v for v in vals]}): {r.msg.split(' @')[0][:70]}"
            if item["reproduced"]:
                qr.violations.append(item)
            else:
                qr.undecided.append(item["message"] + " — not reproduced natively: " + json.dumps(item["native"])[:200])
        finish(qr, ex)
    qr.samples.append({"obligation": qr.name, "parts": ["Interpreter::from_transaction x input index", "OP_CHECKSIG / OP_CHECKMULTISIG step x code-separator offset up to length + 3"]})
    return qr
