"""E2 queries on the script interpreter: one step of Interpreter::match_opcode on a symbolic stack vs the opcode reference (C14),
totality of the step and state preservation on error (C16)."""
import itertools, json
import z3
from .executor import Unsupported
from .values import *
from .txmodel import Ctx, mk_struct, none
from . import concrete as C
from . import seqeq as SE
from . import opspec as OS
from . import models_interp  # registers the BigInt / stack models
from .queries import QResult, finish, bv_val


def item_terms(name, n):
    return [z3.BitVec(f"{name}_{i}", 8) for i in range(n)]


def push_script(items, alt_items, opbyte):
    """script that rebuilds the initial stacks with pushes and then runs the opcode"""
    out = bytearray()

    def push(b):
        if len(b) == 0:
            out.append(0x00)
        else:
            out.append(len(b))
            out.extend(b)
    for a in alt_items:
        push(a)
        out.append(0x6b)  # OP_TOALTSTACK
    for it in items:
        push(it)
    out.append(opbyte)
    return bytes(out)


def native_step(items, alt_items, opbyte):
    req = {"tx": {"version": 1, "locktime": 0, "inputs": [], "outputs": []}, "ops": [{"op": "interp", "script": push_script(items, alt_items, opbyte).hex(), "setup_steps": len(items) + 2 * len(alt_items)}]}
    return req, {p: C.Native.run(req, p)[0] for p in ("debug", "release")}


HEAVY = {"OP_MUL", "OP_DIV", "OP_MOD", "OP_NUM2BIN", "OP_WITHIN", "OP_LSHIFT", "OP_RSHIFT"}


def configs(op, lens, tier):
    ar = OS.ARITY.get(op, 0)
    if op in HEAVY and tier == "quick":
        lens = tuple(l for l in lens if l <= 1) or (0, 1)
    depths = list(range(0, ar + 2)) if ar else [0, 1]
    for d in depths:
        # the top `ar` items take every length combination of the alphabet; items below have 1 byte
        k = min(d, max(ar, 1))
        if ar > 3:
            k = min(k, 2)   # pure stack shuffles of 4/6 items: only the two top items vary in length
        for combo in itertools.product(lens, repeat=k):
            ls = [1] * (d - k) + list(combo)
            for alt in ([], [1]):
                if alt and op not in ("OP_FROMALTSTACK", "OP_TOALTSTACK") and d != ar:
                    continue
                yield ls, alt


def q_opcode(env, ops=None, lens=(0, 1, 2), prop="C14", name=None, per_op_cap=1):
    qr = QResult(name or f"opcode_{prop}")
    P = env.P
    P.enums.setdefault("Sign", {"Minus": 0, "NoSign": 1, "Plus": 2})
    f = env.fn("script_matching::<impl interpreter::Interpreter>::match_opcode")
    ops = ops or OS.CLAIMED
    seen = set()
    import os, sys, time as _t
    for op in ops:
        if op not in P.enums["OpCodes"]:
            qr.undecided.append(f"{op}: not an OpCodes variant any more")
            continue
        opbyte = P.enums["OpCodes"][op]
        if os.environ.get("MIRSYM_PROGRESS"):
            print(f"[{_t.strftime('%H:%M:%S')}] {op} paths={qr.paths} queries={qr.queries}", file=sys.stderr, flush=True)
        for ls, altls in configs(op, lens, env.tier):
            qr.cases += 1
            ex = env.new_exec()

            def setup(ex, ls=ls, altls=altls):
                ctx = Ctx()
                ctx.items = [item_terms(f"s{i}", n) for i, n in enumerate(ls)]
                ctx.alt = [item_terms(f"a{i}", n) for i, n in enumerate(altls)]
                state = mk_struct(P, "State", stack=ListV([Bytes(seq_of(it)) for it in ctx.items]), alt_stack=ListV([Bytes(seq_of(it)) for it in ctx.alt]),
                                  status=Enum("Status", "Running", P.enums["Status"]["Running"]), executed_opcodes=ListV([]), codeseparator_offset=Int(0, "usize"))
                ctx.state = Ptr([state], 0)
                return f, [Int(0, "usize"), Ptr([Enum("OpCodes", op, opbyte)], 0), ctx.state, none()], ctx
            try:
                results = ex.explore(setup)
            except Unsupported as e:
                qr.undecided.append(f"{op} stack lengths {ls}: {e}")
                continue
            for r in results:
                qr.paths += 1
                if r.kind == "bound":
                    continue
                sp = OS.spec(op, r.ctx.items, r.ctx.alt)
                if sp is None:
                    continue
                se = SE.SeqEq(list(r.pc))
                for cond, out in sp:
                    qr.queries += 1
                    if se._check(se.abstract(cond)) != z3.sat:
                        continue
                    kind, model = None, None
                    if r.kind == "panic":
                        if prop == "C16" or out is not OS.FAIL:
                            kind, model = "panics (" + r.msg.split(" @")[0][:60] + ")", se.s.model()
                    elif prop == "C14":
                        okk = r.ret.variant == "Ok"
                        if okk and out is OS.FAIL:
                            kind, model = "succeeds where the opcode must fail", se.s.model()
                        elif not okk and out is not OS.FAIL:
                            kind, model = "fails where the opcode must succeed", se.s.model()
                        elif okk:
                            stv = r.ret.f[0]
                            g = lambda nm: stv.f[P.structs["State"].index(nm)]
                            for label, got_list, want_list in (("stack", g("stack").f, out[1]), ("alt stack", g("alt_stack").f, out[2])):
                                if kind:
                                    break
                                if len(got_list) != len(want_list):
                                    kind, model = f"{label} depth {len(got_list)} instead of {len(want_list)}", se.s.model()
                                    break
                                eqs = []
                                structural = True
                                for gi, wi in zip(got_list, want_list):
                                    units = seq_units(gi.s)
                                    if units is None:
                                        structural = False
                                        break
                                    eqs.append(OS.item_equals(wi, units))
                                if not structural:
                                    qr.undecided.append(f"{op}: result item of symbolic length")
                                    break
                                qr.queries += 1
                                goal = se.abstract(z3.And(cond, z3.Not(z3.And(*eqs)))) if eqs else z3.BoolVal(False)
                                rr = se._check(goal)
                                if rr == z3.sat:
                                    kind, model = f"{label} differs", se.s.model()
                                    break
                                if rr == z3.unknown:
                                    qr.undecided.append(f"{op}: solver unknown")
                    if not kind:
                        continue
                    key = (op, kind.split(" (")[0])
                    if key in seen:
                        continue
                    seen.add(key)
                    items = [bytes(bv_val(model, b) for b in it) for it in r.ctx.items]
                    alts = [bytes(bv_val(model, b) for b in it) for it in r.ctx.alt]
                    # expected outcome under the model, from the reference
                    exp = None
                    for c2, o2 in sp:
                        if z3.is_true(model.eval(c2, model_completion=True)):
                            if o2 is OS.FAIL:
                                exp = "fail"
                            else:
                                pairs = [(b, z3.BitVecVal(bv_val(model, b), 8)) for it in r.ctx.items + r.ctx.alt for b in it]
                                try:
                                    exp = {"stack": [C.seq_value_to_bytes(C.evaluate(OS.desc_to_seq(x), pairs)).hex() for x in o2[1]], "alt": [C.seq_value_to_bytes(C.evaluate(OS.desc_to_seq(x), pairs)).hex() for x in o2[2]]}
                                except Exception as e:
                                    exp = f"unevaluated ({e!r})"
                            break
                    req, nat = native_step(items, alts, opbyte)
                    item = {"message": f"{op}: {kind} [stack {[i.hex() for i in items]} alt {[a.hex() for a in alts]}]", "request": req, "op_index": 0, "expected": exp, "native": nat, "opcode": op}
                    rep = False
                    for v in nat.values():
                        if "panic" in v:
                            rep = rep or (prop == "C16") or exp != "fail"
                        elif exp == "fail":
                            rep = rep or ("ok" in v)
                        elif isinstance(exp, dict):
                            rep = rep or (v.get("ok") != exp)
                    if rep:
                        qr.violations.append(item)
                    else:
                        qr.undecided.append(f"{op}: '{kind}' not reproduced natively: expected {json.dumps(exp)[:120]} native {json.dumps(nat)[:200]}")
            finish(qr, ex)
    qr.samples.append({"obligation": qr.name, "opcodes": len(ops), "item_lengths": list(lens), "configs": qr.cases})
    return qr


def q_step_error(env, ops=None, name=None):
    """C16: after an erroring step (Interpreter::match_script_bit) the interpreter's main and alt stacks are those of the last
    successfully returned state"""
    qr = QResult(name or "step_error_state")
    P = env.P
    P.enums.setdefault("Sign", {"Minus": 0, "NoSign": 1, "Plus": 2})
    f = env.fn("script_matching::<impl interpreter::Interpreter>::match_script_bit")
    ops = ops or OS.CLAIMED
    seen = set()
    bits = [("OpCode", op) for op in ops] + [("If", "OP_IF"), ("If", "OP_NOTIF")]
    for kind, op in bits:
        if op not in P.enums["OpCodes"]:
            continue
        opbyte = P.enums["OpCodes"][op]
        ar = OS.ARITY.get(op, 1 if kind == "If" else 0)
        lens_top = (1, 5) if kind == "If" or op in ("OP_VERIFY", "OP_IFDUP", "OP_NOT", "OP_0NOTEQUAL", "OP_PICK", "OP_ROLL", "OP_SPLIT", "OP_NUM2BIN", "OP_BOOLAND", "OP_BOOLOR") else (1,)
        for d in range(0, ar + 1):
            for toplen in lens_top:
                if d == 0 and toplen != lens_top[0]:
                    continue
                qr.cases += 1
                ex = env.new_exec()

                def setup(ex, d=d, toplen=toplen):
                    ctx = Ctx()
                    ls = [1] * max(0, d - 1) + ([toplen] if d else [])
                    ctx.items = [item_terms(f"s{i}", n) for i, n in enumerate(ls)]
                    ctx.alt = [item_terms("a0", 1)]
                    state = mk_struct(P, "State", stack=ListV([Bytes(seq_of(it)) for it in ctx.items]), alt_stack=ListV([Bytes(seq_of(it)) for it in ctx.alt]),
                                      status=Enum("Status", "Running", P.enums["Status"]["Running"]), executed_opcodes=ListV([]), codeseparator_offset=Int(0, "usize"))
                    E = P.enums["ScriptBit"]
                    if kind == "OpCode":
                        bit = Enum("ScriptBit", "OpCode", E["OpCode"], [Enum("OpCodes", op, opbyte)])
                    else:
                        bit = Enum("ScriptBit", "If", E["If"], [Enum("OpCodes", op, opbyte), ListV([]), none()])
                    interp = mk_struct(P, "Interpreter", script_bits=ListV([clone(bit)]), script_index=Int(0, "usize"), state=state, tx_script=none())
                    ctx.interp = Ptr([interp], 0)
                    return f, [ctx.interp, Ptr([bit], 0)], ctx
                try:
                    results = ex.explore(setup)
                except Unsupported as e:
                    qr.undecided.append(f"{op}: {e}")
                    continue
                for r in results:
                    qr.paths += 1
                    if r.kind != "ok" or r.ret.variant != "Err":
                        continue
                    iv = r.ctx.interp.get()
                    stv = iv.f[P.structs["Interpreter"].index("state")]
                    g = lambda nm: stv.f[P.structs["State"].index(nm)]
                    same = True
                    for got, want in ((g("stack").f, r.ctx.items), (g("alt_stack").f, r.ctx.alt)):
                        if len(got) != len(want):
                            same = False
                            break
                        for gi, wi in zip(got, want):
                            outs = SE.compare(list(r.pc), gi.s, seq_of(wi), {})
                            qr.queries += 1
                            if any(o[0] != "equal" for o in outs):
                                same = False
                    if same or (op, kind) in seen:
                        continue
                    seen.add((op, kind))
                    s = z3.Solver()
                    for c in r.pc:
                        s.add(c)
                    s.check()
                    m = s.model()
                    items = [bytes(bv_val(m, b) for b in it) for it in r.ctx.items]
                    alts = [bytes(bv_val(m, b) for b in it) for it in r.ctx.alt]
                    scr = push_script(items, alts, opbyte) + (bytes([0x68]) if kind == "If" else b"")
                    req = {"tx": {"version": 1, "locktime": 0, "inputs": [], "outputs": []}, "ops": [{"op": "interp", "script": scr.hex()}]}
                    nat = {p: C.Native.run(req, p)[0] for p in ("debug", "release")}
                    item = {"message": f"{op}: after the step fails the interpreter's stacks differ from the last successfully returned state [stack {[i.hex() for i in items]}]",
                            "request": req, "op_index": 0, "expected": "state_after_error == last_ok", "native": nat, "opcode": op}
                    rep = any(("err" in v and v.get("state_after_error") != v.get("last_ok")) for v in nat.values())
                    if rep:
                        qr.violations.append(item)
                    else:
                        qr.undecided.append(f"{op}: state change on error not reproduced natively: {json.dumps(nat)[:200]}")
                finish(qr, ex)
    qr.samples.append({"obligation": qr.name, "script_bits": len(bits)})
    return qr
