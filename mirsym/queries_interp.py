"""E2 queries on the script interpreter: one step of Interpreter::match_opcode on a symbolic stack vs the opcode reference (C14),
totality of the step and state preservation on error (C16)."""
import itertools, json
import z3
from .executor import Unsupported
from .values import *
from .txmodel import Ctx, mk_struct, none
from . import concrete as C
from . import seqeq as SE
from . import opspec as OS
from . import models_interp  # registers the BigInt / stack models
from .queries import QResult, finish, bv_val


def item_terms(name, n):
    return [z3.BitVec(f"{name}_{i}", 8) for i in range(n)]


def push_script(items, alt_items, opbyte):
    """script that rebuilds the initial stacks with pushes and then runs the opcode"""
    out = bytearray()

    def push(b):
        if len(b) == 0:
            out.append(0x00)
        else:
            out.append(len(b))
            out.extend(b)
    for a in alt_items:
        push(a)
        out.append(0x6b)  # OP_TOALTSTACK
    for it in items:
        push(it)
    out.append(opbyte)
    return bytes(out)


def native_step(items, alt_items, opbyte):
    req = {"tx": {"version": 1, "locktime": 0, "inputs": [], "outputs": []}, "ops": [{"op": "interp", "script": push_script(items, alt_items, opbyte).hex(), "setup_steps": len(items) + 2 * len(alt_items)}]}
    return req, {p: C.Native.run(req, p)[0] for p in ("debug", "release")}


def configs(op, lens, tier):
    ar = OS.ARITY.get(op, 0)
    depths = list(range(0, ar + 2)) if ar else [0, 1]
    for d in depths:
        # the top `ar` items take every length combination of the alphabet; items below have 1 byte
        k = min(d, max(ar, 1))
        if ar > 3:
            k = min(k, 2)   # pure stack shuffles of 4/6 items: only the two top items vary in length
        for combo in itertools.product(lens, repeat=k):
            ls = [1] * (d - k) + list(combo)
            for alt in ([], [1]):
                if alt and op not in ("OP_FROMALTSTACK", "OP_TOALTSTACK") and d != ar:
                    continue
                yield ls, alt


def q_opcode(env, ops=None, lens=(0, 1, 2), prop="C14", name=None, per_op_cap=1):
    qr = QResult(name or f"opcode_{prop}")
    P = env.P
    P.enums.setdefault("Sign", {"Minus": 0, "NoSign": 1, "Plus": 2})
    f = env.fn("script_matching::<impl interpreter::Interpreter>::match_opcode")
    ops = ops or OS.CLAIMED
    seen = set()
    for op in ops:
        if op not in P.enums["OpCodes"]:
            qr.undecided.append(f"{op}: not an OpCodes variant any more")
            continue
        opbyte = P.enums["OpCodes"][op]
        for ls, altls in configs(op, lens, env.tier):
            qr.cases += 1
            ex = env.new_exec()

            def setup(ex, ls=ls, altls=altls):
                ctx = Ctx()
                ctx.items = [item_terms(f"s{i}", n) for i, n in enumerate(ls)]
                ctx.alt = [item_terms(f"a{i}", n) for i, n in enumerate(altls)]
                state = mk_struct(P, "State", stack=ListV([Bytes(seq_of(it)) for it in ctx.items]), alt_stack=ListV([Bytes(seq_of(it)) for it in ctx.alt]),
                                  status=Enum("Status", "Running", P.enums["Status"]["Running"]), executed_opcodes=ListV([]), codeseparator_offset=Int(0, "usize"))
                ctx.state = Ptr([state], 0)
                return f, [Int(0, "usize"), Ptr([Enum("OpCodes", op, opbyte)], 0), ctx.state, none()], ctx
            try:
                results = ex.explore(setup)
            except Unsupported as e:
                qr.undecided.append(f"{op} stack lengths {ls}: {e}")
                continue
            for r in results:
                qr.paths += 1
                if r.kind == "bound":
                    continue
                sp = OS.spec(op, r.ctx.items, r.ctx.alt)
                if sp is None:
                    continue
                for cond, out in sp:
                    se = SE.SeqEq(list(r.pc))
                    qr.queries += 1
                    if se._check(cond) != z3.sat:
                        continue
                    kind, model = None, None
                    if r.kind == "panic":
                        if prop == "C16" or out is not OS.FAIL:
                            kind, model = "panics (" + r.msg.split(" @")[0][:60] + ")", se.s.model()
                    elif prop == "C14":
                        okk = r.ret.variant == "Ok"
                        if okk and out is OS.FAIL:
                            kind, model = "succeeds where the opcode must fail", se.s.model()
                        elif not okk and out is not OS.FAIL:
                            kind, model = "fails where the opcode must succeed", se.s.model()
                        elif okk:
                            stv = r.ret.f[0]
                            g = lambda nm: stv.f[P.structs["State"].index(nm)]
                            for label, got_list, want_list in (("stack", g("stack").f, out[1]), ("alt stack", g("alt_stack").f, out[2])):
                                if kind:
                                    break
                                if len(got_list) != len(want_list):
                                    kind, model = f"{label} depth {len(got_list)} instead of {len(want_list)}", se.s.model()
                                    break
                                for gi, wi in zip(got_list, want_list):
                                    stt = {}
                                    outs = SE.compare(list(r.pc) + [cond], gi.s, wi, stt)
                                    qr.queries += stt.get("queries", 0)
                                    qr.solver_s += stt.get("solver_s", 0.0)
                                    dif = [o for o in outs if o[0] == "differ"]
                                    if any(o[0] == "unknown" for o in outs):
                                        qr.undecided.append(f"{op}: solver unknown")
                                    if dif:
                                        kind, model = f"{label} differs", dif[0][2]
                                        break
                    if not kind:
                        continue
                    key = (op, kind.split(" (")[0])
                    if key in seen:
                        continue
                    seen.add(key)
                    items = [bytes(bv_val(model, b) for b in it) for it in r.ctx.items]
                    alts = [bytes(bv_val(model, b) for b in it) for it in r.ctx.alt]
                    # expected outcome under the model, from the reference
                    exp = None
                    for c2, o2 in sp:
                        if z3.is_true(model.eval(c2, model_completion=True)):
                            if o2 is OS.FAIL:
                                exp = "fail"
                            else:
                                pairs = [(b, z3.BitVecVal(bv_val(model, b), 8)) for it in r.ctx.items + r.ctx.alt for b in it]
                                try:
                                    exp = {"stack": [C.seq_value_to_bytes(C.evaluate(x, pairs)).hex() for x in o2[1]], "alt": [C.seq_value_to_bytes(C.evaluate(x, pairs)).hex() for x in o2[2]]}
                                except Exception as e:
                                    exp = f"unevaluated ({e!r})"
                            break
                    req, nat = native_step(items, alts, opbyte)
                    item = {"message": f"{op}: {kind} [stack {[i.hex() for i in items]} alt {[a.hex() for a in alts]}]", "request": req, "op_index": 0, "expected": exp, "native": nat, "opcode": op}
                    rep = False
                    for v in nat.values():
                        if "panic" in v:
                            rep = rep or (prop == "C16") or exp != "fail"
                        elif exp == "fail":
                            rep = rep or ("ok" in v)
                        elif isinstance(exp, dict):
                            rep = rep or (v.get("ok") != exp)
                    if rep:
                        qr.violations.append(item)
                    else:
                        qr.undecided.append(f"{op}: '{kind}' not reproduced natively: expected {json.dumps(exp)[:120]} native {json.dumps(nat)[:200]}")
            finish(qr, ex)
    qr.samples.append({"obligation": qr.name, "opcodes": len(ops), "item_lengths": list(lens), "configs": qr.cases})
    return qr
