"""E2 queries on the script interpreter: one step of Interpreter::match_opcode on a symbolic stack vs the opcode reference (C14),
totality of the step and state preservation on error (C16)."""
import itertools, json
import z3
from .executor import Unsupported
from .values import *
from .txmodel import Ctx, mk_struct, none, some, mk_interp
from . import concrete as C
from . import seqeq as SE
from . import opspec as OS
from . import models_interp  # registers the BigInt / stack models
from .queries import QResult, finish, bv_val


def item_terms(name, n):
    return [z3.BitVec(f"{name}_{i}", 8) for i in range(n)]


def push_script(items, alt_items, opbyte):
    """script that rebuilds the initial stacks with pushes and then runs the opcode"""
    out = bytearray()

    def push(b):
        if len(b) == 0:
            out.append(0x00)
        else:
            out.append(len(b))
            out.extend(b)
    for a in alt_items:
        push(a)
        out.append(0x6b)  # OP_TOALTSTACK
    for it in items:
        push(it)
    out.append(opbyte)
    return bytes(out)


def native_step(items, alt_items, opbyte):
    req = {"tx": {"version": 1, "locktime": 0, "inputs": [], "outputs": []}, "ops": [{"op": "interp", "script": push_script(items, alt_items, opbyte).hex(), "setup_steps": len(items) + 2 * len(alt_items)}]}
    return req, {p: C.Native.run(req, p)[0] for p in ("debug", "release")}


HEAVY = {"OP_MUL", "OP_DIV", "OP_MOD", "OP_NUM2BIN", "OP_WITHIN"}


def configs(op, lens, tier):
    ar = OS.ARITY.get(op, 0)
    if op in HEAVY and tier == "quick":
        lens = tuple(l for l in lens if l <= 1) or (0, 1)
    depths = list(range(0, ar + 2)) if ar else [0, 1]
    for d in depths:
        # the top `ar` items take every length combination of the alphabet; items below have 1 byte
        k = min(d, max(ar, 1))
        if ar > 3:
            k = min(k, 2)   # pure stack shuffles of 4/6 items: only the two top items vary in length
        for combo in itertools.product(lens, repeat=k):
            ls = [1] * (d - k) + list(combo)
            for alt in ([], [1]):
                if alt and op not in ("OP_FROMALTSTACK", "OP_TOALTSTACK") and d != ar:
                    continue
                yield ls, alt


def q_opcode(env, ops=None, lens=(0, 1, 2), prop="C14", name=None, per_op_cap=1):
    qr = QResult(name or f"opcode_{prop}")
    P = env.P
    P.enums.setdefault("Sign", {"Minus": 0, "NoSign": 1, "Plus": 2})
    f = env.fn("script_matching::<impl interpreter::Interpreter>::match_opcode")
    ops = ops or OS.CLAIMED
    seen = set()
    import os, sys, time as _t
    for op in ops:
        if op not in P.enums["OpCodes"]:
            qr.undecided.append(f"{op}: not an OpCodes variant any more")
            continue
        opbyte = P.enums["OpCodes"][op]
        if os.environ.get("MIRSYM_PROGRESS"):
            print(f"[{_t.strftime('%H:%M:%S')}] {op} paths={qr.paths} queries={qr.queries}", file=sys.stderr, flush=True)
        for ls, altls in configs(op, lens, env.tier):
            qr.cases += 1
            ex = env.new_exec()

            def setup(ex, ls=ls, altls=altls):
                ctx = Ctx()
                ctx.items = [item_terms(f"s{i}", n) for i, n in enumerate(ls)]
                ctx.alt = [item_terms(f"a{i}", n) for i, n in enumerate(altls)]
                state = mk_struct(P, "State", stack=ListV([Bytes(seq_of(it)) for it in ctx.items]), alt_stack=ListV([Bytes(seq_of(it)) for it in ctx.alt]),
                                  status=Enum("Status", "Running", P.enums["Status"]["Running"]), executed_opcodes=ListV([]), codeseparator_offset=Int(0, "usize"))
                ctx.state = Ptr([state], 0)
                return f, [Int(0, "usize"), Ptr([Enum("OpCodes", op, opbyte)], 0), ctx.state, none()], ctx
            try:
                results = ex.explore(setup)
            except Unsupported as e:
                qr.undecided.append(f"{op} stack lengths {ls}: {e}")
                continue
            for r in results:
                qr.paths += 1
                if r.kind == "bound":
                    continue
                sp = OS.spec(op, r.ctx.items, r.ctx.alt)
                if sp is None:
                    continue
                se = SE.SeqEq(list(r.pc))
                for cond, out in sp:
                    qr.queries += 1
                    if se._check(se.abstract(cond)) != z3.sat:
                        continue
                    kind, model = None, None
                    if r.kind == "panic":
                        if prop == "C16" or out is not OS.FAIL:
                            kind, model = "panics (" + r.msg.split(" @")[0][:60] + ")", se.s.model()
                    elif prop == "C14":
                        okk = r.ret.variant == "Ok"
                        if okk and out is OS.FAIL:
                            kind, model = "succeeds where the opcode must fail", se.s.model()
                        elif not okk and out is not OS.FAIL:
                            kind, model = "fails where the opcode must succeed", se.s.model()
                        elif okk:
                            stv = r.ret.f[0]
                            g = lambda nm: stv.f[P.structs["State"].index(nm)]
                            for label, got_list, want_list in (("stack", g("stack").f, out[1]), ("alt stack", g("alt_stack").f, out[2])):
                                if kind:
                                    break
                                if len(got_list) != len(want_list):
                                    kind, model = f"{label} depth {len(got_list)} instead of {len(want_list)}", se.s.model()
                                    break
                                eqs = []
                                structural = True
                                for gi, wi in zip(got_list, want_list):
                                    units = seq_units(gi.s)
                                    if units is None:
                                        structural = False
                                        break
                                    eqs.append(OS.item_equals(wi, units))
                                if not structural:
                                    qr.undecided.append(f"{op}: result item of symbolic length")
                                    break
                                qr.queries += 1
                                goal = se.abstract(z3.And(cond, z3.Not(z3.And(*eqs)))) if eqs else z3.BoolVal(False)
                                rr = se._check(goal)
                                if rr == z3.sat:
                                    kind, model = f"{label} differs", se.s.model()
                                    break
                                if rr == z3.unknown:
                                    qr.undecided.append(f"{op}: solver unknown")
                    if not kind:
                        continue
                    key = (op, kind.split(" (")[0])
                    if key in seen:
                        continue
                    seen.add(key)
                    items = [bytes(bv_val(model, b) for b in it) for it in r.ctx.items]
                    alts = [bytes(bv_val(model, b) for b in it) for it in r.ctx.alt]
                    # expected outcome under the model, from the reference
                    exp = None
                    for c2, o2 in sp:
                        if z3.is_true(model.eval(c2, model_completion=True)):
                            if o2 is OS.FAIL:
                                exp = "fail"
                            else:
                                pairs = [(b, z3.BitVecVal(bv_val(model, b), 8)) for it in r.ctx.items + r.ctx.alt for b in it]
                                try:
                                    exp = {"stack": [C.seq_value_to_bytes(C.evaluate(OS.desc_to_seq(x), pairs)).hex() for x in o2[1]], "alt": [C.seq_value_to_bytes(C.evaluate(OS.desc_to_seq(x), pairs)).hex() for x in o2[2]]}
                                except Exception as e:
                                    exp = f"unevaluated ({e!r})"
                            break
                    req, nat = native_step(items, alts, opbyte)
                    item = {"message": f"{op}: {kind} [stack {[i.hex() for i in items]} alt {[a.hex() for a in alts]}]", "request": req, "op_index": 0, "expected": exp, "native": nat, "opcode": op}
                    rep = False
                    for v in nat.values():
                        if "panic" in v:
                            rep = rep or (prop == "C16") or exp != "fail"
                        elif exp == "fail":
                            rep = rep or ("ok" in v)
                        elif isinstance(exp, dict):
                            rep = rep or (v.get("ok") != exp)
                    if rep:
                        qr.violations.append(item)
                    else:
                        qr.undecided.append(f"{op}: '{kind}' not reproduced natively: expected {json.dumps(exp)[:120]} native {json.dumps(nat)[:200]}")
            finish(qr, ex)
    qr.samples.append({"obligation": qr.name, "opcodes": len(ops), "item_lengths": list(lens), "configs": qr.cases})
    return qr


def q_step_error(env, ops=None, name=None):
    """C16: after an erroring step (Interpreter::match_script_bit) the interpreter's main and alt stacks are those of the last
    successfully returned state"""
    qr = QResult(name or "step_error_state")
    P = env.P
    P.enums.setdefault("Sign", {"Minus": 0, "NoSign": 1, "Plus": 2})
    f = env.fn("script_matching::<impl interpreter::Interpreter>::match_script_bit")
    ops = ops or OS.CLAIMED
    seen = set()
    bits = [("OpCode", op) for op in ops] + [("If", "OP_IF"), ("If", "OP_NOTIF")]
    for kind, op in bits:
        if op not in P.enums["OpCodes"]:
            continue
        opbyte = P.enums["OpCodes"][op]
        ar = OS.ARITY.get(op, 1 if kind == "If" else 0)
        lens_top = (1, 5) if kind == "If" or op in ("OP_VERIFY", "OP_IFDUP", "OP_NOT", "OP_0NOTEQUAL", "OP_PICK", "OP_ROLL", "OP_SPLIT", "OP_NUM2BIN", "OP_BOOLAND", "OP_BOOLOR") else (1,)
        for d in range(0, ar + 1):
            for toplen in lens_top:
                if d == 0 and toplen != lens_top[0]:
                    continue
                qr.cases += 1
                ex = env.new_exec()

                def setup(ex, d=d, toplen=toplen):
                    ctx = Ctx()
                    ls = [1] * max(0, d - 1) + ([toplen] if d else [])
                    ctx.items = [item_terms(f"s{i}", n) for i, n in enumerate(ls)]
                    ctx.alt = [item_terms("a0", 1)]
                    state = mk_struct(P, "State", stack=ListV([Bytes(seq_of(it)) for it in ctx.items]), alt_stack=ListV([Bytes(seq_of(it)) for it in ctx.alt]),
                                      status=Enum("Status", "Running", P.enums["Status"]["Running"]), executed_opcodes=ListV([]), codeseparator_offset=Int(0, "usize"))
                    E = P.enums["ScriptBit"]
                    if kind == "OpCode":
                        bit = Enum("ScriptBit", "OpCode", E["OpCode"], [Enum("OpCodes", op, opbyte)])
                    else:
                        bit = Enum("ScriptBit", "If", E["If"], [Enum("OpCodes", op, opbyte), ListV([]), none()])
                    interp = mk_interp(P, script_bits=ListV([clone(bit)]), script_index=Int(0, "usize"), state=state, tx_script=none())
                    ctx.interp = Ptr([interp], 0)
                    return f, [ctx.interp, Ptr([bit], 0)], ctx
                try:
                    results = ex.explore(setup)
                except Unsupported as e:
                    qr.undecided.append(f"{op}: {e}")
                    continue
                for r in results:
                    qr.paths += 1
                    if r.kind != "ok" or r.ret.variant != "Err":
                        continue
                    iv = r.ctx.interp.get()
                    stv = iv.f[P.structs["Interpreter"].index("state")]
                    g = lambda nm: stv.f[P.structs["State"].index(nm)]
                    same = True
                    for got, want in ((g("stack").f, r.ctx.items), (g("alt_stack").f, r.ctx.alt)):
                        if len(got) != len(want):
                            same = False
                            break
                        for gi, wi in zip(got, want):
                            outs = SE.compare(list(r.pc), gi.s, seq_of(wi), {})
                            qr.queries += 1
                            if any(o[0] != "equal" for o in outs):
                                same = False
                    if same or (op, kind) in seen:
                        continue
                    seen.add((op, kind))
                    s = z3.Solver()
                    for c in r.pc:
                        s.add(c)
                    s.check()
                    m = s.model()
                    items = [bytes(bv_val(m, b) for b in it) for it in r.ctx.items]
                    alts = [bytes(bv_val(m, b) for b in it) for it in r.ctx.alt]
                    scr = push_script(items, alts, opbyte) + (bytes([0x68]) if kind == "If" else b"")
                    req = {"tx": {"version": 1, "locktime": 0, "inputs": [], "outputs": []}, "ops": [{"op": "interp", "script": scr.hex()}]}
                    nat = {p: C.Native.run(req, p)[0] for p in ("debug", "release")}
                    item = {"message": f"{op}: after the step fails the interpreter's stacks differ from the last successfully returned state [stack {[i.hex() for i in items]}]",
                            "request": req, "op_index": 0, "expected": "state_after_error == last_ok", "native": nat, "opcode": op}
                    rep = any(("err" in v and v.get("state_after_error") != v.get("last_ok")) for v in nat.values())
                    if rep:
                        qr.violations.append(item)
                    else:
                        qr.undecided.append(f"{op}: state change on error not reproduced natively: {json.dumps(nat)[:200]}")
                finish(qr, ex)
    qr.samples.append({"obligation": qr.name, "script_bits": len(bits)})
    return qr


def q_if_branch(env, name=None):
    """C14: which branch of a conditional runs.  One step of Interpreter::match_script_bit on ScriptBit::If{code, pass, fail} with a
    symbolic top item: the elements spliced in after the current index are `pass` exactly when truthy(top) for OP_IF and exactly when
    NOT truthy(top) for OP_NOTIF (Bitcoin SV: any non-zero byte other than a sole sign bit in the last byte), else `fail` (nothing when
    absent); the top item is consumed, the rest of the stacks untouched; an empty stack is an error."""
    qr = QResult(name or "if_branch")
    P = env.P
    P.enums.setdefault("Sign", {"Minus": 0, "NoSign": 1, "Plus": 2})
    f = env.fn("script_matching::<impl interpreter::Interpreter>::match_script_bit")
    E = P.enums["ScriptBit"]
    seen = set()

    def bit(tag):
        return Enum("ScriptBit", "Push", E["Push"], [Bytes(seq_of([z3.BitVec(tag, 8)]))])

    def ident(b):
        return str(z3.simplify(deref_v(b).f[0].s))

    def deref_v(v):
        while isinstance(v, Ptr):
            v = v.get()
        return v

    def truthy(items):
        if not items:
            return z3.BoolVal(False)
        nz = [t != 0 for t in items[:-1]] + [z3.And(items[-1] != 0, items[-1] != 0x80)]
        return z3.Or(*nz)

    for op in ("OP_IF", "OP_NOTIF"):
        opbyte = P.enums["OpCodes"][op]
        for has_fail in (True, False):
            for depth, toplen in ((0, 0), (1, 0), (1, 1), (1, 2), (2, 1), (1, 5)):
                qr.cases += 1
                ex = env.new_exec()

                def setup(ex, depth=depth, toplen=toplen, has_fail=has_fail):
                    ctx = Ctx()
                    ls = [1] * max(0, depth - 1) + ([toplen] if depth else [])
                    ctx.items = [item_terms(f"s{i}", n) for i, n in enumerate(ls)]
                    ctx.alt = [item_terms("a0", 1)]
                    ctx.passb = [bit("p0"), bit("p1")]
                    ctx.failb = [bit("f0")]
                    ctx.before, ctx.after = bit("b0"), bit("n0")
                    state = mk_struct(P, "State", stack=ListV([Bytes(seq_of(it)) for it in ctx.items]), alt_stack=ListV([Bytes(seq_of(it)) for it in ctx.alt]),
                                      status=Enum("Status", "Running", P.enums["Status"]["Running"]), executed_opcodes=ListV([]), codeseparator_offset=Int(0, "usize"))
                    ifbit = Enum("ScriptBit", "If", E["If"], [Enum("OpCodes", op, opbyte), ListV([clone(b) for b in ctx.passb]), some(ListV([clone(b) for b in ctx.failb])) if has_fail else none()])
                    interp = mk_interp(P, script_bits=ListV([clone(ctx.before), clone(ifbit), clone(ctx.after)]), script_index=Int(1, "usize"), state=state, tx_script=none())
                    ctx.interp = Ptr([interp], 0)
                    return f, [ctx.interp, Ptr([ifbit], 0)], ctx
                try:
                    results = ex.explore(setup)
                except Unsupported as e:
                    qr.undecided.append(f"{op} (fail branch {'present' if has_fail else 'absent'}, depth {depth}, top {toplen} bytes): {e}")
                    continue
                for r in results:
                    qr.paths += 1
                    c = r.ctx
                    what = f"{op} with{'' if has_fail else 'out'} an else branch, stack depth {depth}, top item of {toplen} byte(s)"
                    bad, goal = None, None
                    if r.kind != "ok":
                        bad, goal = f"{r.kind}: {r.msg.split(' @')[0][:70]}", z3.BoolVal(True)
                    elif depth == 0:
                        if r.ret.variant != "Err":
                            bad, goal = "succeeds on an empty stack", z3.BoolVal(True)
                    elif r.ret.variant != "Ok":
                        bad, goal = "fails although a condition item is present", z3.BoolVal(True)
                    else:
                        iv = c.interp.get()
                        sb = iv.f[P.structs["Interpreter"].index("script_bits")].f
                        t = truthy(c.items[-1])
                        run_pass = t if op == "OP_IF" else z3.Not(t)
                        head, tail = [ident(c.before)], [ident(c.after)]
                        want_pass = head + ["IF"] + [ident(b) for b in c.passb] + tail
                        want_fail = head + ["IF"] + ([ident(b) for b in c.failb] if has_fail else []) + tail
                        got = [("IF" if deref_v(b).variant == "If" else ident(b)) for b in sb]
                        stv = iv.f[P.structs["Interpreter"].index("state")]
                        stack = stv.f[P.structs["State"].index("stack")].f
                        if len(stack) != depth - 1:
                            bad, goal = "the condition item is not consumed (or more than one item is)", z3.BoolVal(True)
                        elif got == want_pass and got != want_fail:
                            bad, goal = f"runs the first branch although the condition selects the {'else branch' if has_fail else 'empty else branch'}", z3.Not(run_pass)
                        elif got == want_fail and got != want_pass:
                            bad, goal = "runs the else branch (or nothing) although the condition selects the first branch", run_pass
                        elif got != want_pass:
                            bad, goal = f"splices neither branch in place after the conditional (got {got})", z3.BoolVal(True)
                    if bad is None:
                        continue
                    s = z3.Solver()
                    for cnd in r.pc:
                        s.add(cnd)
                    s.add(goal)
                    qr.queries += 1
                    rr = s.check()
                    if rr == z3.unknown:
                        qr.undecided.append(f"{what}: solver unknown")
                    if rr != z3.sat or (op, bad[:30]) in seen:
                        continue
                    seen.add((op, bad[:30]))
                    m = s.model()
                    items = [bytes(bv_val(m, b) for b in it) for it in c.items]
                    # native: <items> OP_IF/NOTIF OP_5 OP_6 [OP_ELSE OP_7] OP_ENDIF OP_8
                    scr = push_script(items, [], opbyte) + bytes([0x55, 0x56]) + (bytes([0x67, 0x57]) if has_fail else b"") + bytes([0x68, 0x58])
                    req = {"tx": {"version": 1, "locktime": 0, "inputs": [], "outputs": []}, "ops": [{"op": "interp", "script": scr.hex()}]}
                    nat = {p: C.Native.run(req, p)[0] for p in ("debug", "release")}
                    if depth == 0:
                        exp, ok_ = "error", lambda v: "err" in v
                    else:
                        tv = any(b != 0 for b in items[-1][:-1]) or (len(items[-1]) > 0 and items[-1][-1] not in (0, 0x80))
                        first = tv if op == "OP_IF" else not tv
                        want_stack = [i.hex() for i in items[:-1]] + (["05", "06"] if first else (["07"] if has_fail else [])) + ["08"]
                        exp, ok_ = {"stack": want_stack}, lambda v: v.get("ok", {}).get("stack") == want_stack
                    item = {"message": f"{what}: {bad} [stack {[i.hex() for i in items]}]", "request": req, "op_index": 0, "expected": exp, "native": nat, "opcode": op}
                    if any(not ok_(v) for v in nat.values()):
                        qr.violations.append(item)
                    else:
                        qr.undecided.append(item["message"] + " — not reproduced natively: " + json.dumps(nat)[:200])
                finish(qr, ex)
    qr.samples.append({"obligation": qr.name, "conditionals": ["OP_IF", "OP_NOTIF"], "else": [True, False], "top_item_lengths": [0, 1, 2, 5]})
    return qr


def q_step_vs_run(env, name=None):
    """C16: single-stepping (Interpreter::next_impl until it returns None or an error) ends in the same stacks and outcome as
    Interpreter::run_impl on an equal interpreter, for short scripts (stack, arithmetic, VERIFY, conditionals) over symbolic
    one-byte operands; both executions happen on the same path, the final states are compared structurally."""
    import re
    from .executor import Exec
    from .models import MODELS
    qr = QResult(name or "step_vs_run")
    P = env.P
    P.enums.setdefault("Sign", {"Minus": 0, "NoSign": 1, "Plus": 2})
    f_run = env.fn("interpreter::Interpreter::run_impl")
    f_next = env.fn("interpreter::Interpreter::next_impl")
    E = P.enums["ScriptBit"]
    OPS = P.enums["OpCodes"]

    def opb(nm):
        return Enum("ScriptBit", "OpCode", E["OpCode"], [Enum("OpCodes", nm, OPS[nm])])

    def ifb(code, p, fl):
        return Enum("ScriptBit", "If", E["If"], [Enum("OpCodes", code, OPS[code]), ListV([opb(x) for x in p]), some(ListV([opb(x) for x in fl])) if fl is not None else none()])

    scripts = {
        "ADD": lambda: [opb("OP_ADD")],
        "DUP ADD": lambda: [opb("OP_DUP"), opb("OP_ADD")],
        "SWAP SUB 1ADD": lambda: [opb("OP_SWAP"), opb("OP_SUB"), opb("OP_1ADD")],
        "VERIFY 1": lambda: [opb("OP_VERIFY"), opb("OP_1")],
        "IF 1ADD ELSE 1SUB ENDIF DUP": lambda: [ifb("OP_IF", ["OP_1ADD"], ["OP_1SUB"]), opb("OP_DUP")],
        "NOTIF DROP ENDIF": lambda: [ifb("OP_NOTIF", ["OP_DROP"], None)],
        "IF IF 2 ENDIF ENDIF": lambda: [Enum("ScriptBit", "If", E["If"], [Enum("OpCodes", "OP_IF", OPS["OP_IF"]), ListV([ifb("OP_IF", ["OP_2"], None)]), none()])],
        "TOALTSTACK FROMALTSTACK EQUAL": lambda: [opb("OP_TOALTSTACK"), opb("OP_DUP"), opb("OP_FROMALTSTACK"), opb("OP_EQUAL")],
        "DROP DROP DROP": lambda: [opb("OP_DROP"), opb("OP_DROP"), opb("OP_DROP")],
        "(empty)": lambda: [],
        # OP_RETURN ends execution: nothing after it may run (Bitcoin SV); the stacks stay as they were when it executed
        "RETURN 1ADD": lambda: [opb("OP_RETURN"), opb("OP_1ADD")],
        "IF RETURN ENDIF DROP": lambda: [ifb("OP_IF", ["OP_RETURN"], None), opb("OP_DROP")],
    }
    # expected final main stack as a function of the initial items, for the scripts with a fixed reference outcome
    fixed_outcome = {"RETURN 1ADD": lambda items, tr: [items[0], items[1]], "IF RETURN ENDIF DROP": lambda items, tr: [items[0]] if tr else []}
    models = [(re.compile(r"(^|::)_print$|^std::io::_print$"), lambda ex, a, callee, canon: UNIT), (re.compile(r"^Arguments::from_str$"), lambda ex, a, callee, canon: Opaque("fmt"))] + MODELS

    def native(scr_bytes):
        req = {"tx": {"version": 1, "locktime": 0, "inputs": [], "outputs": []}, "ops": [{"op": "interp_step_vs_run", "script": scr_bytes.hex()}]}
        nat = {p: C.Native.run(req, p)[0] for p in ("debug", "release")}
        return req, nat

    for label, mk in scripts.items():
        qr.cases += 1
        ex = Exec(P, models, max_paths=5000)

        def interp_value(ctx):
            state = mk_struct(P, "State", stack=ListV([Bytes(seq_of(it)) for it in ctx.items]), alt_stack=ListV([]), status=Enum("Status", "Running", P.enums["Status"]["Running"]),
                              executed_opcodes=ListV([]), codeseparator_offset=Int(0, "usize"))
            return mk_interp(P, script_bits=ListV(mk()), script_index=Int(0, "usize"), state=state, tx_script=none())

        def setup(ex):
            ctx = Ctx()
            ctx.items = [item_terms("s0", 1), item_terms("s1", 1)]
            ctx.a = Ptr([interp_value(ctx)], 0)
            ctx.b = Ptr([interp_value(ctx)], 0)
            ex._ctx = ctx
            return "__step_vs_run__", [], ctx
        orig = ex.call_fn

        def call_fn(name_, args, ex=ex, orig=orig):
            if name_ != "__step_vs_run__":
                return orig(name_, args)
            ctx = ex._ctx
            ra = orig(f_run, [ctx.a])
            steps, rb = 0, None
            while True:
                steps += 1
                if steps > 40:
                    raise Unsupported("stepping does not finish within 40 steps")
                o = orig(f_next, [ctx.b])
                if o.variant == "None":
                    rb = "finished"
                    break
                if o.f[0].variant == "Err":
                    rb = "error"
                    # the step sequence must end after an error: one more step may not yield anything
                    o2 = orig(f_next, [ctx.b])
                    if o2.variant != "None":
                        rb = "error-then-more"
                    break
            return Struct("tuple", [ra, Opaque(rb)])
        ex.call_fn = call_fn
        try:
            results = ex.explore(setup)
        except Unsupported as e:
            qr.undecided.append(f"script [{label}]: {e}")
            continue
        reported = False
        for r in results:
            qr.paths += 1
            if r.kind != "ok":
                qr.undecided.append(f"script [{label}]: {r.kind} {r.msg}")
                continue
            ra, rb = r.ret.f
            c = r.ctx
            bad = None
            if rb.tag == "error-then-more":
                bad = "after a failing step the iterator yields again instead of ending: stepping to exhaustion (for / collect) never terminates"
            elif (ra.variant == "Ok") != (rb.tag == "finished"):
                bad = f"run returns {ra.variant} but stepping ends with '{rb.tag}'"
            else:
                sa = c.a.get().f[P.structs["Interpreter"].index("state")]
                sb = c.b.get().f[P.structs["Interpreter"].index("state")]
                for nm in ("stack", "alt_stack"):
                    ga, gb = sa.f[P.structs["State"].index(nm)].f, sb.f[P.structs["State"].index(nm)].f
                    if len(ga) != len(gb):
                        bad = f"final {nm} depth differs: run {len(ga)}, stepping {len(gb)}"
                        break
                    for x, y in zip(ga, gb):
                        outs = SE.compare(list(r.pc), x.s, y.s, {})
                        qr.queries += 1
                        if any(o[0] != "equal" for o in outs):
                            bad = f"final {nm} differs between run and stepping"
            goal = z3.BoolVal(True)
            if bad is None and label in fixed_outcome and ra.variant == "Ok":
                sa = c.a.get().f[P.structs["Interpreter"].index("state")]
                got = sa.f[P.structs["State"].index("stack")].f
                for tr in (True, False):
                    want = fixed_outcome[label](c.items, tr)
                    cond = OS.truthy(c.items[-1]) if tr else z3.Not(OS.truthy(c.items[-1]))
                    if label == "RETURN 1ADD" and not tr:
                        continue
                    if label == "RETURN 1ADD":
                        cond = z3.BoolVal(True)
                    sx = z3.Solver()
                    for cnd in r.pc:
                        sx.add(cnd)
                    sx.add(cond)
                    qr.queries += 1
                    if sx.check() != z3.sat:
                        continue
                    same = len(got) == len(want)
                    neq = []
                    if same:
                        for g, w in zip(got, want):
                            gi = ex.seq_items(g.s)
                            if gi is None or len(gi) != len(w):
                                same = False
                                break
                            neq += [a_ != b_ for a_, b_ in zip(gi, w)]
                    if same and neq:
                        sx.add(z3.Or(*neq))
                        same = sx.check() != z3.sat
                    if not same:
                        bad, goal = "elements after an executed OP_RETURN still run (OP_RETURN must end the script with the stacks as they are)", cond
                        break
            if bad is None or reported:
                continue
            s = z3.Solver()
            for cnd in r.pc:
                s.add(cnd)
            s.add(goal)
            if s.check() != z3.sat:
                continue
            m = s.model()
            items = [bytes(bv_val(m, b) for b in it) for it in c.items]
            tail = {"ADD": "93", "DUP ADD": "7693", "SWAP SUB 1ADD": "7c948b", "VERIFY 1": "6951", "IF 1ADD ELSE 1SUB ENDIF DUP": "638b678c6876", "NOTIF DROP ENDIF": "647568", "IF IF 2 ENDIF ENDIF": "6363526868",
                    "TOALTSTACK FROMALTSTACK EQUAL": "6b766c87", "DROP DROP DROP": "757575", "(empty)": "", "RETURN 1ADD": "6a8b", "IF RETURN ENDIF DROP": "636a6875"}[label]
            scr = b"".join(bytes([len(i)]) + i for i in items) + bytes.fromhex(tail)
            req, nat = native(scr)
            item = {"message": f"script [{label}] on stack {[i.hex() for i in items]}: {bad}", "request": req, "op_index": 0, "expected": {"same": True, "stepping_ends": True}, "native": nat}
            reported = True
            if label in fixed_outcome:
                tv = any(b != 0 for b in items[-1][:-1]) or (len(items[-1]) > 0 and items[-1][-1] not in (0, 0x80))
                want_stack = [bytes(w).hex() for w in fixed_outcome[label](items, tv)]
                req2 = {"tx": {"version": 1, "locktime": 0, "inputs": [], "outputs": []}, "ops": [{"op": "interp", "script": scr.hex()}]}
                nat2 = {p_: C.Native.run(req2, p_)[0] for p_ in ("debug", "release")}
                item.update({"request": req2, "expected": {"stack": want_stack}, "native": nat2})
                if any(v.get("ok", {}).get("stack") != want_stack for v in nat2.values()):
                    qr.violations.append(item)
                else:
                    qr.undecided.append(item["message"] + " — not reproduced natively: " + json.dumps(nat2)[:200])
                continue
            if any(v.get("ok") != {"same": True, "stepping_ends": True} for v in nat.values()):
                qr.violations.append(item)
            else:
                qr.undecided.append(item["message"] + " — not reproduced natively: " + json.dumps(nat)[:200])
        finish(qr, ex)
    qr.samples.append({"obligation": qr.name, "scripts": list(scripts)})
    return qr
