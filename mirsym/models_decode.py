"""Content-free models for decoder totality (C09): an input buffer is an opaque byte string of symbolic length; reads return fresh
values, slices return opaque strings of the computed length.  What is decided is control flow: bounds checks, length arithmetic,
allocation sizes — never the decoded content."""
import re
import z3
from .values import *
from .executor import Unsupported, PathPanic, PathBound
from .models import MODELS, ok, err, some, NONE, deref, uf, generic_arg, record

DMODELS = []


def model(pattern):
    """decode-specific models: only used by the totality queries (listed before the general models)"""
    def deco(fn):
        DMODELS.append((re.compile(pattern), fn))
        return fn
    return deco


def fresh_bytes(ex, name, length_bv):
    """opaque byte string with the given 64-bit length term (a list of fresh bytes when the length is a small constant)"""
    c = z3.simplify(length_bv)
    if z3.is_bv_value(c) and c.as_long() <= 128:
        return Bytes(seq_of([ex.fresh(name + "_b", z3.BitVecSort(8)) for _ in range(c.as_long())]))
    s = ex.fresh(name, SEQ)
    if not hasattr(ex, "len_vars"):
        ex.len_vars = {}
    ex.len_vars[s.get_id()] = length_bv
    ex.__dict__.setdefault("_keep_alive", []).append(s)   # ids key the table: the term must stay alive
    return Bytes(s)


def blen(ex, v):
    v = deref(v)
    if isinstance(v, Bytes):
        return ex.seq_len(v.s)
    if isinstance(v, Arr):
        return z3.BitVecVal(len(v.f), 64)
    raise Unsupported(f"length of {v!r}")


# ------------------------------------------------------------------ Cursor
@model(r"^Cursor::new$")
def m_cursor_new(ex, a, callee, canon):
    return Struct("Cursor", [a[0], Int(0, "u64")])


def cursor_inner_len(ex, cur):
    inner = cur.f[0]
    return blen(ex, inner)


@model(r"^<Cursor<.*> as (byteorder::)?ReadBytesExt>::read_(u8|i8|u16|u32|u64|i32|i64)$")
def m_cursor_read_int(ex, a, callee, canon):
    cur = deref(a[0])
    ty = canon.rsplit("read_", 1)[1]
    k = INT_BITS[ty] // 8
    n = cursor_inner_len(ex, cur)
    pos = cur.f[1].t
    # enough bytes left?  (pos <= n is an invariant of std's Cursor reads; set_position may break it -> handled by the comparison)
    if ex.decide(z3.And(z3.ULE(pos, n), z3.UGE(n - pos, z3.BitVecVal(k, 64)))):
        cur.f[1] = Int(pos + k, "u64")
        return ok(Int(ex.fresh(f"read_{ty}", z3.BitVecSort(INT_BITS[ty])), ty))
    return err("UnexpectedEof")


@model(r"^<Cursor<.*> as (std::io::)?Read>::read$")
def m_cursor_read(ex, a, callee, canon):
    cur = deref(a[0])
    bufp = a[1]
    buf = deref(bufp)
    m = blen(ex, buf)
    n = cursor_inner_len(ex, cur)
    pos = cur.f[1].t
    rem = z3.If(z3.ULE(pos, n), n - pos, z3.BitVecVal(0, 64))
    if ex.decide(z3.ULE(m, rem)):
        amt = m
    else:
        amt = rem
    cur.f[1] = Int(pos + amt, "u64")
    # the destination keeps its length; its content is whatever was read (opaque)
    tgt = bufp
    while isinstance(tgt.get(), Ptr):
        tgt = tgt.get()
    tgt.set(fresh_bytes(ex, "readbuf", m))
    return ok(Int(amt, "usize"))


@model(r"^<Cursor<.*> as (std::io::)?Read>::read_exact$")
def m_cursor_read_exact(ex, a, callee, canon):
    cur = deref(a[0])
    bufp = a[1]
    m = blen(ex, deref(bufp))
    n = cursor_inner_len(ex, cur)
    pos = cur.f[1].t
    if ex.decide(z3.And(z3.ULE(pos, n), z3.ULE(m, n - pos))):
        cur.f[1] = Int(pos + m, "u64")
        tgt = bufp
        while isinstance(tgt.get(), Ptr):
            tgt = tgt.get()
        tgt.set(fresh_bytes(ex, "readbuf", m))
        return ok()
    return err("UnexpectedEof")


@model(r"^Cursor::position$")
def m_cursor_position(ex, a, callee, canon):
    return deref(a[0]).f[1]


@model(r"^Cursor::set_position$")
def m_cursor_set_position(ex, a, callee, canon):
    deref(a[0]).f[1] = a[1]
    return UNIT


@model(r"^Cursor::into_inner$|^Cursor::get_ref$")
def m_cursor_inner(ex, a, callee, canon):
    c = deref(a[0])
    return c.f[0] if canon.endswith("into_inner") else Ptr(c.f, 0)


# ------------------------------------------------------------------ allocation with a size taken from the input
@model(r"^(std::vec::|alloc::vec::)?from_elem$")
def m_from_elem_sym(ex, a, callee, canon):
    v, n = a
    cn = n.concrete()
    if cn is not None and cn <= 4096:
        if isinstance(v, Int) and v.ty == "u8":
            return Bytes(seq_of([v.t] * cn))
        return ListV([clone(v) for _ in range(cn)])
    if not (isinstance(v, Int) and v.ty == "u8"):
        raise Unsupported("vec![x; n] with symbolic n for non-u8")
    record(ex, "alloc", [n, list(ex.pc)])
    return fresh_bytes(ex, "alloc", n.t)




@model(r"^Vec::with_capacity$")
def m_with_capacity(ex, a, callee, canon):
    n = a[0]
    if n.concrete() is None:
        record(ex, "alloc_capacity", [n, list(ex.pc), generic_arg(callee, 0)])
    g = generic_arg(callee, 0)
    return Bytes(z3.Empty(SEQ)) if g is not None and g.strip() == "u8" else ListV([])


# ------------------------------------------------------------------ symbolic-length slicing
def _range_terms(ex, r, n):
    r = deref(r)
    z = z3.BitVecVal(0, 64)
    if isinstance(r, Struct) and r.name == "Range":
        return r.f[0].t, r.f[1].t
    if isinstance(r, Struct) and r.name == "RangeFrom":
        return r.f[0].t, n
    if isinstance(r, Struct) and r.name == "RangeTo":
        return z, r.f[0].t
    if isinstance(r, Struct) and r.name == "RangeFull":
        return z, n
    raise Unsupported(f"range {r!r}")


@model(r"^<(\[u8\]|Vec<u8>) as Index(Mut)?<Range(From|To|Full)?<usize>>>::index(_mut)?$")
def m_index_range_sym(ex, a, callee, canon):
    v = deref(a[0])
    s = ex.bytes_of(v)
    n = ex.seq_len(s)
    lo, hi = _range_terms(ex, a[1], n)
    if not ex.decide(z3.ULE(lo, hi)):
        raise PathPanic("slice index starts after its end")
    if not ex.decide(z3.ULE(hi, n)):
        raise PathPanic("range end index out of range for slice")
    items = ex.seq_items(s)
    clo, chi = z3.simplify(lo), z3.simplify(hi)
    if items is not None and z3.is_bv_value(clo) and z3.is_bv_value(chi):
        return Ptr([Arr([Int(t, "u8") for t in items[clo.as_long():chi.as_long()]])], 0)
    return Ptr([fresh_bytes(ex, "slice", hi - lo)], 0)


@model(r"^<Vec<u8> as Index(Mut)?<usize>>::index(_mut)?$|^<\[u8\] as Index(Mut)?<usize>>::index(_mut)?$")
def m_index_byte_sym(ex, a, callee, canon):
    v = deref(a[0])
    s = ex.bytes_of(v)
    n = ex.seq_len(s)
    if not ex.decide(z3.ULT(a[1].t, n)):
        raise PathPanic("index out of bounds")
    items = ex.seq_items(s)
    ci = a[1].concrete()
    if items is not None and ci is not None:
        return Ptr([Int(items[ci], "u8")], 0)
    return Ptr([Int(ex.fresh("byte", z3.BitVecSort(8)), "u8")], 0)


# ------------------------------------------------------------------ fixed-size conversions with length checks
def typenum(s):
    """UInt<UInt<UTerm, B1>, B0> ... -> integer"""
    bits = re.findall(r"B([01])", s)
    if not bits or "UTerm" not in s:
        return None
    return int("".join(bits), 2)


@model(r"^GenericArray::from_slice$")
def m_ga_from_slice_checked(ex, a, callee, canon):
    v = deref(a[0])
    g = generic_arg(callee, 0) or ""
    parts = g.split(",", 1)
    N = typenum(parts[1]) if len(parts) == 2 else None
    n = blen(ex, v)
    if N is None:
        raise Unsupported("GenericArray length parameter not recognised: " + g[:80])
    if not ex.decide(n == z3.BitVecVal(N, 64)):
        raise PathPanic(f"GenericArray::from_slice: slice length is not {N}")
    items = ex.seq_items(ex.bytes_of(v))
    if items is not None:
        return Ptr([Arr([Int(t, "u8") for t in items])], 0)
    return Ptr([Arr([Int(ex.fresh("ga", z3.BitVecSort(8)), "u8") for _ in range(N)])], 0)


@model(r"^<&\[u8\] as Into<&GenericArray<u8, <T as NewCipher>::(KeySize|NonceSize)>>>::into$")
def m_cipher_key_into(ex, a, callee, canon):
    which = "KeySize" if "KeySize" in canon else "NonceSize"
    site = getattr(ex, "callsite_stack", [""])[-1]
    if "Aes128" in site:
        N = 16
    elif "Aes256" in site:
        N = 32 if which == "KeySize" else 16
    else:
        raise Unsupported("cipher type of aes_ctr call not recognised: " + site[:80])
    n = blen(ex, a[0])
    if not ex.decide(n == z3.BitVecVal(N, 64)):
        raise PathPanic(f"GenericArray::from_slice ({which}): slice length is not {N}")
    return Ptr([Arr([Int(ex.fresh("k", z3.BitVecSort(8)), "u8") for _ in range(N)])], 0)




@model(r"^<&\[u8\] as TryInto<\[u8; (\d+)\]>>::try_into$")
def m_try_into_array_sym(ex, a, callee, canon):
    N = int(re.search(r"\[u8; (\d+)\]", canon).group(1))
    n = blen(ex, a[0])
    if ex.decide(n == z3.BitVecVal(N, 64)):
        items = ex.seq_items(ex.bytes_of(a[0]))
        if items is not None and len(items) == N:
            return ok(Arr([Int(t, "u8") for t in items]))
        return ok(Arr([Int(ex.fresh("arr", z3.BitVecSort(8)), "u8") for _ in range(N)]))
    return err("TryFromSliceError")


# ------------------------------------------------------------------ strings, Base58, hex (opaque, lengths symbolic)
class StrArg:
    pass


@model(r"^core::str::<impl str>::len$")
def m_str_len(ex, a, callee, canon):
    v = deref(a[0])
    if isinstance(v, Opaque) and isinstance(v.payload, z3.BitVecRef):
        return Int(v.payload, "usize")
    raise Unsupported(f"str::len of {v!r}")


@model(r"^bs58::decode$")
def m_bs58_decode(ex, a, callee, canon):
    return Opaque("b58decoder", a[0])


@model(r"DecodeBuilder<.*>::into_vec$|DecodeBuilder::into_vec$")
def m_bs58_into_vec(ex, a, callee, canon):
    src = deref(a[0].payload) if isinstance(a[0], Opaque) else None
    if isinstance(src, Opaque) and src.tag == "b58string" and isinstance(src.payload, Bytes):
        return ok(Bytes(src.payload.s))          # decode inverts encode
    if not ex.decide(ex.fresh("b58_valid", z3.BoolSort())):
        return err("bs58")
    L = ex.fresh("b58_decoded_len", z3.BitVecSort(64))
    ex.pc_assume(z3.ULE(L, z3.BitVecVal(1 << 20, 64)))
    if isinstance(src, Opaque) and isinstance(src.payload, z3.BitVecRef):
        # Base58 fact: n characters decode to at least 5n/7 - 1 bytes (log 58 / log 256 = 0.732; leading '1's are one byte each)
        ex.pc_assume(z3.UGE(L * 7 + 7, src.payload * 5))
        ex.pc_assume(z3.ULE(L, src.payload))
    return ok(fresh_bytes(ex, "b58_decoded", L))


@model(r"^<\[u8\] as (to_hex::)?ToHex>::to_hex$|^<Vec<u8> as (to_hex::)?ToHex>::to_hex$")
def m_to_hex(ex, a, callee, canon):
    return Opaque("hex", Bytes(ex.bytes_of(a[0])))


@model(r"^hex::decode$")
def m_hex_decode(ex, a, callee, canon):
    src = deref(a[0])
    if isinstance(src, Opaque) and src.tag == "hex" and isinstance(src.payload, Bytes):
        return ok(Bytes(src.payload.s))
    if not ex.decide(ex.fresh("hex_valid", z3.BoolSort())):
        return err("hex")
    L = ex.fresh("hex_decoded_len", z3.BitVecSort(64))
    ex.pc_assume(z3.ULE(L, z3.BitVecVal(1 << 20, 64)))
    return ok(fresh_bytes(ex, "hex_decoded", L))


# ------------------------------------------------------------------ key / point / cipher parsers: opaque accept-or-reject
@model(r"^SecretKey::from_be_bytes$")
def m_secret_from_bytes(ex, a, callee, canon):
    if ex.decide(ex.fresh("secret_valid", z3.BoolSort())):
        return ok(Opaque("SecretKey"))
    return err("elliptic_curve::Error")


@model(r"^sec1::point::EncodedPoint::from_bytes$")
def m_encoded_point(ex, a, callee, canon):
    if ex.decide(ex.fresh("sec1_valid", z3.BoolSort())):
        return ok(Opaque("EncodedPoint", Bytes(ex.bytes_of(a[0]))))
    return err("sec1")


@model(r"(^|::)PublicKey::from_sec1_bytes$")
def m_from_sec1_oracle(ex, a, callee, canon):
    if ex.decide(ex.fresh("sec1_on_curve", z3.BoolSort())):
        return ok(Opaque("K256PublicKey", Bytes(ex.bytes_of(a[0]))))
    return err("elliptic_curve::Error")


@model(r"(^|::)PublicKey::from_encoded_point$")
def m_pk_from_encoded(ex, a, callee, canon):
    p = deref(a[0])
    return Struct("PublicKey", [p.payload if isinstance(p.payload, Bytes) else Bytes(z3.Empty(SEQ)), Bool(True)])


@model(r"(^|::)PublicKey::from_private_key_impl$|(^|::)PrivateKey::compress_public_key$")
def m_pk_from_priv(ex, a, callee, canon):
    if canon.endswith("compress_public_key"):
        return deref(a[0])
    return Struct("PublicKey", [Bytes(ex.fresh("point", SEQ)), Bool(True)])


@model(r"::new_from_slices$")
def m_cbc_new_from_slices(ex, a, callee, canon):
    keylen = 16 if "Aes128" in callee else 32
    if ex.decide(z3.And(blen(ex, a[0]) == z3.BitVecVal(keylen, 64), blen(ex, a[1]) == z3.BitVecVal(16, 64))):
        return ok(Opaque("Cbc"))
    return err("InvalidKeyIvLength")


@model(r"::encrypt_vec$")
def m_cbc_encrypt(ex, a, callee, canon):
    return fresh_bytes(ex, "ciphertext", ex.fresh("ct_len", z3.BitVecSort(64)))


@model(r"::decrypt_vec$")
def m_cbc_decrypt(ex, a, callee, canon):
    if ex.decide(ex.fresh("padding_ok", z3.BoolSort())):
        return ok(fresh_bytes(ex, "plaintext", ex.fresh("pt_len", z3.BitVecSort(64))))
    return err("BlockModeError")


@model(r"^<T as NewCipher>::new$")
def m_cipher_new(ex, a, callee, canon):
    return Opaque("StreamCipher")


@model(r"^<T as StreamCipherSeek>::seek$|^<T as StreamCipher>::apply_keystream$")
def m_cipher_ops(ex, a, callee, canon):
    return UNIT


@model(r"^RecoveryId::new$|to_encoded_point$|^ecdsa::Error::new$|^(std::io::)?Error::new$")
def m_ext_value(ex, a, callee, canon):
    return Opaque(canon.rsplit("::", 2)[-2] if "::" in canon else canon)


@model(r"^<RecoveryId as TryInto<Id>>::try_into$|recoverable::Signature::new$|recover_verify_key_from_digest_bytes$|recover_verify_key_from_digest$")
def m_ext_result(ex, a, callee, canon):
    if ex.decide(ex.fresh("ext_ok", z3.BoolSort())):
        return ok(Opaque("ext"))
    return err("ecdsa::Error")


@model(r"^sec1::point::EncodedPoint::as_bytes$")
def m_point_as_bytes(ex, a, callee, canon):
    return Ptr([fresh_bytes(ex, "point", z3.BitVecVal(33, 64))], 0)


@model(r"ECDSA>?::sign_digest_with_deterministic_k_impl$|ECDSA>?::verify_hashbuf_impl$")
def m_crypto_entry_opaque(ex, a, callee, canon):
    if ex.decide(ex.fresh("crypto_ok", z3.BoolSort())):
        return ok(Opaque("result"))
    return err("crypto")


@model(r"(^|::)Script::from_coinbase_bytes$")
def m_script_from_coinbase(ex, a, callee, canon):
    return ok(Struct("Script", [Bytes(ex.bytes_of(a[0]))]))


@model(r"^<&\[u8\] as Into<Vec<u8>>>::into$")
def m_slice_into_vec(ex, a, callee, canon):
    return Bytes(ex.bytes_of(a[0]))




@model(r"(^|::)Script::from_bytes$")
def m_script_from_bytes_opaque(ex, a, callee, canon):
    """inside transaction decoders the script tokenizer is a separate entry point: accept-or-reject here"""
    if getattr(ex, "script_from_bytes_real", False):
        d = ex.P.resolve("script::Script::from_bytes")
        return ex.call_fn(d, a)
    if ex.decide(ex.fresh("script_parses", z3.BoolSort())):
        return ok(Struct("Script", [Bytes(ex.bytes_of(a[0]))]))
    return err("script")


@model(r"^<T as NewCipher>::new_from_slices$")
def m_cipher_new_from_slices(ex, a, callee, canon):
    site = getattr(ex, "callsite_stack", [""])[-1]
    keylen = 16 if "Aes128" in site else 32 if "Aes256" in site else None
    if keylen is None:
        raise Unsupported("cipher type of aes_ctr call not recognised: " + site[:80])
    if ex.decide(z3.And(blen(ex, a[0]) == z3.BitVecVal(keylen, 64), blen(ex, a[1]) == z3.BitVecVal(16, 64))):
        return ok(Opaque("StreamCipher"))
    return err("InvalidLength")


@model(r"(^|::)TxIn::read_in$|(^|::)TxOut::read_in$")
def m_read_in_opaque(ex, a, callee, canon):
    """inside Transaction::from_bytes_impl the element decoders are separate entry points: here they consume some bytes or fail"""
    if not getattr(ex, "opaque_read_in", False):
        d = ex.P.resolve("txin::TxIn::read_in" if "TxIn" in canon else "txout::TxOut::read_in")
        return ex.call_fn(d, a)
    cur = deref(a[0])
    if not ex.decide(ex.fresh("element_parses", z3.BoolSort())):
        return err("element")
    n = cursor_inner_len(ex, cur)
    pos = cur.f[1].t
    adv = ex.fresh("consumed", z3.BitVecSort(64))
    ex.pc_assume(z3.And(z3.ULE(pos, n), z3.ULE(adv, n - pos), z3.UGE(adv, 9)))
    cur.f[1] = Int(pos + adv, "u64")
    return ok(Opaque("element"))


@model(r"^<(\w+::)*OpCodes as (num_traits::)?FromPrimitive>::from_u8$")
def m_opcode_from_u8(ex, a, callee, canon):
    """only the three PUSHDATA opcodes are distinguished (they drive length/allocation logic); every other defined byte value is
    represented by OP_NOP, undefined ones give None"""
    b = a[0].t
    E = ex.P.enums["OpCodes"]
    for nm in ("OP_PUSHDATA1", "OP_PUSHDATA2", "OP_PUSHDATA4"):
        if ex.decide(b == z3.BitVecVal(E[nm], 8)):
            return some(Enum("OpCodes", nm, E[nm]))
    if ex.decide(ex.fresh("opcode_defined", z3.BoolSort())):
        return some(Enum("OpCodes", "OP_NOP", E["OP_NOP"]))
    return NONE()



@model(r"^core::slice::<impl \[u8\]>::split_last$")
def m_split_last_opaque(ex, a, callee, canon):
    s = ex.bytes_of(a[0])
    n = ex.seq_len(s)
    if ex.decide(n == 0):
        return NONE()
    return some(Struct("tuple", [Ptr([Int(ex.fresh("last_byte", z3.BitVecSort(8)), "u8")], 0), Ptr([fresh_bytes(ex, "init", n - 1)], 0)]))



@model(r"^core::slice::<impl \[u8\]>::split_at$")
def m_split_at_opaque(ex, a, callee, canon):
    s = ex.bytes_of(a[0])
    n = ex.seq_len(s)
    mid = a[1].t
    if not ex.decide(z3.ULE(mid, n)):
        raise PathPanic("slice::split_at: mid > len")
    return Struct("tuple", [Ptr([fresh_bytes(ex, "split_l", mid)], 0), Ptr([fresh_bytes(ex, "split_r", n - mid)], 0)])


@model(r"^core::slice::<impl \[u8\]>::split_first$")
def m_split_first_opaque(ex, a, callee, canon):
    s = ex.bytes_of(a[0])
    items = ex.seq_items(s)
    if items is not None:
        if not items:
            return NONE()
        return some(Struct("tuple", [Ptr([Int(items[0], "u8")], 0), Ptr([Bytes(seq_of(items[1:]))], 0)]))
    n = ex.seq_len(s)
    if ex.decide(n == 0):
        return NONE()
    return some(Struct("tuple", [Ptr([Int(ex.fresh("first_byte", z3.BitVecSort(8)), "u8")], 0), Ptr([fresh_bytes(ex, "tail", n - 1)], 0)]))
