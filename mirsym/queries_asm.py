"""E2 query for the ASM text rendering (C17, token level): Script::to_asm_string_impl(false) followed by Script::from_asm_string on
structured scripts with symbolic push payloads.  Text is a list of TOKENS (opcode names / decimal literals as concrete strings, hex
renderings of byte strings as 'hex of these bytes') separated by single spaces; string comparison between a hex token and a literal
is the byte-wise condition under which the lower-case hex rendering equals the literal.  What is decided: which token each element
renders to, how tokens map back (numeric aliases, opcode names, hex data and its push class), conditional re-nesting.  Not decided:
character-level whitespace handling, the extended rendering, upper-case / malformed hex, strum's name tables (names are the
variant identifiers read from the source)."""
import json, re
import z3
from .executor import Unsupported, Exec
from .values import *
from .models import MODELS, ok, err, some, NONE, deref, generic_arg, IterV
from .txmodel import Ctx
from . import concrete as C
from .queries import QResult, finish, MAX_VIOLATIONS
from .queries_script import SHAPES, OPB


class StrV:
    """text as tokens: ('lit', 'OP_DUP') | ('hex', [bv8...]) | ('sp',)"""

    def __init__(self, toks):
        self.toks = list(toks)

    def __repr__(self):
        return "StrV(" + " ".join(t[1] if t[0] == "lit" else ("<hex%d>" % len(t[1]) if t[0] == "hex" else "_") for t in self.toks) + ")"


def sv(v):
    v = deref(v)
    if isinstance(v, StrV):
        return v
    if isinstance(v, Opaque) and v.tag == "str" and isinstance(v.payload, str) and v.payload.startswith('"'):
        lit = eval(v.payload)      # rustc prints string constants in a Python-compatible escape syntax
        return StrV([("lit", lit)]) if lit else StrV([])
    raise Unsupported("string value " + repr(v)[:80])


def single(s):
    """the text as one token, or None if it contains separators / several tokens"""
    if len(s.toks) == 0:
        return ("lit", "")
    if len(s.toks) == 1 and s.toks[0][0] != "sp":
        return s.toks[0]
    return None


HEXD = "0123456789abcdef"


def tok_eq_lit(tok, lit):
    """z3 Bool / python bool: token text == literal"""
    if tok[0] == "lit":
        return z3.BoolVal(tok[1] == lit)
    if tok[0] == "hex":
        bs = tok[1]
        if len(lit) != 2 * len(bs) or any(ch not in HEXD for ch in lit):
            return z3.BoolVal(False)
        return z3.And(*[b == int(lit[2 * i:2 * i + 2], 16) for i, b in enumerate(bs)]) if bs else z3.BoolVal(True)
    return z3.BoolVal(False)


def q_asm_roundtrip(env, alias="include", name=None, part="roundtrip"):
    """alias="exclude": one-byte payloads are assumed to lie outside 0x10..0x16 (the values of the open known finding); "include": no assumption"""
    qr = QResult(name or f"asm_roundtrip_{alias}")
    P = env.P
    f_to = env.fn("script::Script::to_asm_string_impl")
    f_from = env.fn("script::Script::from_asm_string")
    E = P.enums["ScriptBit"]
    OPS = P.enums["OpCodes"]

    # ---- string models
    def m_op_to_string(ex, a, callee, canon):
        return StrV([("lit", deref(a[0]).variant)])

    def m_int_to_string(ex, a, callee, canon):
        v = deref(a[0]).concrete()
        if v is None:
            raise Unsupported("to_string of a symbolic integer")
        return StrV([("lit", str(v))])

    def m_hex_encode(ex, a, callee, canon):
        items = ex.seq_items(ex.bytes_of(a[0]))
        if items is None:
            raise Unsupported("hex::encode of a byte string of symbolic length")
        return StrV([("hex", items)]) if items else StrV([])

    def m_is_empty(ex, a, callee, canon):
        return Bool(len(sv(a[0]).toks) == 0)

    def m_join(ex, a, callee, canon):
        parts = [sv(x) for x in deref(a[0]).f]
        sep = sv(a[1])
        if [t for t in sep.toks] != [("lit", " ")]:
            raise Unsupported("join with a separator other than one space")
        out = []
        for i, p in enumerate(parts):
            if i:
                out.append(("sp",))
            out += p.toks
        return StrV(out)

    def m_split(ex, a, callee, canon):
        s = sv(a[0])
        ch = a[1].concrete()
        if ch != 0x20:
            raise Unsupported("split on a character other than space")
        pieces, cur = [], []
        for t in s.toks:
            if t[0] == "sp":
                pieces.append(StrV(cur))
                cur = []
            else:
                cur.append(t)
        pieces.append(StrV(cur))
        return IterV([Ptr([p], 0) for p in pieces], False)

    def m_trim(ex, a, callee, canon):
        return a[0] if isinstance(a[0], Ptr) else Ptr([a[0]], 0)

    def m_str_eq(ex, a, callee, canon):
        x, y = sv(a[0]), sv(a[1])
        tx, ty = single(x), single(y)
        if tx is None or ty is None:
            raise Unsupported("comparison of multi-token text")
        if ty[0] == "lit":
            r = tok_eq_lit(tx, ty[1])
        elif tx[0] == "lit":
            r = tok_eq_lit(ty, tx[1])
        else:
            bx, by = tx[1], ty[1]
            r = z3.And(*[p == q for p, q in zip(bx, by)]) if len(bx) == len(by) else z3.BoolVal(False)
        return Bool(r if canon.endswith("::eq") else z3.Not(r))

    def m_from_str(ex, a, callee, canon):
        t = single(sv(a[0]))
        if t is None:
            raise Unsupported("OpCodes::from_str on multi-token text")
        if t[0] == "lit" and t[1] in OPS:
            return ok(Enum("OpCodes", t[1], OPS[t[1]]))
        return err("strum::ParseError")       # a hex rendering never spells an opcode name (no 'O', 'P', '_' in lower-case hex)

    def m_hex_decode(ex, a, callee, canon):
        t = single(sv(a[0]))
        if t is None:
            raise Unsupported("hex::decode on multi-token text")
        if t[0] == "hex":
            return ok(Bytes(seq_of(t[1])))
        lit = t[1]
        if len(lit) % 2 == 0 and all(ch in "0123456789abcdefABCDEF" for ch in lit):
            return ok(Bytes(seq_of([z3.BitVecVal(int(lit[i:i + 2], 16), 8) for i in range(0, len(lit), 2)])))
        return err("FromHexError")

    def m_collect_result(ex, a, callee, canon):
        from .models import iter_next
        items = []
        while True:
            x = iter_next(ex, a[0])
            if x is None:
                break
            x = deref(x) if isinstance(x, Ptr) else x
            if x.variant == "Err":
                return x
            items.append(x.f[0])
        return ok(ListV(items))

    def m_const_str(ex, c):
        raise Unsupported("string constant " + c)

    R = re.compile
    AM = [(R(r"^<(\w+::)*OpCodes as ToString>::to_string$"), m_op_to_string), (R(r"^<(i32|u8|usize|i64|u32) as ToString>::to_string$"), m_int_to_string), (R(r"^hex::encode$"), m_hex_encode),
          (R(r"^(std::string::|alloc::string::)?String::is_empty$|^core::str::<impl str>::is_empty$"), m_is_empty), (R(r"^(std|alloc)::slice::<impl \[(std::string::)?String\]>::join$"), m_join),
          (R(r"^core::str::<impl str>::split$"), m_split), (R(r"^core::str::<impl str>::trim$"), m_trim), (R(r"^<&?&?str as PartialEq(<.*>)?>::(eq|ne)$"), m_str_eq),
          (R(r"^<(\w+::)*OpCodes as FromStr>::from_str$"), m_from_str), (R(r"^hex::decode$"), m_hex_decode),
          (R(r"^<.* as Iterator>::collect$"), None)]
    base_collect = [m for m in MODELS if m[1].__name__ == "m_collect"][0][1]

    def m_collect_dispatch(ex, a, callee, canon):
        if "Result<Vec<" in callee.replace(" ", "").split("collect")[-1]:
            return m_collect_result(ex, a, callee, canon)
        return base_collect(ex, a, callee, canon)
    AM[-1] = (AM[-1][0], m_collect_dispatch)

    def build(shape, ctx):
        out = []
        for el in shape:
            k = el[0]
            if k == "op":
                out.append(Enum("ScriptBit", "OpCode", E["OpCode"], [Enum("OpCodes", el[1], OPS[el[1]])]))
            elif k == "push":
                data = [z3.BitVec(f"d{len(ctx.payloads)}_{i}", 8) for i in range(el[1])]
                ctx.payloads.append(data)
                out.append(Enum("ScriptBit", "Push", E["Push"], [Bytes(seq_of(data))]))
            elif k in ("pd1", "pd2"):
                data = [z3.BitVec(f"d{len(ctx.payloads)}_{i}", 8) for i in range(el[1])]
                ctx.payloads.append(data)
                nm = "OP_PUSHDATA1" if k == "pd1" else "OP_PUSHDATA2"
                out.append(Enum("ScriptBit", "PushData", E["PushData"], [Enum("OpCodes", nm, OPS[nm]), Bytes(seq_of(data))]))
            else:
                _, code, p, fl = el
                out.append(Enum("ScriptBit", "If", E["If"], [Enum("OpCodes", code, OPS[code]), ListV(build(p, ctx)), some(ListV(build(fl, ctx))) if fl is not None else NONE()]))
        return out

    def ids(ex, bits):
        out = []
        for b in bits:
            b = deref(b)
            if b.variant == "OpCode":
                out.append(("OpCode", b.f[0].variant))
            elif b.variant == "Push":
                out.append(("Push", ex.seq_items(b.f[0].s)))
            elif b.variant == "PushData":
                out.append(("PushData", b.f[0].variant, ex.seq_items(b.f[1].s)))
            elif b.variant == "If":
                fl = b.f[2]
                out.append(("If", b.f[0].variant, ids(ex, b.f[1].f), ids(ex, fl.f[0].f) if fl.variant == "Some" else None))
            else:
                out.append((b.variant,))
        return out

    def differ(g, w, neq):
        """structural comparison; byte-wise inequalities of equally long payloads are collected in neq; True = shapes differ"""
        if len(g) != len(w):
            return True
        for x, y in zip(g, w):
            if x[0] != y[0]:
                return True
            if x[0] == "OpCode" and x[1] != y[1]:
                return True
            if x[0] in ("Push", "PushData"):
                if x[0] == "PushData" and x[1] != y[1]:
                    return True
                if x[-1] is None or y[-1] is None or len(x[-1]) != len(y[-1]):
                    return True
                neq += [p != q for p, q in zip(x[-1], y[-1]) if p.get_id() != q.get_id()]
            if x[0] == "If":
                if x[1] != y[1] or (x[3] is None) != (y[3] is None) or differ(x[2], y[2], neq) or (x[3] is not None and differ(x[3], y[3], neq)):
                    return True
        return False

    def alias_only(g, w, pc):
        """is every difference a one-byte push b reparsed as OP_1k with b == 0x1k under the path condition?"""
        if len(g) != len(w):
            return False
        for x, y in zip(g, w):
            if x[0] == "If" and y[0] == "If":
                if x[1] != y[1] or (x[3] is None) != (y[3] is None) or not alias_only(x[2], y[2], pc) or (x[3] is not None and not alias_only(x[3], y[3], pc)):
                    return False
                continue
            if x == y or (x[0] == y[0] and x[0] in ("Push", "PushData") and x[-1] is not None and y[-1] is not None and len(x[-1]) == len(y[-1]) and (x[0] == "Push" or x[1] == y[1])):
                continue
            mm = re.match(r"OP_1([0-6])$", x[1]) if x[0] == "OpCode" else None
            if not (mm and y[0] == "Push" and y[1] is not None and len(y[1]) == 1):
                return False
            sx = z3.Solver()
            for cnd in pc:
                sx.add(cnd)
            sx.add(y[1][0] != 0x10 + int(mm.group(1)))
            if sx.check() != z3.unsat:
                return False
        return True

    def ser(shape, payloads, counter):
        out = bytearray()
        for el in shape:
            k = el[0]
            if k == "op":
                out.append(OPS[el[1]])
            elif k in ("push", "pd1", "pd2"):
                d = payloads[counter[0]]
                counter[0] += 1
                out += (bytes([len(d)]) if k == "push" else bytes([0x4c, len(d)]) if k == "pd1" else bytes([0x4d, len(d) & 0xff, len(d) >> 8])) + d
            else:
                _, code, p, fl = el
                out.append(OPS[code])
                out += ser(p, payloads, counter)
                if fl is not None:
                    out.append(0x67)
                    out += ser(fl, payloads, counter)
                out.append(0x68)
        return bytes(out)

    # the property is stated for minimally pushed scripts: drop the non-minimal shape, add short pushes whose hex may look like a number
    shapes = {k: v for k, v in SHAPES.items() if "non-minimal" not in k}
    shapes["one-byte push"] = [("push", 1)]
    shapes["two one-byte pushes and a two-byte push"] = [("push", 1), ("op", "OP_DUP"), ("push", 1), ("push", 2)]
    # "this holds for all opcodes": every opcode the library names, except those that open / close conditionals or introduce a push
    # (the library's parser also opens a conditional at OP_VERIF / OP_VERNOTIF)
    structural = {"OP_IF", "OP_NOTIF", "OP_VERIF", "OP_VERNOTIF", "OP_ELSE", "OP_ENDIF", "OP_PUSHDATA1", "OP_PUSHDATA2", "OP_PUSHDATA4"}
    shapes["every opcode"] = [("op", nm) for nm in sorted(OPS, key=lambda n: OPS[n]) if nm not in structural]
    if part == "extended":
        return run_extended(env, qr, shapes, AM, build, ser, f_to)
    alias_reported = [False]
    for label, shape in shapes.items():
        qr.cases += 1
        ex = Exec(P, AM + MODELS, max_paths=3000)

        def setup(ex, shape=shape):
            ctx = Ctx()
            ctx.payloads = []
            ctx.script = Struct("Script", [ListV(build(shape, ctx))])
            if alias == "exclude":
                for d in ctx.payloads:
                    if len(d) == 1:
                        ctx.assumptions.append(z3.Or(z3.ULT(d[0], 0x10), z3.UGT(d[0], 0x16)))
            ex._ctx = ctx
            return "__asm_roundtrip__", [], ctx
        orig = ex.call_fn

        def call_fn(name_, args, ex=ex, orig=orig):
            if name_ != "__asm_roundtrip__":
                return orig(name_, args)
            ctx = ex._ctx
            text = orig(f_to, [Ptr([ctx.script], 0), Bool(False)])
            ctx.text = text
            return orig(f_from, [Ptr([text], 0)])
        ex.call_fn = call_fn
        orig_const = ex.eval_const

        def eval_const(fr, c, ex=ex, orig_const=orig_const):
            m = re.match(r'^const "((?:[^"\\]|\\.)*)"$', c.strip())
            if m:
                lit = m.group(1).encode().decode("unicode_escape")
                return Ptr([StrV([("lit", lit)] if lit else [])], 0)
            return orig_const(fr, c)
        ex.eval_const = eval_const
        try:
            res = ex.explore(setup)
        except Unsupported as e:
            qr.undecided.append(f"script [{label}]: {e}")
            continue
        reported = False
        deferred = []
        work = list(res)
        while work:
            r = work.pop(0)
            if not work and deferred and not reported:
                for d_ in deferred:
                    d_._fallback = True
                work, deferred = deferred, []
            if not getattr(r, "_fallback", False):
                qr.paths += 1
            c = r.ctx
            bad, goal = None, z3.BoolVal(True)
            if r.kind != "ok":
                bad = f"{r.kind}: {r.msg.split(' @')[0][:80]}"
            elif r.ret.variant != "Ok":
                bad = "the library's own ASM rendering is rejected by its ASM parser"
            else:
                g = ids(ex, r.ret.f[0].f[0].f)
                w = ids(ex, c.script.f[0].f)
                neq = []
                if differ(g, w, neq):
                    kinds = [x[0] + (":" + x[1] if x[0] == "OpCode" else "") for x in g][:8]
                    if alias_only(g, w, r.pc):
                        bad = "ALIAS COLLISION: a one-byte data push 0x10..0x16 renders as '10'..'16', which the parser reads as the numeric alias of OP_10..OP_16"
                    else:
                        bad = f"parsing the ASM rendering does not give the script back: element kinds / push classes / nesting differ (reparsed as {kinds})"
                elif neq:
                    bad, goal = "parsing the ASM rendering changes a push payload", z3.Or(*neq)
            if bad is None:
                continue
            is_alias = bad.startswith("ALIAS COLLISION")
            if (is_alias and alias_reported[0]) or (not is_alias and reported):
                continue
            s = z3.Solver()
            for cnd in r.pc:
                s.add(cnd)
            s.add(goal)
            if not is_alias:
                # keep the replay input clear of the known alias collision so that the native difference is this violation's own:
                # a path that forces an alias value is set aside, another path of the same script usually shows the same violation
                s.push()
                for d in c.payloads:
                    if len(d) == 1:
                        s.add(z3.Or(z3.ULT(d[0], 0x10), z3.UGT(d[0], 0x16)))
                if s.check() != z3.sat:
                    s.pop()
                    if not getattr(r, "_fallback", False):
                        deferred.append(r)
                        continue
            qr.queries += 1
            if s.check() != z3.sat:
                continue
            m = s.model()
            payloads = [bytes(m.eval(b, model_completion=True).as_long() for b in d) for d in c.payloads]
            raw = ser(shape, payloads, [0])
            req = {"tx": {"version": 1, "locktime": 0, "inputs": [], "outputs": []}, "ops": [{"op": "asm_roundtrip", "hex": raw.hex()}]}
            nat = {p_: C.Native.run(req, p_)[0] for p_ in ("debug", "release")}
            item = {"message": f"script [{label}] ({raw.hex()[:60]}): {bad}", "request": req, "op_index": 0, "expected": {"reparsed": raw.hex()}, "native": nat}
            if is_alias:
                alias_reported[0] = True
            else:
                reported = True
            if any(v.get("ok", {}).get("reparsed") != raw.hex() for v in nat.values()):
                qr.violations.append(item)
            else:
                qr.undecided.append(item["message"] + " — not reproduced natively: " + json.dumps(nat)[:200])
        finish(qr, ex)
    qr.samples.append({"obligation": qr.name, "shapes": list(shapes)})
    return qr



def run_extended(env, qr, shapes, AM, build, ser, f_to):
    """the EXTENDED rendering (Script::to_asm_string_impl(true)) of structured scripts, token by token, vs the reference: a direct push
    is `OP_PUSH <decimal length> <hex>`, an OP_PUSHDATAn push `<its opcode name> <decimal length> <hex>`, OP_0 its name, conditionals
    as in the plain rendering, at every nesting depth.  format! is executed here: the template constant of the compiled
    format_args! (length-prefixed literal pieces, 0xc0 = next argument) is expanded with the Display text of its arguments."""
    P = env.P

    def m_new_display(ex, a, callee, canon):
        return Opaque("FmtArg", deref(a[0]))

    def m_arguments_new(ex, a, callee, canon):
        tpl = a[0]
        while isinstance(tpl, Ptr):
            tpl = tpl.get()
        args = a[1]
        while isinstance(args, Ptr):
            args = args.get()
        return Opaque("FmtArguments", (tpl, list(args.f)))

    def display(ex, v):
        v = deref(v)
        while isinstance(v, Ptr):
            v = deref(v)
        if isinstance(v, StrV):
            return list(v.toks)
        if isinstance(v, Int):
            c = v.concrete()
            if c is None:
                raise Unsupported("Display of a symbolic integer")
            return [("lit", str(c))]
        if isinstance(v, Enum) and v.name == "OpCodes":
            return [("lit", v.variant)]
        return list(sv(v).toks)

    def m_format(ex, a, callee, canon):
        fa = deref(a[0])
        if not (isinstance(fa, Opaque) and fa.tag == "FmtArguments"):
            raise Unsupported("format of " + repr(fa)[:60])
        tpl, args = fa.payload
        if isinstance(tpl, Opaque) and tpl.tag == "bytes_const":
            raw = tpl.payload
        else:
            items = ex.seq_items(ex.bytes_of(tpl))
            if items is None or any(not z3.is_bv_value(z3.simplify(i)) for i in items):
                raise Unsupported("format template is not a constant")
            raw = bytes(z3.simplify(i).as_long() for i in items)
        toks, i, k = [], 0, 0

        def lit(text):
            for j, piece in enumerate(text.split(" ")):
                if j:
                    toks.append(("sp",))
                if piece:
                    # a literal piece glued to the previous token without a space cannot be expressed in the token model
                    if toks and toks[-1][0] != "sp":
                        raise Unsupported("format template glues text to an argument without a separating space")
                    toks.append(("lit", piece))
        while i < len(raw):
            b = raw[i]
            if b == 0:
                break
            if b < 0x80:
                lit(raw[i + 1:i + 1 + b].decode())
                i += 1 + b
            elif b == 0xc0:
                d = display(ex, args[k].payload if isinstance(args[k], Opaque) else args[k])
                if d and toks and toks[-1][0] != "sp":
                    raise Unsupported("format template glues an argument to text without a separating space")
                toks += d
                k += 1
                i += 1
            else:
                raise Unsupported(f"format template with a placeholder specification ({b:#x})")
        return StrV(toks)

    def m_must_use(ex, a, callee, canon):
        return a[0]
    R = re.compile
    FM = [(R(r"Argument(<.*>)?::new_display$"), m_new_display), (R(r"^Arguments(<.*>)?::new$"), m_arguments_new), (R(r"^format$|fmt::format$"), m_format), (R(r"^must_use$|hint::must_use$"), m_must_use)]

    def want_tokens(shape, payloads, counter):
        parts = []
        for el in shape:
            k = el[0]
            if k == "op":
                parts.append([("lit", el[1])])
            elif k in ("push", "pd1", "pd2"):
                d = payloads[counter[0]]
                counter[0] += 1
                head = "OP_PUSH" if k == "push" else "OP_PUSHDATA1" if k == "pd1" else "OP_PUSHDATA2"
                parts.append([("lit", head), ("sp",), ("lit", str(len(d))), ("sp",), ("hex", d)])
            else:
                _, code, p_, fl = el
                sub = [[("lit", code)]]
                pp = want_tokens(p_, payloads, counter)
                if pp:
                    sub.append(pp)
                if fl is not None:
                    sub.append([("lit", "OP_ELSE")])
                    ff = want_tokens(fl, payloads, counter)
                    if ff:
                        sub.append(ff)
                sub.append([("lit", "OP_ENDIF")])
                parts.append(join(sub))
        return join(parts)

    def join(parts):
        out = []
        for i, p_ in enumerate(parts):
            if i:
                out.append(("sp",))
            out += p_
        return out

    def render(toks, m=None):
        out = ""
        for t in toks:
            if t[0] == "sp":
                out += " "
            elif t[0] == "lit":
                out += t[1]
            else:
                out += bytes((m.eval(b, model_completion=True).as_long() if m is not None else 0) for b in t[1]).hex()
        return out
    for label, shape in shapes.items():
        qr.cases += 1
        ex = Exec(P, FM + AM + MODELS, max_paths=3000)

        def setup(ex, shape=shape):
            ctx = Ctx()
            ctx.payloads = []
            ctx.script = Struct("Script", [ListV(build(shape, ctx))])
            return f_to, [Ptr([ctx.script], 0), Bool(True)], ctx
        orig_const = ex.eval_const

        def eval_const(fr, c, ex=ex, orig_const=orig_const):
            cs = c.strip()
            m = re.match(r'^const "((?:[^"\\]|\\.)*)"$', cs)
            if m:
                lit = m.group(1).encode().decode("unicode_escape")
                return Ptr([StrV([("lit", lit)] if lit else [])], 0)
            m = re.match(r'^const b"((?:[^"\\]|\\.)*)"$', cs)
            if m:
                raw = m.group(1).encode().decode("unicode_escape").encode("latin-1")
                return Ptr([Opaque("bytes_const", raw)], 0)
            return orig_const(fr, c)
        ex.eval_const = eval_const
        try:
            res = ex.explore(setup)
        except Unsupported as e:
            qr.undecided.append(f"extended rendering of [{label}]: {e}")
            continue
        for r in res:
            qr.paths += 1
            c = r.ctx
            if r.kind != "ok":
                qr.undecided.append(f"extended rendering of [{label}]: {r.kind} {getattr(r, 'msg', '')}"[:200])
                continue
            try:
                got = list(sv(r.ret).toks)
            except Unsupported as e:
                qr.undecided.append(f"extended rendering of [{label}]: {e}")
                continue
            want = want_tokens(shape, c.payloads, [0])
            same = len(got) == len(want) and all(g[0] == w[0] and (g[0] == "sp" or (g[0] == "lit" and g[1] == w[1]) or (g[0] == "hex" and len(g[1]) == len(w[1]) and all(x.get_id() == y.get_id() for x, y in zip(g[1], w[1])))) for g, w in zip(got, want))
            qr.queries += 1
            if same:
                continue
            payloads = [bytes([0x21 + (i * 7 + j) % 200 for j in range(len(d))]) for i, d in enumerate(c.payloads)]
            raw = ser(shape, payloads, [0])
            sub = {}
            for d, pv in zip(c.payloads, payloads):
                for b, v in zip(d, pv):
                    sub[b.get_id()] = v
            def conc(toks):
                out = ""
                for t in toks:
                    out += " " if t[0] == "sp" else t[1] if t[0] == "lit" else bytes(sub.get(b.get_id(), 0) for b in t[1]).hex()
                return out
            want_text = conc(want)
            req = {"tx": {"version": 1, "locktime": 0, "inputs": [], "outputs": []}, "ops": [{"op": "asm_roundtrip", "hex": raw.hex()}]}
            nat = {p_: C.Native.run(req, p_)[0] for p_ in ("debug", "release")}
            item = {"message": f"extended rendering of [{label}] ({raw.hex()[:60]}): a push is not rendered as '<push opcode> <length> <hex>' (expected '{want_text[:120]}', encoding gives '{conc(got)[:120]}')",
                    "request": req, "op_index": 0, "expected": {"extended": want_text}, "native": nat}
            if len(qr.violations) >= MAX_VIOLATIONS:
                continue
            if any(v.get("ok", {}).get("extended") != want_text for v in nat.values()):
                qr.violations.append(item)
            else:
                qr.undecided.append(item["message"] + " — not reproduced natively: " + json.dumps(nat)[:200])
        finish(qr, ex)
    qr.samples.append({"obligation": qr.name, "shapes": list(shapes), "rendering": "extended"})
    return qr
