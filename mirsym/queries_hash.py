"""E2 query for the composition layer of C13: which primitive is applied to which bytes, in which order, by the crate's own code."""
import hashlib, hmac as pyhmac, json
import z3
from .executor import Unsupported, Exec
from .values import *
from .models import MODELS, uf
from .models_hash import HMODELS, Engine
from .txmodel import Ctx, sym_bytes
from . import concrete as C
from . import seqeq as SE
from .queries import QResult, finish, MAX_VIOLATIONS


def H(name, bits, seq):
    return seq_of(be_bytes(uf(name, SEQ, z3.BitVecSort(bits))(seq), bits // 8))


SPEC_HASH = {
    "sha_256": lambda x: H("SHA256", 256, x), "sha_1": lambda x: H("SHA1", 160, x), "ripemd_160": lambda x: H("RIPEMD160", 160, x), "sha_512": lambda x: H("SHA512", 512, x),
    "sha_256d": lambda x: H("SHA256", 256, H("SHA256", 256, x)), "hash_160": lambda x: H("RIPEMD160", 160, H("SHA256", 256, x)),
}
ADAPTER_F = {"Sha256d": SPEC_HASH["sha_256d"], "Sha256r": SPEC_HASH["sha_256"], "Hash160": SPEC_HASH["hash_160"]}
HMACS = {"sha_512_hmac": ("SHA512", 512), "sha_256_hmac": ("SHA256", 256), "sha_256d_hmac": ("SHA256D", 256), "sha_1_hmac": ("SHA1", 160), "ripemd_160_hmac": ("RIPEMD160", 160), "hash_160_hmac": ("HASH160", 160)}


def py_ref(fn, data, key=None):
    d = hashlib
    r160 = lambda b: hashlib.new("ripemd160", b).digest()
    if fn == "sha_256":
        return d.sha256(data).digest()
    if fn == "sha_1":
        return d.sha1(data).digest()
    if fn == "sha_512":
        return d.sha512(data).digest()
    if fn == "ripemd_160":
        return r160(data)
    if fn == "sha_256d":
        return d.sha256(d.sha256(data).digest()).digest()
    if fn == "hash_160":
        return r160(d.sha256(data).digest())
    if fn in ("sha_512_hmac", "sha_256_hmac", "sha_1_hmac"):
        return pyhmac.new(key, data, {"sha_512_hmac": "sha512", "sha_256_hmac": "sha256", "sha_1_hmac": "sha1"}[fn]).digest()
    return None


def native(op):
    req = {"tx": {"version": 1, "locktime": 0, "inputs": [], "outputs": []}, "ops": [op]}
    return req, {p: C.Native.run(req, p)[0] for p in ("debug", "release")}


def q_hash_layer(env, name=None):
    qr = QResult(name or "hash_layer")
    P = env.P
    base = [m for m in MODELS if not m[1].__name__.startswith(("m_sha256", "m_sha256d", "m_hash160", "m_sha512", "m_ripemd160", "m_sha1"))]

    import re as _re

    def block_size(ex, c):
        # <<T as BlockInput>::BlockSize as Unsigned>::USIZE inside the generic Hash::hmac::<T>: T from the call site
        site = getattr(ex, "callsite_stack", [""])[-1]
        mm = _re.search(r"hmac::<(?:\w+::)*(\w+)>", site)
        if not mm:
            raise Unsupported("block size of an unknown digest type")
        return Int(128 if mm.group(1) == "Sha512" else 64, "usize")

    def new_exec():
        ex = Exec(P, HMODELS + base)
        ex.const_hooks = [(_re.compile(r"BlockInput>::BlockSize as .*Unsigned>::USIZE$"), block_size)]
        return ex

    def check(ex, r, got, want, what, replay):
        st = {}
        outs = SE.compare(list(r.pc), got, want, st)
        qr.queries += st.get("queries", 0)
        qr.solver_s += st.get("solver_s", 0.0)
        if any(o[0] == "unknown" for o in outs):
            qr.undecided.append(what + ": solver unknown")
        if any(o[0] == "differ" for o in outs) and len(qr.violations) < MAX_VIOLATIONS:
            item = replay()
            item["message"] = what + ": result is not the specified composition of primitives (" + [o for o in outs if o[0] == "differ"][0][3] + ")"
            if item.get("reproduced"):
                qr.violations.append(item)
            else:
                qr.undecided.append(item["message"] + " — not reproduced natively: " + json.dumps(item.get("native"))[:200])

    # ---- P1: Hash::xxx(input)
    for fn, spec in SPEC_HASH.items():
        f = env.fn(f"hash::Hash::{fn}")
        ex = new_exec()
        qr.cases += 1

        def setup(ex):
            ctx = Ctx()
            ctx.x, ctx.xL = sym_bytes(ex, ctx, "input")
            return f, [Ptr([Bytes(ctx.x)], 0)], ctx
        try:
            res = ex.explore(setup)
        except Unsupported as e:
            qr.undecided.append(f"Hash::{fn}: {e}")
            continue
        for r in res:
            qr.paths += 1
            if r.kind != "ok":
                qr.undecided.append(f"Hash::{fn}: {r.kind} {r.msg}")
                continue

            def replay(fn=fn):
                data = bytes(range(1, 70))
                req, nat = native({"op": "hash", "fn": fn, "input": data.hex()})
                exp = py_ref(fn, data).hex()
                return {"request": req, "op_index": 0, "expected": exp, "native": nat, "reproduced": any(v.get("ok") != exp for v in nat.values())}
            check(ex, r, r.ret.f[0].s, spec(r.ctx.x), f"Hash::{fn}", replay)
        finish(qr, ex)

    # ---- P2: streaming adapters: chunking, every finaliser, reversed mode, reset
    for ad, F in ADAPTER_F.items():
        finals = ["finalize_fixed", "finalize_into", "finalize_fixed_reset", "finalize_into_reset"] if ad != "Hash160" else ["finalize_into_dirty"]
        for rev in (False, True):
            for fin in finals:
                qr.cases += 1
                ex = new_exec()
                nbytes = 20 if ad == "Hash160" else 32

                def setup(ex, ad=ad, rev=rev, fin=fin, nbytes=nbytes):
                    ctx = Ctx()
                    ctx.a, _ = sym_bytes(ex, ctx, "chunk_a")
                    ctx.b, _ = sym_bytes(ex, ctx, "chunk_b")
                    ctx.c, _ = sym_bytes(ex, ctx, "chunk_c")
                    return "__adapter_driver__", [ad, rev, fin, nbytes], ctx
                # a tiny driver written against the executor API (each step is a call into the crate's MIR)
                def driver(ex, ad, rev, fin, nbytes, ctx):
                    from .models_hash import _call
                    val = [_call(ex, f"<{ad} as Default>::default", [])]
                    if rev:
                        val = [_call(ex, f"<{ad} as ReversibleDigest>::reverse", [Ptr(val, 0)])]
                    _call(ex, f"<{ad} as Update>::update", [Ptr(val, 0), Ptr([Bytes(ctx.a)], 0)])
                    _call(ex, f"<{ad} as Update>::update", [Ptr(val, 0), Ptr([Bytes(ctx.b)], 0)])
                    out = [Arr([Int(0, "u8") for _ in range(nbytes)])]
                    trait = "FixedOutputDirty" if fin == "finalize_into_dirty" else "FixedOutput"
                    if fin == "finalize_fixed":
                        first = _call(ex, f"<{ad} as {trait}>::{fin}", [clone(val[0]) if not isinstance(val[0], Engine) else val[0]])
                    elif fin == "finalize_into":
                        _call(ex, f"<{ad} as {trait}>::{fin}", [val[0], Ptr(out, 0)])
                        first = out[0]
                    elif fin == "finalize_fixed_reset":
                        first = _call(ex, f"<{ad} as {trait}>::{fin}", [Ptr(val, 0)])
                    else:
                        _call(ex, f"<{ad} as {trait}>::{fin}", [Ptr(val, 0), Ptr(out, 0)])
                        first = out[0]
                    second = None
                    if fin.endswith("_reset"):
                        _call(ex, f"<{ad} as Update>::update", [Ptr(val, 0), Ptr([Bytes(ctx.c)], 0)])
                        second = _call(ex, f"<{ad} as FixedOutput>::finalize_fixed", [val[0]])
                    return Struct("tuple", [first, second if second is not None else UNIT])
                orig_call = ex.call_fn

                def call_fn(name_, args, ex=ex, orig_call=orig_call):
                    if name_ == "__adapter_driver__":
                        return driver(ex, *args, ex._ctx)
                    return orig_call(name_, args)
                ex.call_fn = call_fn

                def setup2(ex, setup=setup):
                    fn_, args, ctx = setup(ex)
                    ex._ctx = ctx
                    return fn_, args, ctx
                try:
                    res = ex.explore(setup2)
                except Unsupported as e:
                    qr.undecided.append(f"{ad}.{fin} rev={rev}: {e}")
                    continue
                for r in res:
                    qr.paths += 1
                    if r.kind != "ok":
                        qr.undecided.append(f"{ad}.{fin} rev={rev}: {r.kind} {r.msg}")
                        continue
                    first, second = r.ret.f
                    want1 = F(seq_concat(r.ctx.a, r.ctx.b))
                    want2 = F(r.ctx.c)
                    if rev:
                        se0 = SE.SeqEq(list(r.pc))
                        want1 = seq_of(list(reversed([p[1] for p in se0.flatten(want1)]))) if False else seq_of(list(reversed(ex.seq_items(want1) or [])))
                        want2 = seq_of(list(reversed(ex.seq_items(want2) or [])))

                    def replay(ad=ad, rev=rev, fin=fin):
                        a_, b_, c_ = bytes(range(1, 40)), bytes(range(100, 190)), bytes(range(7, 77))
                        req, nat = native({"op": "adapter", "adapter": ad, "reverse": rev, "finalizer": fin, "chunks": [a_.hex(), b_.hex()], "after_reset": c_.hex()})
                        fnn = {"Sha256d": "sha_256d", "Sha256r": "sha_256", "Hash160": "hash_160"}[ad]
                        e1, e2 = py_ref(fnn, a_ + b_), py_ref(fnn, c_)
                        if rev:
                            e1, e2 = e1[::-1], e2[::-1]
                        exp = {"first": e1.hex(), "second": e2.hex() if fin.endswith("_reset") else None}
                        return {"request": req, "op_index": 0, "expected": exp, "native": nat, "reproduced": any(v.get("ok") != exp for v in nat.values())}
                    check(ex, r, ex.bytes_of(first), want1, f"{ad}::{fin} (reverse={rev}) on update(a), update(b)", replay)
                    if not isinstance(second, Unit):
                        check(ex, r, ex.bytes_of(second), want2, f"{ad}::{fin} (reverse={rev}) then update(c): state after reset", replay)
                finish(qr, ex)

    # ---- P3: HMAC wrappers
    for fn, (nm, bits) in HMACS.items():
        f = env.fn(f"hash::Hash::{fn}")
        ex = new_exec()
        qr.cases += 1

        def setup3(ex):
            ctx = Ctx()
            ctx.x, _ = sym_bytes(ex, ctx, "input")
            ctx.k, _ = sym_bytes(ex, ctx, "key")
            return f, [Ptr([Bytes(ctx.x)], 0), Ptr([Bytes(ctx.k)], 0)], ctx
        try:
            res = ex.explore(setup3)
        except Unsupported as e:
            qr.undecided.append(f"Hash::{fn}: {e}")
            continue
        for r in res:
            qr.paths += 1
            if r.kind != "ok":
                qr.undecided.append(f"Hash::{fn}: {r.kind} {r.msg}")
                continue
            want = seq_of(be_bytes(uf("HMAC_" + nm, SEQ, SEQ, z3.BitVecSort(bits))(r.ctx.k, r.ctx.x), bits // 8))

            def replay(fn=fn):
                # key lengths on both sides of the 64- and 128-byte block sizes (a key longer than the block is hashed first: RFC 2104)
                data = bytes(range(1, 50))
                out = None
                for klen in (150, 0, 12, 64, 65, 100, 128, 129):
                    key = bytes((3 + i) % 256 for i in range(klen))
                    req, nat = native({"op": "hash", "fn": fn, "input": data.hex(), "key": key.hex()})
                    ref = py_ref(fn, data, key)
                    if ref is None:
                        return {"request": req, "native": nat, "reproduced": False, "note": "no independent reference for this HMAC variant in the replay tool"}
                    out = {"request": req, "op_index": 0, "expected": ref.hex(), "native": nat, "reproduced": any(v.get("ok") != ref.hex() for v in nat.values())}
                    if out["reproduced"]:
                        break
                return out
            check(ex, r, r.ret.f[0].s, want, f"Hash::{fn}(input, key) = HMAC(key, input)", replay)
        finish(qr, ex)

    # ---- P4: PBKDF2 dispatch
    fk = env.fn("pbkdf2_kdf::<impl kdf::KDF>::pbkdf2_impl")
    for algo, nm in (("SHA1", "SHA1"), ("SHA256", "SHA256"), ("SHA512", "SHA512")):
        ex = new_exec()
        qr.cases += 1

        def setup4(ex, algo=algo):
            ctx = Ctx()
            ctx.pw, _ = sym_bytes(ex, ctx, "password")
            ctx.salt, _ = sym_bytes(ex, ctx, "salt")
            ctx.rounds = z3.BitVec("rounds", 32)
            ctx.outlen = z3.BitVec("output_length", 64)
            ctx.assumptions.append(z3.ULE(ctx.outlen, 1 << 20))
            return fk, [Ptr([Bytes(ctx.pw)], 0), Ptr([Bytes(ctx.salt)], 0), Enum("PBKDF2Hashes", algo, P.enums["PBKDF2Hashes"][algo]), Int(ctx.rounds, "u32"), Int(ctx.outlen, "usize")], ctx
        try:
            res = ex.explore(setup4)
        except Unsupported as e:
            qr.undecided.append(f"pbkdf2_impl {algo}: {e}")
            continue
        for r in res:
            qr.paths += 1
            if r.kind != "ok":
                qr.undecided.append(f"pbkdf2_impl {algo}: {r.kind} {r.msg}")
                continue
            kdf = r.ret
            hv = kdf.f[P.structs["KDF"].index("hash")].f[0].s
            sv = kdf.f[P.structs["KDF"].index("salt")].s
            want = uf("PBKDF2_" + nm, SEQ, SEQ, z3.BitVecSort(32), z3.BitVecSort(64), SEQ)(r.ctx.pw, r.ctx.salt, r.ctx.rounds, r.ctx.outlen)

            def replay(algo=algo):
                pw, salt = b"password", b"salt"
                req, nat = native({"op": "pbkdf2", "algo": algo, "password": pw.hex(), "salt": salt.hex(), "rounds": 3, "len": 50})
                exp = hashlib.pbkdf2_hmac(algo.lower(), pw, salt, 3, 50).hex()
                return {"request": req, "op_index": 0, "expected": exp, "native": nat, "reproduced": any(v.get("ok") != exp for v in nat.values())}
            check(ex, r, hv, want, f"KDF::pbkdf2 with {algo}: PBKDF2-HMAC-{algo}(password, salt, rounds, output_length)", replay)
            check(ex, r, sv, r.ctx.salt, f"KDF::pbkdf2 with {algo}: stored salt", replay)
        finish(qr, ex)
    qr.samples.append({"obligation": qr.name, "hash_functions": list(SPEC_HASH), "adapters": list(ADAPTER_F), "hmac_wrappers": list(HMACS), "pbkdf2": ["SHA1", "SHA256", "SHA512"]})
    return qr
