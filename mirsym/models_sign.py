"""Models for the ECDSA glue (C05): scalar reduction, RFC 6979 nonce generation, the sign / verify primitives, recovery ids and
Diffie-Hellman are uninterpreted functions; the crate's own code (which digest of which bytes reaches the signer and the verifier,
which nonce generator with which inputs, what is stored in the returned Signature) is executed from MIR."""
import re
import z3
from .values import *
from .executor import Unsupported, PathPanic
from .models import ok, err, some, NONE, deref, uf, generic_arg
from .models_hash import _call

SMODELS = []
B256 = z3.BitVecSort(256)
SIGBV = z3.BitVecSort(768)


def model(pattern):
    def deco(fn):
        SMODELS.append((re.compile(pattern), fn))
        return fn
    return deco


def record(ex, name, **kw):
    if not hasattr(ex, "recorded"):
        ex.recorded = []
    ex.recorded.append((name, kw))


def _units(ex, v):
    items = ex.seq_items(ex.bytes_of(v))
    if items is None:
        raise Unsupported("scalar from bytes of symbolic length")
    return items


REDUCE = lambda bv: uf("REDUCE_MOD_N", B256, B256)(bv)


def scalar_of(v):
    v = deref(v)
    if isinstance(v, Opaque) and v.tag in ("Scalar", "NonZeroScalar", "SecretKey"):
        p = v.payload
        return p if isinstance(p, z3.BitVecRef) else None
    return None


# the generic digest parameter D of sign_preimage_deterministic_k::<D>: dispatch on the run-time type of the value
@model(r"^<D as (\w+::)*(\w+)>::(\w+)$")
def m_generic_digest(ex, a, callee, canon):
    m = re.match(r"^<D as (?:\w+::)*(\w+)>::(\w+)$", canon)
    v = deref(a[0])
    if not isinstance(v, Struct):
        raise Unsupported("generic digest call on " + repr(v)[:60])
    return _call(ex, f"<{v.name} as {m.group(1)}>::{m.group(2)}", a)


@model(r"(^|::)SecretKey::to_nonzero_scalar$")
def m_to_scalar(ex, a, callee, canon):
    sk = deref(a[0])
    p = sk.payload
    if isinstance(p, Bytes):
        p = z3.Concat(*ex.seq_items(p.s))
    return Opaque("NonZeroScalar", p)


@model(r"^<NonZeroScalar(<.*>)? as Deref>::deref$")
def m_nz_deref(ex, a, callee, canon):
    return Ptr([Opaque("Scalar", deref(a[0]).payload)], 0)


@model(r"^<Zeroizing<.*> as Deref>::deref$")
def m_zeroizing_deref(ex, a, callee, canon):
    return a[0] if isinstance(a[0], Ptr) else Ptr([a[0]], 0)


@model(r"^<(\w+::)*Scalar as Reduce<.*>>::from_(be|le)_bytes_reduced$")
def m_reduce_bytes(ex, a, callee, canon):
    items = _units(ex, a[0])
    if len(items) != 32:
        raise Unsupported("reduction of a digest that is not 32 bytes")
    if "from_le_bytes" in canon:
        items = list(reversed(items))
    return Opaque("Scalar", REDUCE(z3.Concat(*items)))


@model(r"from_le_slice$|from_be_slice$")
def m_uint_from_slice(ex, a, callee, canon):
    items = _units(ex, a[0])
    if len(items) != 32:
        raise Unsupported("U256 from a slice that is not 32 bytes")
    if canon.endswith("from_le_slice"):
        items = list(reversed(items))
    return Opaque("U256", z3.Concat(*items))


@model(r"^<(\w+::)*Scalar as Reduce<.*>>::from_uint_reduced$")
def m_reduce_uint(ex, a, callee, canon):
    return Opaque("Scalar", REDUCE(deref(a[0]).payload))


@model(r"(^|::)rfc6979_generate_k$")
def m_rfc6979(ex, a, callee, canon):
    m = re.search(r"rfc6979_generate_k::<(?:\w+::)*\w+, (?:\w+::)*(\w+)>", callee)
    d = m.group(1) if m else "?"
    if d == "D":
        site = " ".join(getattr(ex, "callsite_stack", [""])[-4:])
        mm = re.search(r"sign_preimage_deterministic_k::<(?:\w+::)*(\w+)>", site)
        d = mm.group(1) if mm else "D"
    x, h = scalar_of(a[0]), scalar_of(a[1])
    if x is None or h is None:
        raise Unsupported("rfc6979 inputs")
    ent = ex.bytes_of(a[2])
    k = uf("RFC6979_K_" + d.upper(), B256, B256, SEQ, B256)(x, h, ent)
    record(ex, "rfc6979", digest=d, x=x, h=h, entropy=ent, k=k)
    return Opaque("NonZeroScalar", k)


@model(r"^<OsRng as RngCore>::fill_bytes$")
def m_fill_bytes(ex, a, callee, canon):
    tgt = a[1]
    while isinstance(tgt.get(), Ptr):
        tgt = tgt.get()
    n = len(_units(ex, tgt.get()))
    fresh = [ex.fresh("os_entropy", z3.BitVecSort(8)) for _ in range(n)]
    cur = tgt.get()
    tgt.set(Arr([Int(t, "u8") for t in fresh]) if isinstance(cur, Arr) else Bytes(seq_of(fresh)))
    return UNIT


@model(r"^core::slice::<impl \[u8\]>::reverse$")
def m_slice_reverse(ex, a, callee, canon):
    tgt = a[0]
    while isinstance(tgt.get(), Ptr):
        tgt = tgt.get()
    items = _units(ex, tgt.get())
    tgt.set(Bytes(seq_of(list(reversed(items)))))
    return UNIT


@model(r"SignPrimitive<.*>>::try_sign_prehashed$")
def m_try_sign(ex, a, callee, canon):
    d, k, z = scalar_of(a[0]), scalar_of(a[1]), scalar_of(a[2])
    if d is None or k is None or z is None:
        raise Unsupported("try_sign_prehashed arguments")
    record(ex, "sign", d=d, k=k, z=z)
    if not ex.decide(uf("SIGN_PRIMITIVE_OK", B256, B256, B256, z3.BoolSort())(d, k, z)):
        return err("ecdsa::Error")
    sig = z3.Concat(d, k, z)
    return ok(Struct("tuple", [Opaque("EcdsaSig", sig), some(Opaque("RecoveryId", sig))]))


@model(r"^Option::ok_or_else$")
def m_ok_or_else(ex, a, callee, canon):
    o = a[0]
    if o.variant == "Some":
        return ok(o.f[0])
    return err("ok_or_else")


@model(r"^<RecoveryId as TryInto<Id>>::try_into$")
def m_recid_try_into(ex, a, callee, canon):
    return ok(Opaque("Id", deref(a[0]).payload))


@model(r"recoverable::Signature::new$")
def m_recsig_new(ex, a, callee, canon):
    s, i = deref(a[0]), deref(a[1])
    return ok(Opaque("RecSig", (s.payload, i.payload)))


@model(r"recoverable::Signature::recovery_id$")
def m_recsig_id(ex, a, callee, canon):
    return Opaque("Id", deref(a[0]).payload[1])


@model(r"^<(\w+::)*Signature<.*> as From<(\w+::)*recoverable::Signature>>::from$")
def m_sig_from_rec(ex, a, callee, canon):
    return Opaque("EcdsaSig", deref(a[0]).payload[0])


@model(r"^<Id as Into<RecoveryId>>::into$")
def m_id_into(ex, a, callee, canon):
    return Opaque("RecoveryId", deref(a[0]).payload)


@model(r"^RecoveryId::is_y_odd$|^RecoveryId::is_x_reduced$")
def m_recid_bits(ex, a, callee, canon):
    nm = "RECID_Y_ODD" if canon.endswith("is_y_odd") else "RECID_X_REDUCED"
    return Bool(uf(nm, SIGBV, z3.BoolSort())(deref(a[0]).payload))


# ---------------------------------------------------------------- verification
POINT_VALID = lambda s: uf("POINT_ENCODING_VALID", SEQ, z3.BoolSort())(s)
VERIFY = lambda key, z, sig: uf("ECDSA_VERIFY", SEQ, B256, SIGBV, z3.BoolSort())(key, z, sig)


@model(r"(^|::)EncodedPoint::from_bytes$")
def m_point_from_bytes(ex, a, callee, canon):
    s = ex.bytes_of(a[0])
    if ex.decide(POINT_VALID(s)):
        return ok(Opaque("EncodedPoint", Bytes(s)))
    return err("sec1::Error")


@model(r"(^|::)VerifyingKey::from_encoded_point$")
def m_vk_from_point(ex, a, callee, canon):
    p = deref(a[0])
    if ex.decide(uf("POINT_ON_CURVE", SEQ, z3.BoolSort())(p.payload.s)):
        return ok(Opaque("VerifyingKey", p.payload))
    return err("ecdsa::Error")


@model(r"FromEncodedPoint<.*>>::from_encoded_point$")
def m_affine_from_point(ex, a, callee, canon):
    p = deref(a[0])
    return Opaque("CtOptionAffine", p.payload)


@model(r"^CtOption::unwrap$")
def m_ctoption_unwrap(ex, a, callee, canon):
    p = deref(a[0])
    if ex.decide(uf("POINT_ON_CURVE", SEQ, z3.BoolSort())(p.payload.s)):
        return Opaque("AffinePoint", p.payload)
    raise PathPanic("CtOption::unwrap on a point that is not on the curve")


@model(r"DigestVerifier<.*>>::verify_digest$")
def m_verify_digest(ex, a, callee, canon):
    key, dg, sig = deref(a[0]), a[1], deref(a[2])
    dv = deref(dg)
    out = _call(ex, f"<{dv.name} as FixedOutput>::finalize_fixed", [dv])
    items = _units(ex, out)
    z = REDUCE(z3.Concat(*items))
    record(ex, "verify", key=key.payload.s, z=z, sig=sig.payload)
    if ex.decide(VERIFY(key.payload.s, z, sig.payload)):
        return ok()
    return err("ecdsa::Error")


@model(r"VerifyPrimitive<.*>>::verify_prehashed$")
def m_verify_prehashed(ex, a, callee, canon):
    key, z, sig = deref(a[0]), scalar_of(a[1]), deref(a[2])
    record(ex, "verify", key=key.payload.s, z=z, sig=sig.payload)
    if ex.decide(VERIFY(key.payload.s, z, sig.payload)):
        return ok()
    return err("ecdsa::Error")


# ---------------------------------------------------------------- ECDH
@model(r"(^|::)PublicKey::from_sec1_bytes$")
def m_from_sec1(ex, a, callee, canon):
    s = ex.bytes_of(a[0])
    if ex.decide(POINT_VALID(s)):
        return ok(Opaque("K256PublicKey", Bytes(s)))
    return err("elliptic_curve::Error")


@model(r"(^|::)PublicKey::as_affine$")
def m_as_affine(ex, a, callee, canon):
    return a[0] if isinstance(a[0], Ptr) else Ptr([a[0]], 0)


@model(r"(^|::)diffie_hellman$")
def m_dh(ex, a, callee, canon):
    k = scalar_of(a[0])
    p = deref(a[1])
    x = uf("ECDH_SHARED_X", B256, SEQ, B256)(k, p.payload.s)
    return Opaque("SharedSecret", x)


@model(r"(^|::)SharedSecret::as_bytes$")
def m_shared_bytes(ex, a, callee, canon):
    return Ptr([Arr([Int(t, "u8") for t in be_bytes(deref(a[0]).payload, 32)])], 0)


# ---------------------------------------------------------------- ECDH written as an explicit point multiplication
@model(r"(^|::)PublicKey::to_projective$|(^|::)ProjectivePoint::to_affine$")
def m_sign_point_identity(ex, a, callee, canon):
    return deref(a[0])


@model(r"^<(\w+::)*ProjectivePoint as Mul<(\w+::)*Scalar>>::mul$")
def m_sign_point_mul(ex, a, callee, canon):
    p, k = deref(a[0]), scalar_of(a[1])
    if k is None or not isinstance(p, Opaque) or not isinstance(p.payload, Bytes):
        raise Unsupported("point multiplication on " + repr(p)[:60])
    return Opaque("SharedPoint", (k, p.payload.s))


@model(r"ToEncodedPoint(<.*>)?>::to_encoded_point$")
def m_sign_shared_to_encoded_point(ex, a, callee, canon):
    """SEC1 encoding of scalar * peer point: the x coordinate is the SAME term the Diffie-Hellman primitive yields (both encodings
    carry it after the tag byte); the uncompressed form appends the y coordinate"""
    p = deref(a[0])
    if not (isinstance(p, Opaque) and p.tag == "SharedPoint"):
        raise Unsupported("to_encoded_point on " + repr(p)[:60])
    k, peer = p.payload
    flag = deref(a[1])
    ft = flag.t if isinstance(flag, Bool) else (flag.t != 0)
    x = be_bytes(uf("ECDH_SHARED_X", B256, SEQ, B256)(k, peer), 32)
    if ex.decide(ft):
        tag = uf("ECDH_SHARED_TAG", B256, SEQ, z3.BitVecSort(8))(k, peer)
        return Opaque("EncodedPoint", Bytes(seq_of([tag] + x)))
    y = be_bytes(uf("ECDH_SHARED_Y", B256, SEQ, B256)(k, peer), 32)
    return Opaque("EncodedPoint", Bytes(seq_of([z3.BitVecVal(4, 8)] + x + y)))


@model(r"(^|::)EncodedPoint::as_bytes$")
def m_sign_point_as_bytes(ex, a, callee, canon):
    return Ptr([deref(a[0]).payload], 0)
