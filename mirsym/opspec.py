"""Reference semantics of the non-signature opcodes (Bitcoin SV script), written from the opcode
specification as functions on symbolic stacks.  A stack item is a Python list of z3 8-bit terms
(concrete length); numbers are 128-bit two's-complement bit-vectors (operands have <= 5 bytes)."""
import z3
from .values import SEQ, seq_of, seq_concat, le_bytes

BW = 128


def _mi():
    from . import models_interp
    return models_interp


def bv(v, n=BW):
    return z3.BitVecVal(v, n)


def num(item):
    """script number: little-endian sign-magnitude, any length"""
    if not item:
        return bv(0)
    top = item[-1]
    body = list(item[:-1]) + [top & 0x7f]
    t = z3.Concat(*reversed(body)) if len(body) > 1 else body[0]
    mag = z3.ZeroExt(BW - t.size(), t)
    return z3.If((top & 0x80) != 0, -mag, mag)


def truthy(item):
    """false iff every byte is zero, the last one possibly 0x80 (negative zero)"""
    if not item:
        return z3.BoolVal(False)
    conds = [b != 0 for b in item[:-1]] + [(item[-1] & 0x7f) != 0]
    return z3.Or(*conds)


MAXENC = 9


def enc(v):
    """descriptor: the minimal script-number encoding of v"""
    return ("num", v)


def enc_seq(v):
    """minimal script-number encoding of v as a Seq-sorted ite term (used for concrete evaluation)"""
    neg = v < 0
    m = z3.If(neg, -v, v)
    t = None
    for n in range(MAXENC, 0, -1):
        bs = le_bytes(m, n)
        bs = bs[:-1] + [z3.If(neg, bs[-1] | 0x80, bs[-1])]
        cand = seq_of(bs)
        if t is None:
            t = cand
        else:
            t = z3.If(z3.ULT(m, bv(1 << (8 * n - 1))), cand, t)
    return z3.If(v == 0, z3.Empty(SEQ), t)


def enc_len_le(v, size):
    """v fits in `size` bytes (sign-magnitude)?  size: python int"""
    if size == 0:
        return v == 0
    m = z3.If(v < 0, -v, v)
    return z3.ULT(m, bv(1 << (8 * size - 1)))


def boolseq(c):
    return ("bool", c)


def S(item):
    return ("bytes", list(item))


def item_equals(desc, units):
    """z3 Bool: the concrete-length byte string `units` (list of bv8) is the item described by desc"""
    kind = desc[0]
    n = len(units)
    if kind == "bytes":
        want = desc[1]
        if len(want) != n:
            return z3.BoolVal(False)
        return z3.And(*[a == b for a, b in zip(units, want)]) if n else z3.BoolVal(True)
    if kind == "bool":
        c = desc[1]
        if n == 0:
            return z3.Not(c)
        if n == 1:
            return z3.And(c, units[0] == 1)
        return z3.BoolVal(False)
    if kind == "num":
        v = desc[1]
        if n == 0:
            return v == 0
        if n > 16:
            return z3.BoolVal(False)
        neg = v < 0
        m = z3.If(neg, -v, v)
        bs = le_bytes(m, n)
        bs = bs[:-1] + [z3.If(neg, bs[-1] | 0x80, bs[-1])]
        fits = z3.ULT(m, bv(1 << (8 * n - 1)))
        minimal = z3.BoolVal(True) if n == 1 else z3.UGE(m, bv(1 << (8 * (n - 1) - 1)))
        return z3.And(v != 0, fits, minimal, *[a == b for a, b in zip(units, bs)])
    raise KeyError(kind)


def desc_to_seq(desc):
    """Seq term of a descriptor (for concrete evaluation under a model)"""
    if desc[0] == "bytes":
        return seq_of(desc[1])
    if desc[0] == "bool":
        return z3.If(desc[1], seq_of([z3.BitVecVal(1, 8)]), z3.Empty(SEQ))
    return enc_seq(desc[1])


FAIL = ("fail",)


def ok(stack, alt):
    return ("ok", stack, alt)


def spec(op, st, alt):
    """-> list of (condition, outcome); st/alt: lists of items (bottom .. top); outcome stacks are lists of Seq terms.
    Returns None for opcodes whose semantics are not claimed."""
    T = z3.BoolVal(True)
    n = len(st)
    seqs = [S(i) for i in st]
    aseqs = [S(i) for i in alt]

    def need(k):
        return n >= k

    consts = {"OP_0": 0, "OP_1NEGATE": -1}
    for i in range(1, 17):
        consts[f"OP_{i}"] = i
    if op in consts:
        return [(T, ok(seqs + [enc(bv(consts[op]))], aseqs))]
    if op in ("OP_NOP", "OP_NOP1", "OP_NOP4", "OP_NOP5", "OP_NOP6", "OP_NOP7", "OP_NOP8", "OP_NOP9", "OP_NOP10", "OP_CODESEPARATOR", "OP_RETURN"):
        return [(T, ok(seqs, aseqs))]
    if op in ("OP_VER", "OP_VERIF", "OP_VERNOTIF", "OP_RESERVED", "OP_RESERVED1", "OP_RESERVED2", "OP_INVALIDOPCODE", "OP_PUBKEY", "OP_PUBKEYHASH", "OP_SIG", "OP_DATA",
              "OP_PUSHDATA1", "OP_PUSHDATA2", "OP_PUSHDATA4"):
        return [(T, FAIL)]
    # ---- stack manipulation
    simple = {
        "OP_DUP": (1, lambda s: s + [s[-1]]),
        "OP_DROP": (1, lambda s: s[:-1]),
        "OP_SWAP": (2, lambda s: s[:-2] + [s[-1], s[-2]]),
        "OP_OVER": (2, lambda s: s + [s[-2]]),
        "OP_NIP": (2, lambda s: s[:-2] + [s[-1]]),
        "OP_ROT": (3, lambda s: s[:-3] + [s[-2], s[-1], s[-3]]),
        "OP_TUCK": (2, lambda s: s[:-2] + [s[-1], s[-2], s[-1]]),
        "OP_2DROP": (2, lambda s: s[:-2]),
        "OP_2DUP": (2, lambda s: s + [s[-2], s[-1]]),
        "OP_3DUP": (3, lambda s: s + [s[-3], s[-2], s[-1]]),
        "OP_2OVER": (4, lambda s: s + [s[-4], s[-3]]),
        "OP_2ROT": (6, lambda s: s[:-6] + [s[-4], s[-3], s[-2], s[-1], s[-6], s[-5]]),
        "OP_2SWAP": (4, lambda s: s[:-4] + [s[-2], s[-1], s[-4], s[-3]]),
    }
    if op in simple:
        k, f = simple[op]
        if not need(k):
            return [(T, FAIL)]
        return [(T, ok(f(seqs), aseqs))]
    if op == "OP_TOALTSTACK":
        return [(T, ok(seqs[:-1], aseqs + [seqs[-1]]))] if need(1) else [(T, FAIL)]
    if op == "OP_FROMALTSTACK":
        return [(T, ok(seqs + [aseqs[-1]], aseqs[:-1]))] if alt else [(T, FAIL)]
    if op == "OP_IFDUP":
        if not need(1):
            return [(T, FAIL)]
        c = truthy(st[-1])
        return [(c, ok(seqs + [seqs[-1]], aseqs)), (z3.Not(c), ok(seqs, aseqs))]
    if op == "OP_DEPTH":
        return [(T, ok(seqs + [enc(bv(n))], aseqs))]
    if op == "OP_SIZE":
        return [(T, ok(seqs + [enc(bv(len(st[-1])))], aseqs))] if need(1) else [(T, FAIL)]
    if op in ("OP_PICK", "OP_ROLL"):
        if not need(2):
            return [(T, FAIL)]
        k = num(st[-1])
        rest = seqs[:-1]
        outs = []
        inrange = []
        for i in range(len(rest)):
            c = k == bv(i)
            inrange.append(c)
            if op == "OP_PICK":
                outs.append((c, ok(rest + [rest[-1 - i]], aseqs)))
            else:
                moved = rest[-1 - i]
                r2 = rest[:len(rest) - 1 - i] + rest[len(rest) - i:]
                outs.append((c, ok(r2 + [moved], aseqs)))
        outs.append((z3.Not(z3.Or(*inrange)) if inrange else T, FAIL))
        return outs
    # ---- arithmetic
    un = {"OP_1ADD": lambda a: a + 1, "OP_1SUB": lambda a: a - 1, "OP_NEGATE": lambda a: -a, "OP_ABS": lambda a: z3.If(a < 0, -a, a),
          "OP_NOT": lambda a: z3.If(a == 0, bv(1), bv(0)), "OP_0NOTEQUAL": lambda a: z3.If(a == 0, bv(0), bv(1))}
    if op in un:
        if not need(1):
            return [(T, FAIL)]
        return [(T, ok(seqs[:-1] + [enc(un[op](num(st[-1])))], aseqs))]
    if op == "OP_BIN2NUM":
        return [(T, ok(seqs[:-1] + [enc(num(st[-1]))], aseqs))] if need(1) else [(T, FAIL)]
    binnum = {"OP_ADD": lambda a, b: a + b, "OP_SUB": lambda a, b: a - b, "OP_MUL": lambda a, b: _mi().bigmul(a, b),
              "OP_MIN": lambda a, b: z3.If(a < b, a, b), "OP_MAX": lambda a, b: z3.If(a > b, a, b)}
    if op in binnum:
        if not need(2):
            return [(T, FAIL)]
        a, b = num(st[-2]), num(st[-1])
        return [(T, ok(seqs[:-2] + [enc(binnum[op](a, b))], aseqs))]
    if op in ("OP_DIV", "OP_MOD"):
        if not need(2):
            return [(T, FAIL)]
        a, b = num(st[-2]), num(st[-1])
        r = _mi().bigdiv(a, b) if op == "OP_DIV" else _mi().bigrem(a, b)
        return [(b == 0, FAIL), (b != 0, ok(seqs[:-2] + [enc(r)], aseqs))]
    binbool = {"OP_BOOLAND": lambda a, b: z3.And(a != 0, b != 0), "OP_BOOLOR": lambda a, b: z3.Or(a != 0, b != 0), "OP_NUMEQUAL": lambda a, b: a == b,
               "OP_NUMNOTEQUAL": lambda a, b: a != b, "OP_LESSTHAN": lambda a, b: a < b, "OP_GREATERTHAN": lambda a, b: a > b,
               "OP_LESSTHANOREQUAL": lambda a, b: a <= b, "OP_GREATERTHANOREQUAL": lambda a, b: a >= b}
    if op in binbool:
        if not need(2):
            return [(T, FAIL)]
        a, b = num(st[-2]), num(st[-1])
        return [(T, ok(seqs[:-2] + [boolseq(binbool[op](a, b))], aseqs))]
    if op == "OP_NUMEQUALVERIFY":
        if not need(2):
            return [(T, FAIL)]
        a, b = num(st[-2]), num(st[-1])
        return [(a == b, ok(seqs[:-2], aseqs)), (a != b, FAIL)]
    if op == "OP_WITHIN":
        if not need(3):
            return [(T, FAIL)]
        x, lo, hi = num(st[-3]), num(st[-2]), num(st[-1])
        return [(T, ok(seqs[:-3] + [boolseq(z3.And(lo <= x, x < hi))], aseqs))]
    # ---- splice / bitwise / comparison of byte strings
    if op == "OP_CAT":
        return [(T, ok(seqs[:-2] + [S(list(st[-2]) + list(st[-1]))], aseqs))] if need(2) else [(T, FAIL)]
    if op == "OP_SPLIT":
        if not need(2):
            return [(T, FAIL)]
        k = num(st[-1])
        x = st[-2]
        outs, rng = [], []
        for i in range(len(x) + 1):
            c = k == bv(i)
            rng.append(c)
            outs.append((c, ok(seqs[:-2] + [S(x[:i]), S(x[i:])], aseqs)))
        outs.append((z3.Not(z3.Or(*rng)), FAIL))
        return outs
    if op == "OP_NUM2BIN":
        if not need(2):
            return [(T, FAIL)]
        size = num(st[-1])
        v = num(st[-2])
        outs, rng = [], []
        for sz in range(0, 9):
            c = size == bv(sz)
            rng.append(c)
            fits = enc_len_le(v, sz)
            if sz == 0:
                outs.append((z3.And(c, fits), ok(seqs[:-2] + [("bytes", [])], aseqs)))
            else:
                m = z3.If(v < 0, -v, v)
                bs = le_bytes(m, sz)
                bs = bs[:-1] + [z3.If(v < 0, bs[-1] | 0x80, bs[-1])]
                outs.append((z3.And(c, fits), ok(seqs[:-2] + [("bytes", bs)], aseqs)))
            outs.append((z3.And(c, z3.Not(fits)), FAIL))
        outs.append((size < 0, FAIL))
        # sizes above 8 are outside the bound of this reference
        return outs
    if op in ("OP_LSHIFT", "OP_RSHIFT"):
        # x n -- x shifted by n bits as a big-endian bit string of unchanged length (logical shift); negative n fails
        if not need(2):
            return [(T, FAIL)]
        k = num(st[-1])
        x = list(st[-2])
        L = len(x)
        if L == 0:
            return [(k < 0, FAIL), (k >= 0, ok(seqs[:-2] + [("bytes", [])], aseqs))]
        xs = z3.Concat(*x) if L > 1 else x[0]
        amt = z3.Extract(8 * L - 1, 0, k) if 8 * L <= BW else z3.ZeroExt(8 * L - BW, k)
        sh = (xs << amt) if op == "OP_LSHIFT" else z3.LShR(xs, amt)
        res = z3.If(k >= bv(8 * L), z3.BitVecVal(0, 8 * L), sh)
        out = [z3.Extract(8 * (L - i) - 1, 8 * (L - i - 1), res) for i in range(L)]
        return [(k < 0, FAIL), (k >= 0, ok(seqs[:-2] + [("bytes", out)], aseqs))]
    if op == "OP_INVERT":
        return [(T, ok(seqs[:-1] + [S([~b for b in st[-1]])], aseqs))] if need(1) else [(T, FAIL)]
    if op in ("OP_AND", "OP_OR", "OP_XOR"):
        if not need(2):
            return [(T, FAIL)]
        x, y = st[-2], st[-1]
        if len(x) != len(y):
            return [(T, FAIL)]
        f = {"OP_AND": lambda p, q: p & q, "OP_OR": lambda p, q: p | q, "OP_XOR": lambda p, q: p ^ q}[op]
        return [(T, ok(seqs[:-2] + [S([f(p, q) for p, q in zip(x, y)])], aseqs))]
    if op in ("OP_EQUAL", "OP_EQUALVERIFY"):
        if not need(2):
            return [(T, FAIL)]
        x, y = st[-2], st[-1]
        eq = z3.And(*[p == q for p, q in zip(x, y)]) if len(x) == len(y) and x else z3.BoolVal(len(x) == len(y))
        if op == "OP_EQUAL":
            return [(T, ok(seqs[:-2] + [boolseq(eq)], aseqs))]
        return [(eq, ok(seqs[:-2], aseqs)), (z3.Not(eq), FAIL)]
    if op == "OP_VERIFY":
        if not need(1):
            return [(T, FAIL)]
        c = truthy(st[-1])
        return [(c, ok(seqs[:-1], aseqs)), (z3.Not(c), FAIL)]
    hashes = {"OP_RIPEMD160": ("RIPEMD160", 160), "OP_SHA1": ("SHA1", 160), "OP_SHA256": ("SHA256", 256), "OP_HASH160": ("HASH160", 160), "OP_HASH256": ("SHA256D", 256)}
    if op in hashes:
        if not need(1):
            return [(T, FAIL)]
        from .models import uf
        from .values import be_bytes
        nm, bits = hashes[op]
        h = uf(nm, SEQ, z3.BitVecSort(bits))(seq_of(st[-1]))
        return [(T, ok(seqs[:-1] + [("bytes", be_bytes(h, bits // 8))], aseqs))]
    return None


CLAIMED = ["OP_0", "OP_1NEGATE"] + [f"OP_{i}" for i in range(1, 17)] + [
    "OP_NOP", "OP_VERIFY", "OP_RETURN", "OP_TOALTSTACK", "OP_FROMALTSTACK", "OP_IFDUP", "OP_DEPTH", "OP_DROP", "OP_DUP", "OP_NIP", "OP_OVER", "OP_PICK", "OP_ROLL", "OP_ROT", "OP_SWAP", "OP_TUCK",
    "OP_2DROP", "OP_2DUP", "OP_3DUP", "OP_2OVER", "OP_2ROT", "OP_2SWAP", "OP_CAT", "OP_SPLIT", "OP_NUM2BIN", "OP_BIN2NUM", "OP_SIZE", "OP_INVERT", "OP_AND", "OP_OR", "OP_XOR", "OP_LSHIFT", "OP_RSHIFT", "OP_EQUAL", "OP_EQUALVERIFY",
    "OP_1ADD", "OP_1SUB", "OP_NEGATE", "OP_ABS", "OP_NOT", "OP_0NOTEQUAL", "OP_ADD", "OP_SUB", "OP_MUL", "OP_DIV", "OP_MOD", "OP_BOOLAND", "OP_BOOLOR", "OP_NUMEQUAL", "OP_NUMEQUALVERIFY", "OP_NUMNOTEQUAL",
    "OP_LESSTHAN", "OP_GREATERTHAN", "OP_LESSTHANOREQUAL", "OP_GREATERTHANOREQUAL", "OP_MIN", "OP_MAX", "OP_WITHIN", "OP_RIPEMD160", "OP_SHA1", "OP_SHA256", "OP_HASH160", "OP_HASH256", "OP_CODESEPARATOR",
    "OP_NOP1", "OP_NOP4", "OP_NOP5", "OP_NOP6", "OP_NOP7", "OP_NOP8", "OP_NOP9", "OP_NOP10", "OP_VER", "OP_VERIF", "OP_VERNOTIF", "OP_RESERVED", "OP_RESERVED1", "OP_RESERVED2"]

ARITY = {"OP_2ROT": 6, "OP_2OVER": 4, "OP_2SWAP": 4, "OP_ROT": 3, "OP_3DUP": 3, "OP_WITHIN": 3}
for _o in ("OP_SWAP", "OP_OVER", "OP_NIP", "OP_TUCK", "OP_2DROP", "OP_2DUP", "OP_PICK", "OP_ROLL", "OP_CAT", "OP_SPLIT", "OP_NUM2BIN", "OP_AND", "OP_OR", "OP_XOR", "OP_LSHIFT", "OP_RSHIFT", "OP_EQUAL", "OP_EQUALVERIFY",
           "OP_ADD", "OP_SUB", "OP_MUL", "OP_DIV", "OP_MOD", "OP_BOOLAND", "OP_BOOLOR", "OP_NUMEQUAL", "OP_NUMEQUALVERIFY", "OP_NUMNOTEQUAL", "OP_LESSTHAN", "OP_GREATERTHAN", "OP_LESSTHANOREQUAL",
           "OP_GREATERTHANOREQUAL", "OP_MIN", "OP_MAX"):
    ARITY[_o] = 2
for _o in ("OP_DUP", "OP_DROP", "OP_TOALTSTACK", "OP_IFDUP", "OP_SIZE", "OP_1ADD", "OP_1SUB", "OP_NEGATE", "OP_ABS", "OP_NOT", "OP_0NOTEQUAL", "OP_BIN2NUM", "OP_INVERT", "OP_VERIFY",
           "OP_RIPEMD160", "OP_SHA1", "OP_SHA256", "OP_HASH160", "OP_HASH256"):
    ARITY[_o] = 1
