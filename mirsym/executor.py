"""Symbolic executor for rustc MIR (text form), path-by-path with re-execution
based backtracking: a path is identified by its list of branch decisions; the
executor itself is plain recursive Python, so std models may call back into MIR
(closures) synchronously."""
import os, re, sys, time
import z3
from .mirparse import parse_mir, split_top
from .values import *

sys.setrecursionlimit(20000)


class Unsupported(Exception):
    pass


class PathPanic(Exception):
    def __init__(self, msg, where=""):
        Exception.__init__(self, msg)
        self.msg = msg
        self.where = where


class PathBound(Exception):
    """the path leaves the stated bounds of the query (neither a pass nor a violation; reported as outside the bound)"""


class PathInfeasible(Exception):
    """the path condition turned out to be unsatisfiable (an earlier feasibility check had timed out and was taken optimistically)"""


class PathResult:
    def __init__(self, kind, ret, pc, ctx, msg=None, decisions=None):
        self.kind, self.ret, self.pc, self.ctx, self.msg, self.decisions = kind, ret, pc, ctx, msg, decisions


STD_ENUMS = {
    "Sign": {"Minus": 0, "NoSign": 1, "Plus": 2},   # num_bigint::Sign
    "Option": {"None": 0, "Some": 1},
    "Result": {"Ok": 0, "Err": 1},
    "ControlFlow": {"Continue": 0, "Break": 1},
    "Ordering": {"Less": -1, "Equal": 0, "Greater": 1},
}


def strip_generics(path):
    """remove `::<...>` turbofish groups at the top level of a path"""
    out = []
    i, n = 0, len(path)
    depth = 0
    while i < n:
        if depth == 0 and path.startswith("::<", i):
            # balanced <...>
            j = i + 2
            d = 0
            while j < n:
                c = path[j]
                if c == "<":
                    d += 1
                elif c == ">" and path[j - 1] not in "-=":
                    d -= 1
                    if d == 0:
                        break
                j += 1
            # `a::<impl T>::method` is a path segment (kept); `f::<impl AsRef<[u8]>>` at the end is a generic argument (dropped)
            if not (path.startswith("::<impl", i) and path.startswith("::", j + 1)):
                i = j + 1
                continue
        c = path[i]
        if c == "<":
            depth += 1
        elif c == ">" and (i == 0 or path[i - 1] not in "-="):
            depth -= 1
        out.append(c)
        i += 1
    return "".join(out)


def norm_ty(t):
    t = re.sub(r"'\w+ ?", "", t)
    t = re.sub(r"(?:[A-Za-z_]\w*::)+(?=[A-Za-z_\[<(&{])", "", t)
    return t.replace(" ", "")


class Program:
    """parsed MIR + name resolution + enum/struct tables read from the source"""

    def __init__(self, mir_text, repo="/repo"):
        self.repo = repo
        self.fns = parse_mir(mir_text)
        self.enums = {k: dict(v) for k, v in STD_ENUMS.items()}
        self.structs = {}
        self._scan_source()
        self.index = {}
        self.closures = {}
        self._build_index()

    def _scan_source(self):
        for root, _, files in os.walk(os.path.join(self.repo, "src")):
            for f in files:
                if not f.endswith(".rs"):
                    continue
                txt = open(os.path.join(root, f)).read()
                txt_nc = re.sub(r"/\*.*?\*/", "", txt, flags=re.S)
                txt_nc = re.sub(r"//[^\n]*", "", txt_nc)
                for m in re.finditer(r"\benum (\w+)\s*\{", txt_nc):
                    body = self._balanced(txt_nc, m.end() - 1)
                    variants, nxt = {}, 0
                    for v in split_top(body):
                        v = re.sub(r"#\[[^\]]*\]", "", v).strip()
                        mm = re.match(r"(\w+)\s*(?:\(.*\)|\{.*\})?\s*(?:=\s*(-?(?:0x[0-9a-fA-F_]+|\d+)))?$", v, re.S)
                        if not mm:
                            continue
                        if mm.group(2) is not None:
                            nxt = int(mm.group(2).replace("_", ""), 0)
                        variants[mm.group(1)] = nxt
                        nxt += 1
                    self.enums[m.group(1)] = variants
                for m in re.finditer(r"\bstruct (\w+)\s*(\{|\()", txt_nc):
                    if m.group(2) == "{":
                        body = self._balanced(txt_nc, m.end() - 1)
                        names = []
                        for fld in split_top(body):
                            fld = re.sub(r"#\[[^\]]*\]", "", fld, flags=re.S).strip()
                            mm = re.match(r"(?:pub(?:\([^)]*\))?\s+)?(\w+)\s*:", fld)
                            if mm:
                                names.append(mm.group(1))
                        self.structs[m.group(1)] = names

    @staticmethod
    def _balanced(txt, i):
        depth = 0
        j = i
        while j < len(txt):
            if txt[j] == "{":
                depth += 1
            elif txt[j] == "}":
                depth -= 1
                if depth == 0:
                    return txt[i + 1:j]
            j += 1
        return txt[i + 1:]

    def _impl_header(self, file, line, col):
        try:
            lines = open(os.path.join(self.repo, file)).read().split("\n")
        except OSError:
            return None
        s = lines[line - 1][col - 1:]
        k = line
        while "{" not in s and k < len(lines) and s.lstrip().startswith("impl"):
            s += " " + lines[k]
            k += 1
        return s

    def _build_index(self):
        impl_re = re.compile(r"<impl at ([^:>]+):(\d+):(\d+): (\d+):(\d+)>")
        for name, f in self.fns.items():
            if "{closure#" in name.split("::")[-1]:
                if f.params:
                    m = re.search(r"\{closure@[^}]*\}", f.params[0][1])
                    if m:
                        self.closures[m.group(0)] = name
                continue
            m = impl_re.search(name)
            if not m:
                last = name.split("::")[-1]
                self.index.setdefault(("free", last), []).append(name)
                self.index.setdefault(("exact", name), []).append(name)
                continue
            if "{closure#" in name or "{constant#" in name or "promoted[" in name:
                continue
            method = name[m.end():].lstrip(":")
            if "::" in method:
                continue
            hdr = self._impl_header(m.group(1), int(m.group(2)), int(m.group(3)))
            if hdr is None:
                continue
            hm = re.match(r"impl(?:<[^>]*>)?\s+(?:(.+?)\s+for\s+)?(.+?)\s*(?:where.*)?\{", hdr, re.S)
            if hm:
                trait, ty = hm.group(1), hm.group(2)
                tyn = norm_ty(ty)
                if trait:
                    tr = norm_ty(trait)
                    tr = re.sub(r"<.*>$", "", tr)
                    self.index.setdefault(("tr", tr, tyn, method), []).append(name)
                else:
                    self.index.setdefault(("inh", tyn, method), []).append(name)
            else:
                # derive: the span is the trait name; Self from the first parameter
                tr = re.match(r"(\w+)", hdr)
                if tr and f.params:
                    ty = norm_ty(f.params[0][1]).lstrip("&")
                    ty = ty[3:] if ty.startswith("mut") else ty
                    self.index.setdefault(("tr", tr.group(1), ty, method), []).append(name)
                elif tr and f.ret:
                    # derived associated function without parameters (Default::default): Self is the return type
                    self.index.setdefault(("tr", tr.group(1), norm_ty(f.ret), method), []).append(name)

    def resolve(self, callee):
        """callee: canonical call-site path (generics stripped) -> def name or None"""
        c = callee
        m = re.match(r"<(.*) as (.*?)>::(\w+)$", c, re.S)
        if m:
            ty, tr, meth = norm_ty(m.group(1)), norm_ty(m.group(2)), m.group(3)
            tr = re.sub(r"<.*>$", "", tr)
            r = self.index.get(("tr", tr, ty, meth))
            return r[0] if r else None
        m = re.match(r"(.*)<impl (.*)>::(\w+)$", c, re.S)
        if m:
            r = self.index.get(("inh", norm_ty(m.group(2)), m.group(3)))
            return r[0] if r else None
        if c in self.fns:
            return c
        parts = c.split("::")
        if len(parts) >= 2:
            r = self.index.get(("inh", norm_ty(parts[-2]), parts[-1]))
            if r:
                return r[0]
        r = self.index.get(("free", parts[-1]))
        if r and len(r) == 1:
            return r[0]
        if r:
            for cand in r:
                if cand.endswith(c) or c.endswith(cand):
                    return cand
        return None


class Frame:
    __slots__ = ("fn", "locals")

    def __init__(self, fn):
        self.fn = fn
        self.locals = {}


class Exec:
    def __init__(self, program, models, timeout_ms=30000, max_steps=200000, max_paths=4000, logic=None):
        self.P = program
        # specific patterns before catch-all trait patterns (`<.* as Trait>::m`)
        self.models = sorted(models, key=lambda m: 1 if m[0].pattern.startswith("^<.* as") else 0)
        self.solver = z3.SolverFor(logic) if logic else z3.Solver()
        self.solver.set("timeout", timeout_ms)
        self.max_steps = max_steps
        self.max_paths = max_paths
        self.stats = {"paths": 0, "feasibility_checks": 0, "solver_s": 0.0, "steps": 0, "unknown": 0}
        self.functions_run = set()
        self.models_used = set()
        self.const_cache = {}
        self.base_assumptions = []

    # ------------------------------------------------------------------ path exploration
    def explore(self, setup):
        """setup(ex) -> (fn_name, args, ctx); re-invoked for every path. Returns list of PathResult."""
        results = []
        pending = [[]]
        while pending:
            prefix = pending.pop()
            self.prefix = prefix
            self.pos = 0
            self.trace = []
            self.pc = []
            self.pending = pending
            self.steps = 0
            self.fresh_n = 0
            self.recorded = []
            self.range_iters = {}
            self.solver.push()
            for a in self.base_assumptions:
                self.solver.add(a)
            try:
                fn_name, args, ctx = setup(self)
                for a in getattr(ctx, "assumptions", []):
                    self.solver.add(a)
                    self.pc.append(a)
                try:
                    ret = self.call_fn(fn_name, args)
                    results.append(PathResult("ok", ret, list(self.pc), ctx, decisions=list(self.trace)))
                except PathPanic as p:
                    results.append(PathResult("panic", None, list(self.pc), ctx, msg=f"{p.msg} @ {p.where}", decisions=list(self.trace)))
                except PathBound as b:
                    results.append(PathResult("bound", None, list(self.pc), ctx, msg=str(b), decisions=list(self.trace)))
                except PathInfeasible:
                    self.stats["infeasible_dropped"] = self.stats.get("infeasible_dropped", 0) + 1
            finally:
                self.solver.pop()
            if results:
                try:
                    results[-1].recorded = list(self.recorded)
                except Exception:
                    pass
            self.stats["paths"] += 1
            if self.stats["paths"] > self.max_paths:
                raise Unsupported(f"path budget exceeded ({self.max_paths})")
        return results

    def feasible(self, cond):
        t0 = time.time()
        r = self.solver.check(cond)
        self.stats["solver_s"] += time.time() - t0
        self.stats["feasibility_checks"] += 1
        if r == z3.unknown:
            self.stats["unknown"] += 1
            return True
        return r == z3.sat

    def decide(self, cond):
        """branch on a z3 Bool; returns the Python bool chosen for this path"""
        c = z3.simplify(cond)
        if z3.is_true(c):
            return True
        if z3.is_false(c):
            return False
        if self.pos < len(self.prefix):
            choice = self.prefix[self.pos]
        else:
            t = self.feasible(c)
            f = self.feasible(z3.Not(c))
            if t and f:
                choice = True
                self.pending.append(self.trace + [False])
            elif t:
                choice = True
            elif f:
                choice = False
            else:
                raise PathInfeasible()
        self.trace.append(choice)
        self.pos += 1
        lit = c if choice else z3.Not(c)
        self.pc.append(lit)
        self.solver.add(lit)
        return choice

    def pc_assume(self, cond):
        """assumption introduced by a model (e.g. a sanity bound on a fresh length): part of the path condition, not a branch"""
        self.pc.append(cond)
        self.solver.add(cond)

    def concretize(self, term, candidates):
        """pick a concrete value for a bit-vector term among candidates (forking); None if none matches"""
        s = z3.simplify(term)
        if z3.is_bv_value(s):
            v = s.as_long()
            return v if v in candidates else None
        for v in candidates:
            if self.decide(term == z3.BitVecVal(v, term.size())):
                return v
        return None

    def fresh(self, prefix, sort):
        self.fresh_n += 1
        return z3.Const(f"{prefix}!{self.fresh_n}", sort)

    # ------------------------------------------------------------------ calls
    def call_fn(self, name, args):
        fn = self.P.fns.get(name)
        if fn is None:
            raise Unsupported("no MIR for " + name)
        fn.parse_body()
        self.functions_run.add(name)
        fr = Frame(fn)
        if len(args) != len(fn.params):
            raise Unsupported(f"arity mismatch calling {name}: {len(args)} vs {len(fn.params)}")
        # closures without captures are zero-sized: rustc emits no assignment for them, the declared type is the value
        for n, t in fn.locals.items():
            if t.startswith("{closure@") and t in self.P.closures:
                fr.locals[n] = Struct(t, [])
        for (n, _), a in zip(fn.params, args):
            fr.locals[n] = a
        bb = "bb0"
        while True:
            blk = fn.blocks.get(bb)
            if blk is None:
                raise Unsupported(f"jump into cleanup/unknown block {bb} in {name}")
            stmts, term = blk
            for st in stmts:
                self.steps += 1
                self.exec_stmt(fr, st)
            self.steps += 1
            if self.steps > self.max_steps:
                raise Unsupported("step budget exceeded")
            k = term[0]
            if k == "goto":
                bb = term[1]
            elif k == "return":
                return fr.locals.get(0, UNIT)
            elif k == "switch":
                bb = self.exec_switch(fr, term)
            elif k == "call":
                _, dest, callee, cargs, targets = term
                vals = [self.eval_operand(fr, a) for a in cargs]
                try:
                    ret = self.dispatch(fr, callee, vals)
                except PathPanic as p:
                    if not p.where:
                        p.where = f"{name}:{bb}"
                    raise
                if "return" not in targets:
                    raise PathPanic(f"diverging call {callee} returned", f"{name}:{bb}")
                if dest is not None:
                    self.eval_place(fr, dest).set(ret)
                bb = targets["return"]
            elif k == "assert":
                _, cond, neg, msg, targets = term
                c = self.eval_operand(fr, cond)
                ct = c.t if isinstance(c, Bool) else (c.t != 0)
                ok = z3.Not(ct) if neg else ct
                if self.decide(ok):
                    bb = targets["success"]
                else:
                    raise PathPanic("assert failed: " + msg.strip()[:120], f"{name}:{bb}")
            elif k == "drop":
                bb = term[2]["return"]
            elif k == "unreachable":
                raise Unsupported(f"reached `unreachable` in {name}:{bb} (model/encoding inconsistency)")
            elif k == "resume":
                raise PathPanic("unwinding", f"{name}:{bb}")
            else:
                raise Unsupported("terminator " + k)

    def exec_switch(self, fr, term):
        _, op, cases, other = term
        v = self.eval_operand(fr, op)
        if isinstance(v, Bool):
            c = v.concrete()
            if c is None:
                c = self.decide(v.t)
            val = 1 if c else 0
            for cv, tgt in cases:
                if cv == val:
                    return tgt
            return other
        if not isinstance(v, Int):
            raise Unsupported(f"switchInt on {v!r}")
        cv = v.concrete()
        bits = INT_BITS[v.ty]
        if cv is not None:
            for c, tgt in cases:
                cc = c
                if is_signed(v.ty) and cc >= 1 << (bits - 1):
                    cc -= 1 << bits
                if cc == cv or c == cv % (1 << bits):
                    return tgt
            return other
        for c, tgt in cases:
            if self.decide(v.t == z3.BitVecVal(c, bits)):
                return tgt
        return other

    def canonical(self, callee):
        c = strip_generics(callee)
        # std paths in front of a type name: std::option::Option::cloned -> Option::cloned
        return re.sub(r"\b(?:std|core|alloc)::(?:[a-z_0-9]+::)*(?=[A-Z])", "", c)

    def dispatch(self, fr, callee, vals):
        if isinstance(callee, tuple):
            fv = self.eval_operand(fr, callee[1])
            if isinstance(fv, FnItem):
                callee = fv.path
            else:
                raise Unsupported(f"indirect call through {fv!r}")
        canon = self.canonical(callee)
        for rx, fn in self.models:
            if rx.search(canon):
                self.models_used.add(rx.pattern)
                return fn(self, vals, callee, canon)
        # closure call through Fn* traits is handled by a model; crate functions by MIR
        d = self.P.resolve(canon)
        if d is not None:
            if not hasattr(self, "callsite_stack"):
                self.callsite_stack = []
            self.callsite_stack.append(callee)
            try:
                return self.call_fn(d, vals)
            finally:
                self.callsite_stack.pop()
        # `<T as Trait>::method` inside a generic crate function with neither a model nor MIR for the unbound form: bind the type
        # parameter from the turbofish of the enclosing call and try once more
        mt = re.match(r"^<([A-Z]) as ", canon)
        if mt and getattr(self, "callsite_stack", None):
            site = self.callsite_stack[-1]
            groups = re.findall(r"::<([^<>]*(?:<[^<>]*>[^<>]*)*)>", site)
            if groups and "," not in groups[-1]:
                bound = groups[-1].strip()
                callee2 = re.sub(r"^<" + mt.group(1) + r" as ", "<" + bound + " as ", callee.strip(), count=1)
                if callee2 != callee.strip():
                    return self.dispatch(fr, callee2, vals)
        raise Unsupported("no model for call: " + canon)

    def call_closure(self, clo, args):
        """clo: Struct named '{closure@..}' (by value) or Ptr to it; args: list of values"""
        cv = clo.get() if isinstance(clo, (Ptr,)) else clo
        if isinstance(cv, FnItem):
            canon = self.canonical(cv.path)
            for rx, fn in self.models:
                if rx.search(canon):
                    self.models_used.add(rx.pattern)
                    return fn(self, args, cv.path, canon)
            d = self.P.resolve(canon)
            if d is None:
                raise Unsupported("fn item " + cv.path)
            return self.call_fn(d, args)
        if not isinstance(cv, Struct) or not cv.name.startswith("{closure@"):
            raise Unsupported(f"call_closure on {cv!r}")
        name = self.P.closures.get(cv.name)
        if name is None:
            raise Unsupported("closure body not found: " + cv.name)
        fn = self.P.fns[name]
        pty = fn.params[0][1]
        if pty.startswith("&"):
            first = clo if isinstance(clo, Ptr) else Ptr([cv], 0)
        else:
            first = cv
        return self.call_fn(name, [first] + list(args))

    # ------------------------------------------------------------------ statements
    def exec_stmt(self, fr, st):
        k = st[0]
        if k == "nop":
            return
        if k == "assign":
            v = self.eval_rvalue(fr, st[2])
            self.eval_place(fr, st[1]).set(v)
            return
        if k == "setdiscr":
            raise Unsupported("SetDiscriminant")
        raise Unsupported("statement " + k)

    # ------------------------------------------------------------------ places
    def eval_place(self, fr, p):
        k = p[0]
        if k == "local":
            return Ptr(fr.locals, p[1])
        if k == "deref":
            v = self.eval_place(fr, p[1]).get()
            if isinstance(v, (Ptr, SeqElemPtr)):
                return v
            while isinstance(v, Struct) and v.name in ("Box", "Unique", "NonNull") and v.f:
                v = v.f[0]
            if isinstance(v, (Ptr, SeqElemPtr)):
                return v
            raise Unsupported(f"deref of {v!r}")
        if k == "field":
            loc = self.eval_place(fr, p[1])
            obj = loc.get()
            if isinstance(obj, Transparent):
                return Ptr(obj.f, 0, meta="transparent")
            if loc.meta == "transparent" and (obj is None or isinstance(p[3], str) and re.search(r"ManuallyDrop|MaybeDangling|MaybeUninit", fr.fn.locals.get(0, "") + p[3]) and not isinstance(obj, (Struct, Enum))):
                return loc
            if loc.meta == "transparent" and obj is None:
                return loc
            if isinstance(obj, (Struct, Enum)):
                if "ScriptBit" in p[3] and isinstance(obj, Struct) and obj.name == "Script" and not isinstance(obj.f[0], ListV):
                    raise Unsupported("direct access to Script internals (Script is opaque in this query)")
                if p[2] >= len(obj.f):
                    raise Unsupported(f"field {p[2]} of {obj!r}")
                return Ptr(obj.f, p[2])
            if isinstance(obj, Ptr) and isinstance(obj.get(), Transparent):
                return obj
            raise Unsupported(f"field .{p[2]}: {p[3]} of {obj!r}")
        if k == "downcast":
            loc = self.eval_place(fr, p[1])
            obj = loc.get()
            if isinstance(obj, Enum) and obj.variant != p[2]:
                raise Unsupported(f"downcast {obj!r} as {p[2]}")
            return loc
        if k in ("index", "constindex"):
            loc = self.eval_place(fr, p[1])
            obj = loc.get()
            if k == "index":
                iv = fr.locals[p[2]]
            else:
                iv = Int(p[2], "usize")
            if isinstance(obj, (Arr, ListV)):
                i = self.concretize(iv.t, range(len(obj.f)))
                if i is None:
                    raise PathPanic("index out of bounds")
                return Ptr(obj.f, i)
            if isinstance(obj, Bytes):
                return SeqElemPtr(loc, iv.t)
            raise Unsupported(f"index into {obj!r}")
        raise Unsupported("place " + k)

    # ------------------------------------------------------------------ operands / rvalues
    def eval_operand(self, fr, op):
        k = op[0]
        if k in ("copy", "move"):
            v = self.eval_place(fr, op[1]).get()
            if v is None:
                raise Unsupported(f"read of uninitialised place {op[1]} in {fr.fn.name}")
            return clone(v)
        if k == "const":
            return self.eval_const(fr, op[1])
        if k == "fnitem":
            return FnItem(op[1])
        raise Unsupported("operand " + k)

    def eval_const(self, fr, c):
        c = c.strip()
        m = re.match(r"(-?\d+)_(u8|u16|u32|u64|u128|usize|i8|i16|i32|i64|i128|isize)$", c)
        if m:
            return Int(int(m.group(1)) % (1 << INT_BITS[m.group(2)]), m.group(2))
        m = re.match(r"(u8|u16|u32|u64|usize|i8|i16|i32|i64|isize)::(MAX|MIN)$", c)
        if m:
            ty = m.group(1)
            b = INT_BITS[ty]
            if m.group(2) == "MAX":
                v = (1 << (b - 1)) - 1 if is_signed(ty) else (1 << b) - 1
            else:
                v = (1 << (b - 1)) if is_signed(ty) else 0
            return Int(v, ty)
        m = re.match(r"core::num::<impl (u8|u16|u32|u64|usize|i8|i16|i32|i64|isize)>::(MAX|MIN)$", c)
        if m:
            return self.eval_const(fr, f"{m.group(1)}::{m.group(2)}")
        if c == "true":
            return Bool(True)
        if c == "false":
            return Bool(False)
        if c == "()":
            return UNIT
        if c in ("RangeFull", "std::ops::RangeFull", "core::ops::RangeFull"):
            return Struct("RangeFull", [])
        if c.startswith("ZeroSized: "):
            ty = c[len("ZeroSized: "):].strip()
            if ty.startswith("{closure@"):
                return Struct(ty, [])
            if ty.startswith("fn(") or "fn " in ty:
                return FnItem(ty)
            return Struct(norm_ty(ty), [])
        if c.startswith('"'):
            return Opaque("str", c)
        if c.startswith('b"'):
            raw = eval(c)  # rustc prints byte strings in a Python-compatible escape syntax
            return Ptr([Arr([Int(b, "u8") for b in raw])], 0)
        m = re.match(r"'(.*)'$", c)
        if m:
            return Int(ord(eval("'" + m.group(1) + "'")), "char")
        m = re.match(r"(.*)::(\w+)\((.*)\)$", c, re.S)
        if m and not c.startswith("<"):
            # enum value constant with a payload, e.g. Result::<Infallible, E>::Err(E)
            ety = strip_generics(m.group(1)).split("::")[-1]
            if ety in self.P.enums and m.group(2) in self.P.enums[ety]:
                return Enum(ety, m.group(2), self.P.enums[ety][m.group(2)], [Opaque("const", m.group(3))])
        m = re.match(r"(?:.*::)?(\w+)::(\w+)::\{constant#\d+\}$", c)
        if m and m.group(1) in self.P.enums and m.group(2) in self.P.enums[m.group(1)]:
            # discriminant constant of a fieldless enum variant (`Variant as u8` in a pattern)
            return Int(self.P.enums[m.group(1)][m.group(2)] % (1 << 64), "isize")
        if "promoted[" in c or re.match(r"[\w:<> ]+$", c) or "::" in c:
            return self.eval_named_const(c)
        raise Unsupported("const " + c)

    def eval_named_const(self, c):
        for rx, fn in getattr(self, "const_hooks", []):
            if rx.search(c):
                return fn(self, c)
        # fieldless enum variant constant, e.g. `sighash::SigHash::ANYONECANPAY`
        parts = strip_generics(c).split("::")
        if len(parts) >= 2 and parts[-2] in self.P.enums and parts[-1] in self.P.enums[parts[-2]]:
            return Enum(parts[-2], parts[-1], self.P.enums[parts[-2]][parts[-1]])
        key = c
        name = None
        if c in self.P.fns:
            name = c
        else:
            # call-site form `a::<impl T>::f::promoted[0]` vs definition `a::<impl at file..>::f::promoted[0]`
            m = re.match(r"(.*)::(promoted\[\d+\]|\{constant#\d+\})$", c)
            if m:
                base, clos = m.group(1), ""
                mc = re.match(r"(.*?)((?:::\{closure#\d+\})+)$", base)
                if mc:
                    base, clos = mc.group(1), mc.group(2)
                owner = self.P.resolve(strip_generics(base))
                if owner and f"{owner}{clos}::{m.group(2)}" in self.P.fns:
                    name = f"{owner}{clos}::{m.group(2)}"
            if name is None:
                last = c.split("::")[-1]
                cands = [n for n in self.P.fns if getattr(self.P.fns[n], "is_const", False) and n.split("::")[-1] == last]
                if len(cands) == 1:
                    name = cands[0]
                else:
                    cands2 = [n for n in cands if n.endswith(c) or c.endswith(n)]
                    if len(cands2) == 1:
                        name = cands2[0]
        if name is None:
            raise Unsupported("named const " + c)
        f = self.P.fns[name]
        m = re.match(r"\s*const (.*)$", f.body_text.strip()) if "bb0" not in f.body_text else None
        if m:
            return self.eval_const(None, m.group(1).rstrip(";"))
        return self.call_fn(name, [])

    def eval_rvalue(self, fr, rv):
        k = rv[0]
        if k == "use":
            return self.eval_operand(fr, rv[1])
        if k == "ref":
            loc = self.eval_place(fr, rv[1])
            return loc
        if k == "discriminant":
            obj = self.eval_place(fr, rv[1]).get()
            if isinstance(obj, Enum):
                if obj.discr is None:
                    raise Unsupported(f"discriminant of {obj!r} unknown")
                return Int(obj.discr % (1 << 64), "isize")
            raise Unsupported(f"discriminant of {obj!r}")
        if k == "binop":
            return self.binop(rv[1], self.eval_operand(fr, rv[2]), self.eval_operand(fr, rv[3]))
        if k == "unop":
            a = self.eval_operand(fr, rv[2])
            if rv[1] == "Not":
                if isinstance(a, Bool):
                    return Bool(z3.Not(a.t))
                return Int(~a.t, a.ty)
            if rv[1] == "Neg":
                return Int(-a.t, a.ty)
            if rv[1] == "PtrMetadata":
                tgt = a.get() if isinstance(a, (Ptr,)) else a
                return self.len_of(tgt)
            raise Unsupported("unop " + rv[1])
        if k == "cast":
            return self.cast(self.eval_operand(fr, rv[1]), rv[2], rv[3])
        if k == "len":
            return self.len_of(self.eval_place(fr, rv[1]).get())
        if k == "tuple":
            if not rv[1]:
                return UNIT
            return Struct("tuple", [self.eval_operand(fr, o) for o in rv[1]])
        if k == "array":
            return Arr([self.eval_operand(fr, o) for o in rv[1]])
        if k == "repeat":
            n = self.eval_const(fr, rv[2].replace("const ", "")) if not rv[2].strip().isdigit() else Int(int(rv[2]), "usize")
            nn = n.concrete()
            v = self.eval_operand(fr, rv[1])
            return Arr([clone(v) for _ in range(nn)])
        if k == "closure":
            return Struct(rv[1], [self.eval_operand(fr, o) for _, o in rv[2]])
        if k == "adt":
            return self.make_adt(fr, rv)
        raise Unsupported("rvalue " + k)

    def make_adt(self, fr, rv):
        _, path, fields, kind = rv
        vals = [self.eval_operand(fr, o) for _, o in fields]
        p = strip_generics(path)
        parts = p.split("::")
        last = parts[-1]
        if len(parts) >= 2 and parts[-2] in self.P.enums and last in self.P.enums[parts[-2]]:
            return Enum(parts[-2], last, self.P.enums[parts[-2]][last], vals)
        if kind == "unit" and len(parts) >= 2 and parts[-2][:1].isupper() and parts[-2] not in self.P.structs:
            return Enum(parts[-2], last, None, vals)
        if len(parts) == 1 and kind == "unit" and last not in self.P.structs:
            # rustc prints some foreign unit variants without their enum (e.g. `NoSign`): unique variant name
            owners = [e for e, vs in self.P.enums.items() if last in vs]
            if len(owners) == 1:
                return Enum(owners[0], last, self.P.enums[owners[0]][last], vals)
        if last == "Range":
            return Struct("Range", vals)
        if len(parts) >= 2 and parts[-2][:1].isupper() and last[:1].isupper() and parts[-2] not in ("Self",) and last not in self.P.structs and kind != "struct":
            # unknown enum (external crate): keep variant name, no discriminant
            return Enum(parts[-2], last, None, vals)
        return Struct(last, vals)

    def len_of(self, v):
        if isinstance(v, (Arr, ListV)):
            return Int(len(v.f), "usize")
        if isinstance(v, Bytes):
            return Int(self.seq_len(v.s), "usize")
        raise Unsupported(f"len of {v!r}")

    # lengths of byte strings as 64-bit vectors (structural where possible)
    def seq_len(self, s):
        s = z3.simplify(s) if not z3.is_const(s) else s
        return self._seq_len(s)

    def _seq_len(self, s):
        if z3.is_app(s):
            kd = s.decl().kind()
            if kd == z3.Z3_OP_SEQ_EMPTY:
                return z3.BitVecVal(0, 64)
            if kd == z3.Z3_OP_SEQ_UNIT:
                return z3.BitVecVal(1, 64)
            if kd == z3.Z3_OP_SEQ_CONCAT:
                t = self._seq_len(s.arg(0))
                for i in range(1, s.num_args()):
                    t = t + self._seq_len(s.arg(i))
                return t
            lv = getattr(self, "len_vars", {}).get(s.get_id())
            if lv is not None:
                return lv
            if kd == z3.Z3_OP_UNINTERPRETED and s.decl().name() == "REMOVE_CODESEPARATORS":
                # length of the separator-free script: its own uninterpreted function of the input script
                return z3.Function("REMOVE_CODESEPARATORS_LEN", SEQ, z3.BitVecSort(64))(s.arg(0))
        return z3.Int2BV(z3.Length(s), 64)

    def binop(self, op, a, b):
        if isinstance(a, Bool) and isinstance(b, Bool):
            t = {"BitAnd": z3.And, "BitOr": z3.Or, "BitXor": z3.Xor, "Eq": lambda x, y: x == y, "Ne": lambda x, y: x != y}.get(op)
            if t is None:
                raise Unsupported("bool binop " + op)
            return Bool(t(a.t, b.t))
        if isinstance(a, Ptr) or isinstance(b, Ptr):
            raise Unsupported("pointer arithmetic/comparison " + op)
        if not (isinstance(a, Int) and isinstance(b, Int)):
            raise Unsupported(f"binop {op} on {a!r}, {b!r}")
        sg = is_signed(a.ty)
        x, y = a.t, b.t
        if op in ("Shl", "Shr", "ShlUnchecked", "ShrUnchecked") and x.size() != y.size():
            y = z3.ZeroExt(x.size() - y.size(), y) if y.size() < x.size() else z3.Extract(x.size() - 1, 0, y)
        if op in ("Add", "AddUnchecked"):
            return Int(x + y, a.ty)
        if op in ("Sub", "SubUnchecked"):
            return Int(x - y, a.ty)
        if op in ("Mul", "MulUnchecked"):
            return Int(x * y, a.ty)
        if op == "Div":
            return Int(x / y if sg else z3.UDiv(x, y), a.ty)
        if op == "Rem":
            return Int(z3.SRem(x, y) if sg else z3.URem(x, y), a.ty)
        if op == "BitAnd":
            return Int(x & y, a.ty)
        if op == "BitOr":
            return Int(x | y, a.ty)
        if op == "BitXor":
            return Int(x ^ y, a.ty)
        if op in ("Shl", "ShlUnchecked"):
            return Int(x << y, a.ty)
        if op in ("Shr", "ShrUnchecked"):
            return Int(x >> y if sg else z3.LShR(x, y), a.ty)
        if op == "Eq":
            return Bool(x == y)
        if op == "Ne":
            return Bool(x != y)
        if op == "Lt":
            return Bool(x < y if sg else z3.ULT(x, y))
        if op == "Le":
            return Bool(x <= y if sg else z3.ULE(x, y))
        if op == "Gt":
            return Bool(x > y if sg else z3.UGT(x, y))
        if op == "Ge":
            return Bool(x >= y if sg else z3.UGE(x, y))
        if op in ("AddWithOverflow", "SubWithOverflow", "MulWithOverflow"):
            n = x.size()
            if op == "AddWithOverflow":
                r = x + y
                ovf = z3.Not(z3.And(z3.BVAddNoOverflow(x, y, sg), z3.BVAddNoUnderflow(x, y))) if sg else z3.Not(z3.BVAddNoOverflow(x, y, False))
            elif op == "SubWithOverflow":
                r = x - y
                ovf = z3.Not(z3.And(z3.BVSubNoOverflow(x, y), z3.BVSubNoUnderflow(x, y, True))) if sg else z3.ULT(x, y)
            else:
                r = x * y
                ovf = z3.Not(z3.And(z3.BVMulNoOverflow(x, y, sg), z3.BVMulNoUnderflow(x, y))) if sg else z3.Not(z3.BVMulNoOverflow(x, y, False))
            return Struct("tuple", [Int(r, a.ty), Bool(ovf)])
        if op == "Cmp":
            lt = (x < y) if sg else z3.ULT(x, y)
            if self.decide(lt):
                return Enum("Ordering", "Less", -1)
            if self.decide(x == y):
                return Enum("Ordering", "Equal", 0)
            return Enum("Ordering", "Greater", 1)
        raise Unsupported("binop " + op)

    def cast(self, v, ty, kind):
        ty = ty.strip()
        if kind.startswith("IntToInt"):
            if isinstance(v, Bool):
                v = Int(z3.If(v.t, z3.BitVecVal(1, 8), z3.BitVecVal(0, 8)), "u8")
            if isinstance(v, Enum):
                v = Int(v.discr % (1 << 64), "isize")
            tb = INT_BITS.get(ty)
            if tb is None or not isinstance(v, Int):
                raise Unsupported(f"cast {v!r} as {ty}")
            sb = v.t.size()
            if tb == sb:
                t = v.t
            elif tb < sb:
                t = z3.Extract(tb - 1, 0, v.t)
            else:
                t = z3.SignExt(tb - sb, v.t) if is_signed(v.ty) else z3.ZeroExt(tb - sb, v.t)
            return Int(t, ty)
        if kind.startswith("PointerCoercion") or kind in ("Transmute", "PtrToPtr", "PointerExposeProvenance", "FnPtrToPtr"):
            return v
        raise Unsupported(f"cast kind {kind}")

    # ------------------------------------------------------------------ byte-string helpers used by models
    def bytes_of(self, v):
        """&[u8] / Vec<u8> / [u8;N] / &Vec<u8> -> z3 Seq"""
        if isinstance(v, (Ptr, SeqElemPtr)):
            v = v.get()
        if isinstance(v, Ptr):
            v = v.get()
        if isinstance(v, Bytes):
            return v.s
        if isinstance(v, Arr):
            return seq_of([e.t for e in v.f])
        if isinstance(v, Struct) and v.name == "Box":
            return self.bytes_of(v.f[0])
        raise Unsupported(f"not a byte string: {v!r}")

    def seq_items(self, s):
        """elements of a sequence of concrete length, or None"""
        s = z3.simplify(s)
        out = []

        def walk(t):
            kd = t.decl().kind()
            if kd == z3.Z3_OP_SEQ_EMPTY:
                return True
            if kd == z3.Z3_OP_SEQ_UNIT:
                out.append(t.arg(0))
                return True
            if kd == z3.Z3_OP_SEQ_CONCAT:
                return all(walk(t.arg(i)) for i in range(t.num_args()))
            return False
        return out if walk(s) else None


def enable_trace(ex, out=sys.stderr):
    """debug aid: print every dispatched call with the time it took"""
    orig = ex.dispatch
    depth = [0]

    def traced(fr, callee, vals):
        depth[0] += 1
        t0 = time.time()
        try:
            return orig(fr, callee, vals)
        finally:
            depth[0] -= 1
            dt = time.time() - t0
            if dt > 0.2:
                print("  " * depth[0] + f"{dt:.2f}s {str(callee)[:110]}", file=out)
    ex.dispatch = traced
