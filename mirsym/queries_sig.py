"""E2 queries on signature encodings (C06), Bitcoin Signed Message framing and address comparison (C12), address algebra (C07)."""
import json, time
import z3
from .executor import Unsupported
from .models import uf, val_eq
from .txmodel import *
from .values import *
from . import concrete as C
from . import seqeq as SE
from .queries import QResult, Binder, finish, discharge, validate_translation, compare_small, all_len_vars, bv_val, MAX_VIOLATIONS


def arr_bytes(name, n, ctx):
    bs = fixed_bytes(ctx, name, n)
    return bs, Arr([Int(b, "u8") for b in bs])


GOOD_R = bytes([0x11] * 32)
GOOD_S = bytes([0x22] * 32)


def q_compact(env, name=None):
    """Signature::from_compact_impl / to_compact_bytes / RecoveryInfo::from_byte: header and recovery logic for ALL 256 header
    bytes x all 8 RecoveryInfo values, r/s symbolic with the curve-order range check as an uninterpreted predicate."""
    qr = QResult(name or "compact_glue")
    P = env.P
    f_from = env.fn("signature::Signature::from_compact_impl")
    f_to = env.fn("signature::Signature::to_compact_bytes")
    valid = uf("VALID_RS", z3.BitVecSort(256), z3.BitVecSort(256), z3.BoolSort())

    def native(b_hex, ri):
        outs = {}
        for prof in ("debug", "release"):
            o = C.Native.run({"tx": {"version": 1, "locktime": 0, "inputs": [], "outputs": []}, "ops": [{"op": "compact_roundtrip", "bytes": b_hex, "ri": ri}]}, prof)
            outs[prof] = o[0]
        return outs

    # ---- A: 65-byte input
    ex = env.new_exec()

    def setup(ex):
        ctx = Ctx()
        bs, arr = arr_bytes("c", 65, ctx)
        ctx.b = bs
        ctx.y, ctx.x, ctx.c = z3.Bool("ri_y"), z3.Bool("ri_x"), z3.Bool("ri_c")
        return f_from, [Ptr([arr], 0)], ctx
    try:
        results = ex.explore(setup)
    except Unsupported as e:
        qr.undecided.append(f"from_compact_impl: {e}")
        return qr
    qr.cases += 1
    for r in results:
        qr.paths += 1
        if len(qr.violations) >= MAX_VIOLATIONS:
            break
        b = r.ctx.b
        h = b[0]
        rt = z3.Concat(*b[1:33])
        st = z3.Concat(*b[33:65])
        should_ok = z3.And(z3.UGE(h, 27), z3.ULE(h, 34), valid(rt, st))
        s = z3.Solver()
        s.set("timeout", 60000)
        for c in r.pc:
            s.add(c)

        def concrete_input(m, force_valid):
            hv = bv_val(m, h)
            body = (GOOD_R + GOOD_S) if force_valid else (bytes(32) + GOOD_S)
            return bytes([hv]) + body
        if r.kind == "panic":
            qr.queries += 1
            if s.check() == z3.sat:
                m = s.model()
                inp = concrete_input(m, z3.is_true(m.eval(valid(rt, st), model_completion=True)))
                nat = native(inp.hex(), None)
                item = {"message": f"from_compact_bytes panics: {r.msg}", "request": {"tx": {"version": 1, "locktime": 0, "inputs": [], "outputs": []}, "ops": [{"op": "compact_roundtrip", "bytes": inp.hex(), "ri": None}]}, "op_index": 0, "native": nat, "expected": "any"}
                if any("panic" in v for v in nat.values()):
                    qr.violations.append(item)
                else:
                    qr.undecided.append(f"compact: panic path not reproduced natively ({r.msg})")
            continue
        accepted = r.ret.variant == "Ok"
        qr.queries += 1
        s.push()
        s.add(should_ok != z3.BoolVal(accepted))
        if s.check() == z3.sat:
            m = s.model()
            v = z3.is_true(m.eval(valid(rt, st), model_completion=True))
            inp = concrete_input(m, v)
            nat = native(inp.hex(), None)
            want_ok = 27 <= inp[0] <= 34 and v
            item = {"message": f"compact header acceptance differs from 27..=34 (header {inp[0]}: library {'accepts' if accepted else 'rejects'})", "request": {"tx": {"version": 1, "locktime": 0, "inputs": [], "outputs": []}, "ops": [{"op": "compact_roundtrip", "bytes": inp.hex(), "ri": None}]}, "op_index": 0, "native": nat,
                    "expected": "ok" if want_ok else "err"}
            if any(("ok" in x) != want_ok for x in nat.values()):
                qr.violations.append(item)
            else:
                qr.undecided.append("compact: acceptance mismatch not reproduced natively: " + json.dumps(item)[:300])
            s.pop()
            continue
        s.pop()
        if not accepted:
            continue
        # accepted: the parsed signature re-serialises to the input, and with explicit RecoveryInfo to 27+recid+4c
        sig = r.ret.f[0]
        for mode in ("own", "explicit"):
            ex2 = env.new_exec()
            ex2.base_assumptions = list(r.pc)

            def setup2(ex2, sig=sig, mode=mode, ctx0=r.ctx):
                ctx = Ctx()
                if mode == "own":
                    ri = none()
                else:
                    ri = some(mk_struct(P, "RecoveryInfo", is_y_odd=Bool(ctx0.y), is_x_reduced=Bool(ctx0.x), is_pubkey_compressed=Bool(ctx0.c)))
                return f_to, [Ptr([clone(sig)], 0), ri], ctx
            try:
                res2 = ex2.explore(setup2)
            except Unsupported as e:
                qr.undecided.append(f"to_compact_bytes: {e}")
                continue
            for r2 in res2:
                qr.paths += 1
                if r2.kind == "panic":
                    qr.undecided.append(f"to_compact_bytes panics: {r2.msg}")
                    continue
                got = r2.ret.s
                if mode == "own":
                    want = seq_of(b)
                else:
                    y, x, c = r.ctx.y, r.ctx.x, r.ctx.c
                    one, zero = z3.BitVecVal(1, 8), z3.BitVecVal(0, 8)
                    hdr = z3.BitVecVal(27, 8) + z3.If(y, one, zero) + z3.If(x, z3.BitVecVal(2, 8), zero) + z3.If(c, z3.BitVecVal(4, 8), zero)
                    want = seq_of([hdr] + b[1:])
                stt = {}
                outs = SE.compare(list(r.pc) + list(r2.pc), got, want, stt)
                qr.queries += stt.get("queries", 0)
                qr.solver_s += stt.get("solver_s", 0.0)
                for o in outs:
                    if o[0] == "unknown":
                        qr.undecided.append("compact: solver unknown")
                    if o[0] == "differ" and len(qr.violations) < MAX_VIOLATIONS:
                        m = o[2]
                        inp = bytes([bv_val(m, h)]) + GOOD_R + GOOD_S
                        ri = None if mode == "own" else [z3.is_true(m.eval(r.ctx.y, model_completion=True)), z3.is_true(m.eval(r.ctx.x, model_completion=True)), z3.is_true(m.eval(r.ctx.c, model_completion=True))]
                        nat = native(inp.hex(), ri)
                        exp_hdr = inp[0] if ri is None else 27 + (1 if ri[0] else 0) + (2 if ri[1] else 0) + (4 if ri[2] else 0)
                        exp = (bytes([exp_hdr]) + inp[1:]).hex()
                        item = {"message": f"compact signature does not round-trip ({'own recovery data' if mode == 'own' else 'explicit RecoveryInfo ' + str(ri)}): header/recovery/compression changed",
                                "request": {"tx": {"version": 1, "locktime": 0, "inputs": [], "outputs": []}, "ops": [{"op": "compact_roundtrip", "bytes": inp.hex(), "ri": ri}]}, "op_index": 0, "expected": exp, "native": nat}
                        if any(v.get("ok") != exp for v in nat.values()):
                            qr.violations.append(item)
                        else:
                            qr.undecided.append("compact round trip: SMT counterexample not reproduced natively: " + json.dumps(item)[:300])
            finish(qr, ex2)
    finish(qr, ex)
    # ---- B: any other length is refused without panic
    for n in (0, 1, 32, 33, 64, 66):
        ex = env.new_exec()

        def setup3(ex, n=n):
            ctx = Ctx()
            bs, arr = arr_bytes("c", n, ctx)
            return f_from, [Ptr([arr], 0)], ctx
        try:
            res = ex.explore(setup3)
        except Unsupported as e:
            qr.undecided.append(f"from_compact_impl len {n}: {e}")
            continue
        qr.cases += 1
        for r in res:
            qr.paths += 1
            if r.kind == "panic" or r.ret.variant == "Ok":
                inp = bytes([31] + [0x11] * (n - 1)) if n else b""
                nat = native(inp.hex(), None)
                item = {"message": f"from_compact_bytes on a {n}-byte buffer: {'panic ' + str(r.msg) if r.kind == 'panic' else 'accepted'}", "request": {"tx": {"version": 1, "locktime": 0, "inputs": [], "outputs": []}, "ops": [{"op": "compact_roundtrip", "bytes": inp.hex(), "ri": None}]}, "op_index": 0, "native": nat, "expected": "err"}
                if any("err" not in v for v in nat.values()):
                    if len(qr.violations) < MAX_VIOLATIONS:
                        qr.violations.append(item)
                else:
                    qr.undecided.append(f"compact len {n}: not reproduced natively")
        finish(qr, ex)
    qr.samples.append({"obligation": "compact_glue", "headers": "all 256", "recovery_infos": "all 8 (symbolic booleans)", "lengths_refused": [0, 1, 32, 33, 64, 66]})
    return qr


# ----------------------------------------------------------------------------- C12: Bitcoin Signed Message
MAGIC = b"Bitcoin Signed Message:\n"


def spec_magic(msg, msgL):
    return seq_concat(spec_varint(z3.BitVecVal(len(MAGIC), 64)), C.bytes_to_seq(MAGIC), spec_varint(msgL), msg)


KEY1 = bytes([0] * 31 + [7])


def q_bsm_magic(env, name=None):
    """BSM::prepend_magic_bytes == varint(24) ++ magic ++ varint(len) ++ msg for every message length; sign_impl / sign_with_k_impl hand exactly
    that string to the signer with SigningHash::Sha256d"""
    qr = QResult(name or "bsm_magic")
    P = env.P
    f = env.fn("bsm::BSM::prepend_magic_bytes")
    ex = env.new_exec()

    def setup(ex):
        ctx = Ctx()
        ctx.msg, ctx.msgL = sym_bytes(ex, ctx, "message")
        return f, [Ptr([Bytes(ctx.msg)], 0)], ctx
    try:
        results = ex.explore(setup)
    except Unsupported as e:
        qr.undecided.append(f"prepend_magic_bytes: {e}")
        return qr
    qr.cases += 1

    def spec_of(ctx):
        return ("ok", spec_magic(ctx.msg, ctx.msgL))

    def request_of(ctx, b):
        n = min(bv_val(b.m, ctx.msgL), 70010)
        raw = bytes((i * 31 + 7) % 256 for i in range(n))
        b.pairs.append((ctx.msg, C.bytes_to_seq(raw)))
        b.pairs.append((ctx.msgL, z3.BitVecVal(n, 64)))
        pre = C.seq_value_to_bytes(C.evaluate(spec_magic(ctx.msg, ctx.msgL), b.pairs))
        return {"tx": {"version": 1, "locktime": 0, "inputs": [], "outputs": []}, "ops": [{"op": "bsm_magic", "key": KEY1.hex(), "message": raw.hex(), "preimage": pre.hex()}]}, 0
    # discharge compares bytes; the native side checks that a real BSM signature verifies against SHA256d(reference preimage)
    for r in results:
        qr.paths += 1
        if r.kind == "panic" or r.ret.variant != "Ok":
            qr.undecided.append(f"prepend_magic_bytes: unexpected {r.kind} {r.msg}")
            continue
        got = r.ret.f[0].s
        stt = {}
        outs = SE.compare(list(r.pc), got, spec_magic(r.ctx.msg, r.ctx.msgL), stt)
        qr.queries += stt.get("queries", 0)
        qr.solver_s += stt.get("solver_s", 0.0)
        if any(o[0] == "unknown" for o in outs):
            qr.undecided.append("bsm magic: solver unknown")
        if any(o[0] == "differ" for o in outs) and len(qr.violations) < MAX_VIOLATIONS:
            so = compare_small(r.pc, [r.ctx.msgL], got, spec_magic(r.ctx.msg, r.ctx.msgL), stt)
            if so is None:
                qr.undecided.append("bsm magic: counterexample only above the replay cap")
                continue
            b = Binder(so[2])
            req, _ = request_of(r.ctx, b)
            nat = {p: C.Native.run(req, p)[0] for p in ("debug", "release")}
            item = {"message": f"BSM magic-prefixed message differs from varint(24)||magic||varint(len)||msg for a {len(bytes.fromhex(req['ops'][0]['message']))}-byte message: the signed digest is not the specified one",
                    "request": req, "op_index": 0, "expected": "a BSM signature verifies against SHA256d(reference preimage)", "native": nat}
            if any(v.get("ok") is not True for v in nat.values()):
                qr.violations.append(item)
            else:
                qr.undecided.append("bsm magic: SMT counterexample not reproduced natively")
    finish(qr, ex)
    # structural: both signers pass exactly the magic message with Sha256d
    for entry in ("bsm::BSM::sign_impl", "bsm::BSM::sign_with_k_impl"):
        fn = env.fn(entry)
        ex = env.new_exec()

        def setup2(ex, fn=fn):
            ctx = Ctx()
            ctx.msg, ctx.msgL = sym_bytes(ex, ctx, "message")
            ctx.assumptions.append(z3.ULE(ctx.msgL, 252))
            nkeys = len(P.fns[fn].params) - 1
            return fn, [Ptr([Opaque("PrivateKey")], 0)] * nkeys + [Ptr([Bytes(ctx.msg)], 0)], ctx
        try:
            res = ex.explore(setup2)
        except Unsupported as e:
            qr.undecided.append(f"{entry}: {e}")
            continue
        qr.cases += 1
        for r in res:
            qr.paths += 1
            rec = [x for x in getattr(r, "recorded", []) if x[0].startswith("sign_with")]
            if r.kind != "ok" or not rec:
                qr.undecided.append(f"{entry}: no signer call recorded ({r.kind} {r.msg})")
                continue
            nm, args = rec[-1]
            pre = [a for a in args if isinstance(a, (Ptr, Bytes))]
            hashes = [a for a in args if isinstance(a, Enum) and a.name == "SigningHash"]
            msg_arg = None
            for a in args:
                try:
                    msg_arg = ex.bytes_of(a)
                except Exception:
                    continue
            bad = []
            if not hashes or hashes[0].variant != "Sha256d":
                bad.append(f"hash choice {hashes[0].variant if hashes else '?'} instead of Sha256d")
            if msg_arg is None:
                bad.append("no message argument")
            else:
                outs = SE.compare(list(r.pc), msg_arg, spec_magic(r.ctx.msg, r.ctx.msgL), {})
                if any(o[0] != "equal" for o in outs):
                    bad.append("signed bytes are not the magic-prefixed message")
            if bad:
                req = {"tx": {"version": 1, "locktime": 0, "inputs": [], "outputs": []}, "ops": [{"op": "bsm_magic", "key": KEY1.hex(), "message": b"hello".hex(),
                       "preimage": (bytes([24]) + MAGIC + bytes([5]) + b"hello").hex()}]}
                nat = {p: C.Native.run(req, p)[0] for p in ("debug", "release")}
                item = {"message": f"{entry}: " + "; ".join(bad), "request": req, "op_index": 0, "expected": "verifies", "native": nat}
                if any(v.get("ok") is not True for v in nat.values()):
                    qr.violations.append(item)
                else:
                    qr.undecided.append(f"{entry}: structural deviation ({bad}) not reproduced natively")
        finish(qr, ex)
    return qr


def q_bsm_verify(env, name=None):
    """BSM::verify_message_impl accepts exactly when the recovered key hashes to the address's pubkey hash and the signature verifies,
    for EVERY network prefix; the message handed to recovery/verification is the magic-prefixed one with Sha256d"""
    qr = QResult(name or "bsm_verify")
    P = env.P
    f = env.fn("bsm::BSM::verify_message_impl")
    ex = env.new_exec()

    def setup(ex):
        ctx = Ctx()
        ctx.msg, ctx.msgL = sym_bytes(ex, ctx, "message")
        ctx.assumptions.append(z3.ULE(ctx.msgL, 252))
        ctx.p = z3.BitVec("addr_prefix", 8)
        ctx.h, harr = arr_bytes("addr_hash", 20, ctx)
        ctx.c, carr = arr_bytes("addr_checksum", 4, ctx)
        addr = Struct("P2PKHAddress", [Int(ctx.p, "u8"), harr, carr])
        return f, [Ptr([Bytes(ctx.msg)], 0), Ptr([Opaque("Signature")], 0), Ptr([addr], 0)], ctx
    try:
        results = ex.explore(setup)
    except Unsupported as e:
        qr.undecided.append(f"verify_message_impl: {e}")
        return qr
    qr.cases += 1
    point = seq_of([z3.BitVec(f"recovered_point_{i}", 8) for i in range(33)])
    h160 = be_bytes(uf("HASH160", SEQ, z3.BitVecSort(160))(point), 20)
    for r in results:
        qr.paths += 1
        if len(qr.violations) >= MAX_VIOLATIONS:
            break
        accepted = r.kind == "ok" and r.ret.variant == "Ok"
        same_hash = z3.And(*[a == b for a, b in zip(h160, r.ctx.h)])
        recover_ok = uf("RECOVER_OK", SEQ, z3.BoolSort())(spec_magic(r.ctx.msg, r.ctx.msgL))
        should = z3.And(recover_ok, same_hash, z3.Bool("VERIFY_OK"))
        se = SE.SeqEq(list(r.pc))
        qr.queries += 1
        cond = se.abstract(should) if accepted else se.abstract(should)
        # violation: accepted but should not, or rejected although it should be accepted
        goal = z3.Not(cond) if accepted else cond
        if se._check(goal) != z3.sat:
            continue
        m = se.s.model()
        prefix = bv_val(m, r.ctx.p)
        if r.kind == "panic":
            qr.undecided.append(f"verify_message_impl panics: {r.msg}")
            continue
        if not accepted:
            # completeness: real key, address of that key under the model's prefix, must verify
            req = {"tx": {"version": 1, "locktime": 0, "inputs": [], "outputs": []}, "ops": [{"op": "bsm_verify", "key": KEY1.hex(), "compressed": True, "message": b"verif".hex(), "prefix": prefix}]}
            nat = {p: C.Native.run(req, p)[0] for p in ("debug", "release")}
            item = {"message": f"BSM verification rejects a valid signature for an address with network prefix {prefix:#x} (key, message and pubkey hash all match)", "request": req, "op_index": 0,
                    "expected": "ok: true", "native": nat}
            if any(v.get("ok") is not True for v in nat.values()):
                qr.violations.append(item)
            else:
                qr.undecided.append(f"bsm verify: rejection for prefix {prefix:#x} not reproduced natively")
        else:
            qr.undecided.append("bsm verify: an accepting path exists where key hash / recovery / verification do not all hold (soundness) — needs manual triage")
    # the messages used for recovery and verification
    for nm, args in [x for r in results for x in getattr(r, "recorded", [])]:
        hashes = [a for a in args if isinstance(a, Enum) and a.name == "SigningHash"]
        if hashes and hashes[0].variant != "Sha256d":
            qr.undecided.append(f"bsm verify: {nm} called with {hashes[0].variant}")
    finish(qr, ex)
    return qr


# ----------------------------------------------------------------------------- C07: address algebra
def q_address(env, name=None):
    """from_pubkey_hash / set_chain_params / from_pubkey / to_string: prefix, hash kept, checksum = SHA256D(prefix||hash)[0..4];
    to_unlocking_script accepts exactly the address's own key for every prefix"""
    qr = QResult(name or "address")
    P = env.P
    sha = uf("SHA256D", SEQ, z3.BitVecSort(256))

    def checksum(p, h):
        return be_bytes(sha(seq_of([p] + h)), 32)[:4]

    def addr_fields(v):
        return v.f[0].t, [e.t for e in v.f[1].f], [e.t for e in v.f[2].f]

    def prove(pc, pairs, what, qr, replay):
        s = z3.Solver()
        s.set("timeout", 60000)
        se = SE.SeqEq(list(pc))
        neq = z3.Or(*[se.abstract(a != b) for a, b in pairs])
        qr.queries += 1
        r = se._check(neq)
        if r == z3.unsat:
            return
        if r == z3.unknown:
            qr.undecided.append(what + ": solver unknown")
            return
        replay(se.s.model())

    # set_chain_params_impl on an arbitrary address value
    f = env.fn("address::P2PKHAddress::set_chain_params_impl")
    ex = env.new_exec()

    def setup(ex):
        ctx = Ctx()
        ctx.p0 = z3.BitVec("p0", 8)
        ctx.p1 = z3.BitVec("p1", 8)
        ctx.h, harr = arr_bytes("addr_hash", 20, ctx)
        ctx.c, carr = arr_bytes("addr_checksum", 4, ctx)
        # address values come from the constructors only: the stored checksum is the checksum of (prefix, hash); the native replay starts
        # from from_pubkey_hash (prefix 0x00)
        for got_c, want_c0 in zip(ctx.c, checksum(ctx.p0, ctx.h)):
            ctx.assumptions.append(got_c == want_c0)
        ctx.assumptions.append(ctx.p0 == 0)
        chain = mk_struct(P, "ChainParams", p2pkh=Int(ctx.p1, "u8"), p2sh=Int(z3.BitVec("p2sh", 8), "u8"), privkey=Int(z3.BitVec("privkey", 8), "u8"),
                          xpub=Int(z3.BitVec("xpub", 32), "u32"), xpriv=Int(z3.BitVec("xpriv", 32), "u32"), magic=Int(z3.BitVec("magic", 32), "u32"))
        return f, [Ptr([Struct("P2PKHAddress", [Int(ctx.p0, "u8"), harr, carr])], 0), Ptr([chain], 0)], ctx
    try:
        results = ex.explore(setup)
        qr.cases += 1
        for r in results:
            qr.paths += 1
            if r.kind != "ok" or r.ret.variant != "Ok":
                qr.undecided.append(f"set_chain_params: {r.kind} {r.msg}")
                continue
            p, h, c = addr_fields(r.ret.f[0])
            want_c = checksum(r.ctx.p1, r.ctx.h)

            def replay(m, r=r):
                hv = bytes(bv_val(m, x) for x in r.ctx.h)
                pv = bv_val(m, r.ctx.p1)
                req = {"tx": {"version": 1, "locktime": 0, "inputs": [], "outputs": []}, "ops": [{"op": "address_fields", "hash": hv.hex(), "prefix": pv}]}
                nat = {pr: C.Native.run(req, pr)[0] for pr in ("debug", "release")}
                item = {"message": f"set_chain_params: resulting address is not (new prefix, same hash, checksum of new prefix||hash) for prefix {pv:#x}", "request": req, "op_index": 0,
                        "expected": "address re-parsed from its own string equals the address", "native": nat}
                if any(not (v.get("ok") or {}).get("reparsed_equal", False) for v in nat.values()):
                    qr.violations.append(item)
                else:
                    qr.undecided.append(f"set_chain_params: field deviation found by the solver (new prefix {pv:#04x}, hash {hv.hex()}) is not observable through to_string/from_string round trip")
            prove(r.pc, [(p, r.ctx.p1)] + list(zip(h, r.ctx.h)) + list(zip(c, want_c)), "set_chain_params", qr, replay)
        finish(qr, ex)
    except Unsupported as e:
        qr.undecided.append(f"set_chain_params_impl: {e}")

    # from_pubkey_hash_impl
    f = env.fn("address::P2PKHAddress::from_pubkey_hash_impl")
    ex = env.new_exec()

    def setup2(ex):
        ctx = Ctx()
        ctx.h, harr = arr_bytes("addr_hash", 20, ctx)
        return f, [Ptr([harr], 0)], ctx
    try:
        results = ex.explore(setup2)
        qr.cases += 1
        for r in results:
            qr.paths += 1
            if r.kind != "ok" or r.ret.variant != "Ok":
                qr.undecided.append(f"from_pubkey_hash on 20 bytes: {r.kind} {r.msg} {r.ret.variant if r.kind == 'ok' else ''}")
                continue
            p, h, c = addr_fields(r.ret.f[0])
            zero = z3.BitVecVal(0, 8)

            def replay2(m, r=r):
                qr.undecided.append("from_pubkey_hash: fields deviate from (0x00, hash, checksum) — native observation not implemented")
            prove(r.pc, [(p, zero)] + list(zip(h, r.ctx.h)) + list(zip(c, checksum(zero, r.ctx.h))), "from_pubkey_hash", qr, replay2)
        finish(qr, ex)
    except Unsupported as e:
        qr.undecided.append(f"from_pubkey_hash_impl: {e}")

    # to_unlocking_script_impl: own key accepted for every prefix
    f = env.fn("address::P2PKHAddress::to_unlocking_script_impl")
    ex = env.new_exec()

    def setup3(ex):
        ctx = Ctx()
        ctx.p = z3.BitVec("addr_prefix", 8)
        ctx.h, harr = arr_bytes("addr_hash", 20, ctx)
        ctx.point = [z3.BitVec(f"pk_{i}", 8) for i in range(33)]
        cs = checksum(ctx.p, ctx.h)
        addr = Struct("P2PKHAddress", [Int(ctx.p, "u8"), harr, Arr([Int(x, "u8") for x in cs])])
        pk = Struct("PublicKey", [Bytes(seq_of(ctx.point)), Bool(True)])
        return f, [Ptr([addr], 0), Ptr([pk], 0), Ptr([Opaque("SighashSignature")], 0)], ctx
    try:
        results = ex.explore(setup3)
        qr.cases += 1
        for r in results:
            qr.paths += 1
            if len(qr.violations) >= MAX_VIOLATIONS:
                break
            if r.kind == "panic":
                qr.undecided.append(f"to_unlocking_script panics: {r.msg}")
                continue
            accepted = r.ret.variant == "Ok"
            h160 = be_bytes(uf("HASH160", SEQ, z3.BitVecSort(160))(seq_of(r.ctx.point)), 20)
            own = z3.And(*[a == b for a, b in zip(h160, r.ctx.h)])
            se = SE.SeqEq(list(r.pc))
            qr.queries += 1
            goal = se.abstract(z3.Not(own) if accepted else own)
            if se._check(goal) != z3.sat:
                continue
            m = se.s.model()
            pv = bv_val(m, r.ctx.p)
            if accepted:
                qr.undecided.append("to_unlocking_script accepts a key whose HASH160 differs from the address hash (solver) — needs triage")
                continue
            req = {"tx": {"version": 1, "locktime": 0, "inputs": [], "outputs": []}, "ops": [{"op": "unlock_own_key", "key": KEY1.hex(), "prefix": pv}]}
            nat = {pr: C.Native.run(req, pr)[0] for pr in ("debug", "release")}
            item = {"message": f"an address with network prefix {pv:#x} refuses its own public key when an unlocking script is built", "request": req, "op_index": 0, "expected": "ok", "native": nat}
            if any(v.get("ok") is not True for v in nat.values()):
                qr.violations.append(item)
            else:
                qr.undecided.append(f"to_unlocking_script: refusal for prefix {pv:#x} not reproduced natively")
        finish(qr, ex)
    except Unsupported as e:
        qr.undecided.append(f"to_unlocking_script_impl: {e}")
    return qr


# ----------------------------------------------------------------------------- C06: DER and DER+flag
def native_sig(op):
    return {p: C.Native.run({"tx": {"version": 1, "locktime": 0, "inputs": [], "outputs": []}, "ops": [op]}, p)[0] for p in ("debug", "release")}


def real_der(last_byte):
    """a real, valid DER signature (r = 0x11.., s = 0x22..XX) whose final byte is `last_byte`"""
    r = bytes([0x11] * 32)
    s = bytes([0x22] * 31 + [last_byte])
    return bytes([0x30, 0x44, 0x02, 0x20]) + r + bytes([0x02, 0x20]) + s


def real_der_len(last_byte, total):
    """a real, valid DER signature of exactly `total` bytes (10..72) whose final byte is `last_byte`; 33-byte integers carry the
    leading 00 of a value with its top bit set (so 72 bytes = r and s both >= 2^255), shorter ones start below 0x80"""
    total = max(10, min(72, total))
    s_len = min(33, total - 6 - 2)
    r_len = total - 6 - s_len
    if r_len > 33:
        r_len, s_len = 33, total - 6 - 33

    def integer(n, last=None):
        body = ([0x00] + [0x91] * 32) if n == 33 else [0x11] * n
        if last is not None:
            body[-1] = last
        return bytes([0x02, n]) + bytes(body)
    return bytes([0x30, 4 + r_len + s_len]) + integer(r_len) + integer(s_len, last_byte)


def q_der(env, name=None):
    """Signature::from_der_impl: a valid DER string parses to that signature whatever its last byte is; DER ++ flag parses to the DER part
    for every SigHash value; SighashSignature::{to,from}_bytes_impl keep signature and flag.  DER validity is an uninterpreted predicate."""
    qr = QResult(name or "der")
    P = env.P
    f = env.fn("signature::Signature::from_der_impl")
    valid = uf("DER_VALID", SEQ, z3.BoolSort())
    flags = sorted(P.enums["SigHash"].values())

    def is_flag(b):
        return z3.Or(*[b == z3.BitVecVal(v, 8) for v in flags])
    # input = prefix ++ [last]
    ex = env.new_exec()

    def setup(ex):
        ctx = Ctx()
        ctx.pre, ctx.preL = sym_bytes(ex, ctx, "der_prefix")
        ctx.assumptions.append(z3.ULE(ctx.preL, 80))
        ctx.last = z3.BitVec("last_byte", 8)
        ctx.full = seq_concat(ctx.pre, z3.Unit(ctx.last))
        return f, [Ptr([Bytes(ctx.full)], 0)], ctx
    try:
        results = ex.explore(setup)
    except Unsupported as e:
        qr.undecided.append(f"from_der_impl: {e}")
        return qr
    qr.cases += 1
    for r in results:
        qr.paths += 1
        if len(qr.violations) >= MAX_VIOLATIONS:
            break
        c = r.ctx
        if r.kind == "panic":
            qr.undecided.append(f"from_der_impl panics: {r.msg}")
            continue
        # expected: valid(full) -> sig(full); else flag(last) & valid(prefix) -> sig(prefix); else Err
        got_ok = r.ret.variant == "Ok"
        got_seq = r.ret.f[0].f[0].f[0].s if got_ok else None   # Signature{sig: SecpSignatureDER(bytes), recovery}
        se = SE.SeqEq(list(r.pc))
        vf, vp, fl = se.abstract(valid(c.full)), se.abstract(valid(c.pre)), is_flag(c.last)
        cases = []
        if got_ok:
            parsed_full = got_seq.get_id() == c.full.get_id() or (z3.is_app(got_seq) and got_seq.num_args() == 2 and got_seq.decl().kind() == z3.Z3_OP_SEQ_CONCAT)
            # returned sig(prefix) although the full string is valid DER  /  returned a signature although nothing valid
            if not parsed_full:
                cases.append((vf, "a valid DER signature whose final byte equals a sighash flag value is parsed as if the byte were a flag (r/s of a different string, or rejection)"))
            else:
                cases.append((z3.Not(vf), "accepted an invalid DER string"))
        else:
            cases.append((vf, "a valid DER signature is rejected (its final byte equals a sighash flag value)"))
            cases.append((z3.And(z3.Not(vf), fl, vp), "DER followed by a sighash flag byte is rejected"))
        for cond, what in cases:
            qr.queries += 1
            if se._check(cond) != z3.sat:
                continue
            m = se.s.model()
            lb = bv_val(m, c.last)
            # the model's own length first (a deviation may depend on it, e.g. only the 72-byte form), then the other DER lengths
            try:
                n_model = bv_val(m, c.preL) + 1
            except Exception:
                n_model = 70
            item = None
            for total in [n_model, 70, 72, 71, 69, 40, 10]:
                if "followed by" in what:
                    want = real_der_len(0x22, total - 1) if total != 70 else real_der(0x22)
                    inp = want + bytes([lb])
                else:
                    inp = real_der_len(lb, total) if total != 70 else real_der(lb)
                    want = inp
                nat = native_sig({"op": "der_roundtrip", "bytes": inp.hex()})
                item = {"message": f"from_der: {what} (last byte {lb:#04x})", "request": {"tx": {"version": 1, "locktime": 0, "inputs": [], "outputs": []}, "ops": [{"op": "der_roundtrip", "bytes": inp.hex()}]}, "op_index": 0, "expected": want.hex(), "native": nat}
                if any(v.get("ok") != want.hex() for v in nat.values()):
                    break
            if any(v.get("ok") != want.hex() for v in nat.values()):
                qr.violations.append(item)
            else:
                qr.undecided.append(f"from_der: '{what}' (last byte {lb:#04x}) not reproduced natively")
            break
    finish(qr, ex)

    # SighashSignature::from_bytes_impl(der ++ [flag]) == (sig(der), flag) for every flag and every DER length (crossing the 72-byte threshold)
    fb = env.fn("sighash::SighashSignature::from_bytes_impl")
    for fl in flags:
        ex = env.new_exec()

        def setup2(ex, fl=fl):
            ctx = Ctx()
            ctx.der, ctx.derL = sym_bytes(ex, ctx, "der")
            ctx.assumptions.append(z3.ULE(ctx.derL, 80))
            ctx.assumptions.append(z3.UGE(ctx.derL, 8))
            ctx.assumptions.append(valid(ctx.der))
            # a flag byte appended to valid DER is not valid DER (trailing byte)
            ctx.full = seq_concat(ctx.der, z3.Unit(z3.BitVecVal(fl, 8)))
            ctx.assumptions.append(z3.Not(valid(ctx.full)))
            buf, bufL = sym_bytes(ex, ctx, "sighash_buffer")
            return fb, [Ptr([Bytes(ctx.full)], 0), Ptr([Bytes(buf)], 0)], ctx
        try:
            res = ex.explore(setup2)
        except Unsupported as e:
            qr.undecided.append(f"from_bytes_impl flag {fl:#x}: {e}")
            continue
        qr.cases += 1
        for r in res:
            qr.paths += 1
            if len(qr.violations) >= MAX_VIOLATIONS:
                break
            bad = None
            if r.kind == "panic":
                bad = f"panics: {r.msg}"
            elif r.ret.variant != "Ok":
                bad = "rejects its own serialisation"
            else:
                ss = r.ret.f[0]
                sig_seq = ss.f[P.structs["SighashSignature"].index("signature")].f[0].f[0].s
                ty = ss.f[P.structs["SighashSignature"].index("sighash_type")]
                if ty.discr != fl:
                    bad = f"flag {ty.variant} instead of {fl:#x}"
                elif sig_seq.get_id() != r.ctx.der.get_id():
                    bad = "parsed signature is not the DER part"
            if bad is None:
                continue
            qr.queries += 1
            s = z3.Solver()
            for cnd in r.pc:
                s.add(cnd)
            if s.check() != z3.sat:
                continue
            m = s.model()
            n = bv_val(m, r.ctx.derL)
            # real DER has 70 bytes here; the >72 branch needs 72-byte DER (both r and s with the high bit set)
            if n >= 72:
                rr = bytes([0x00, 0x91] + [0x11] * 31)
                sb = bytes([0x00, 0x92] + [0x22] * 31)
                der = bytes([0x30, 0x46, 0x02, 0x21]) + rr + bytes([0x02, 0x21]) + sb
            else:
                der = real_der(0x22)
            nat = native_sig({"op": "sighash_sig_roundtrip", "bytes": (der + bytes([fl])).hex()})
            item = {"message": f"SighashSignature::from_bytes(DER ++ {fl:#04x}) {bad}", "request": {"tx": {"version": 1, "locktime": 0, "inputs": [], "outputs": []}, "ops": [{"op": "sighash_sig_roundtrip", "bytes": (der + bytes([fl])).hex()}]}, "op_index": 0, "expected": (der + bytes([fl])).hex(), "native": nat}
            if any(v.get("ok") != (der + bytes([fl])).hex() for v in nat.values()):
                qr.violations.append(item)
            else:
                qr.undecided.append(f"from_bytes_impl flag {fl:#x}: '{bad}' not reproduced natively (DER length in model {n})")
        finish(qr, ex)
    qr.samples.append({"obligation": "der", "flags": [hex(x) for x in flags], "der_lengths": "8..80 symbolic (crossing the 72-byte branch)"})
    return qr


# ----------------------------------------------------------------------------- C07: WIF decoding layout
def q_wif(env, name=None):
    """PrivateKey::from_wif_impl on the Base58Check payload version || key32 [|| 0x01] || checksum: accepted iff the key is valid, key bytes and
    compression flag exactly as encoded (Base58 and hex are inverse constructors, key validity an uninterpreted predicate)"""
    import re as _re
    from .executor import Exec
    from .models import MODELS, ok, err
    from .models_decode import DMODELS
    qr = QResult(name or "wif_layout")
    P = env.P
    f = env.fn("private_key::PrivateKey::from_wif_impl")
    valid = uf("SECRET_KEY_VALID", z3.BitVecSort(256), z3.BoolSort())

    def m_secret(ex, a, callee, canon):
        items = ex.seq_items(ex.bytes_of(a[0]))
        if items is None or len(items) != 32:
            return err("elliptic_curve::Error")
        if ex.decide(valid(z3.Concat(*items))):
            return ok(Opaque("SecretKey", Bytes(seq_of(items))))
        return err("elliptic_curve::Error")
    wm = [(_re.compile(r"^SecretKey::from_be_bytes$"), m_secret)]
    dm = [m for m in DMODELS if m[1].__name__ not in ("m_secret_from_bytes", "m_pk_from_priv")]
    sha = uf("SHA256D", SEQ, z3.BitVecSort(256))
    for compressed in (False, True):
        qr.cases += 1
        ex = Exec(P, wm + dm + MODELS)

        def setup(ex, compressed=compressed):
            ctx = Ctx()
            ctx.ver = z3.BitVec("wif_version", 8)
            ctx.key = [z3.BitVec(f"wif_key_{i}", 8) for i in range(32)]
            payload = [ctx.ver] + ctx.key + ([z3.BitVecVal(1, 8)] if compressed else [])
            cs = be_bytes(sha(seq_of(payload)), 32)[:4]
            text = Opaque("b58string", Bytes(seq_of(payload + cs)))
            return f, [Ptr([text], 0)], ctx
        try:
            results = ex.explore(setup)
        except Unsupported as e:
            qr.undecided.append(f"from_wif_impl: {e}")
            continue
        for r in results:
            qr.paths += 1
            key_t = z3.Concat(*r.ctx.key)
            se = SE.SeqEq(list(r.pc))
            want_ok = se.abstract(valid(key_t))
            bad = None
            if r.kind == "panic":
                bad, goal = f"panics: {r.msg}", z3.BoolVal(True)
            elif r.ret.variant != "Ok":
                bad, goal = "a valid WIF is rejected", want_ok
            else:
                pk = r.ret.f[0]
                sk = pk.f[P.structs["PrivateKey"].index("secret_key")]
                flag = pk.f[P.structs["PrivateKey"].index("is_pub_key_compressed")]
                got_items = ex.seq_items(sk.payload.s) if isinstance(sk, Opaque) and isinstance(sk.payload, Bytes) else None
                if got_items is None or len(got_items) != 32:
                    bad, goal = "decoded key is not the 32 encoded key bytes", z3.BoolVal(True)
                else:
                    neq = z3.Or(*[g != w for g, w in zip(got_items, r.ctx.key)], flag.t != z3.BoolVal(compressed))
                    bad, goal = "decoded key bytes or compression flag differ from the encoded ones", se.abstract(neq)
            qr.queries += 1
            if se._check(goal) != z3.sat:
                continue
            m = se.s.model()
            keyb = bytes(bv_val(m, b) for b in r.ctx.key)
            if keyb == bytes(32):
                keyb = bytes(31) + b"\x05"
            ver = 0x80
            req = {"tx": {"version": 1, "locktime": 0, "inputs": [], "outputs": []}, "ops": [{"op": "wif_roundtrip", "key": keyb.hex(), "compressed": compressed}]}
            nat = {p_: C.Native.run(req, p_)[0] for p_ in ("debug", "release")}
            exp = {"key": keyb.hex(), "compressed": compressed}
            item = {"message": f"WIF decoding ({'compressed' if compressed else 'uncompressed'}): {bad} (key ends in {keyb[-1]:#04x})", "request": req, "op_index": 0, "expected": exp, "native": nat}
            if any(v.get("ok") != exp for v in nat.values()):
                qr.violations.append(item)
            else:
                qr.undecided.append(f"wif: '{bad}' not reproduced natively with key {keyb.hex()}")
        finish(qr, ex)
    return qr


# ----------------------------------------------------------------------------- C07: address string round trip (every valid address is accepted)
def _b58_digits(n):
    d = 0
    while n:
        n //= 58
        d += 1
    return d


def q_address_string(env, name=None):
    """P2PKHAddress::from_string_impl(to_string_impl(a)) == a for every prefix and hash.  Base58 is an injective constructor; the only
    character-level fact used is the LENGTH of a Base58 string: one '1' per leading zero byte plus the number of base-58 digits of
    the rest (bounds computed exactly for each count of leading zero bytes of the 25-byte payload)."""
    from .executor import Exec
    from .models import MODELS, ok, err
    from .models_decode import m_bs58_decode, m_bs58_into_vec
    import re as _re
    qr = QResult(name or "address_string")
    P = env.P
    sha = uf("SHA256D", SEQ, z3.BitVecSort(256))
    f_to = env.fn("address::P2PKHAddress::to_string_impl")
    f_from = env.fn("address::P2PKHAddress::from_string_impl")
    B58LEN = uf("BASE58_LENGTH", SEQ, z3.BitVecSort(64))

    def m_str_len(ex, a, callee, canon):
        v = a[0]
        while isinstance(v, Ptr):
            v = v.get()
        if not (isinstance(v, Opaque) and v.tag == "b58string" and isinstance(v.payload, Bytes)):
            raise Unsupported("str::len of " + repr(v)[:60])
        items = ex.seq_items(v.payload.s)
        if items is None:
            raise Unsupported("length of a Base58 string over a payload of symbolic length")
        n = len(items)
        L = B58LEN(v.payload.s)
        # leading zero bytes z -> z ones + digits(rest); rest has r = n - z bytes with a non-zero first byte (or is empty)
        for z in range(n + 1):
            r = n - z
            lo = _b58_digits(256 ** (r - 1)) if r >= 1 else 0
            hi = _b58_digits(256 ** r - 1) if r >= 1 else 0
            cond = z3.And(*[items[i] == 0 for i in range(z)] + ([items[z] != 0] if z < n else []))
            ex.pc_assume(z3.Implies(cond, z3.And(z3.UGE(L, z + lo), z3.ULE(L, z + hi))))
        return Int(L, "usize")
    models = [(_re.compile(r"^core::str::<impl str>::len$"), m_str_len), (_re.compile(r"^bs58::decode$"), m_bs58_decode),
              (_re.compile(r"DecodeBuilder<.*>::into_vec$|DecodeBuilder::into_vec$"), m_bs58_into_vec)] + MODELS
    ex = Exec(P, models)
    qr.cases += 1

    def setup(ex):
        ctx = Ctx()
        ctx.p = z3.BitVec("prefix", 8)
        ctx.h, harr = arr_bytes("addr_hash", 20, ctx)
        cs = be_bytes(sha(seq_of([ctx.p] + ctx.h)), 32)[:4]
        ctx.addr = Struct("P2PKHAddress", [Int(ctx.p, "u8"), harr, Arr([Int(t, "u8") for t in cs])])
        ex._ctx = ctx
        return "__address_roundtrip__", [], ctx
    orig = ex.call_fn

    def call_fn(name_, args, ex=ex, orig=orig):
        if name_ != "__address_roundtrip__":
            return orig(name_, args)
        ctx = ex._ctx
        s = orig(f_to, [Ptr([ctx.addr], 0)])
        if s.variant != "Ok":
            return Struct("tuple", [s, Opaque("none")])
        return Struct("tuple", [s, orig(f_from, [Ptr([s.f[0]], 0)])])
    ex.call_fn = call_fn
    try:
        res = ex.explore(setup)
    except Unsupported as e:
        qr.undecided.append(f"address string round trip: {e}")
        res = []
    reported = False
    for r in res:
        qr.paths += 1
        c = r.ctx
        bad, goal = None, z3.BoolVal(True)
        if r.kind != "ok":
            bad = f"{r.kind}: {r.msg.split(' @')[0][:80]}"
        else:
            s1, back = r.ret.f
            if s1.variant != "Ok":
                bad = "to_string fails"
            elif back.variant != "Ok":
                bad = "a valid address string produced by the library is rejected by from_string (addresses with leading zero bytes are shorter than 33 characters)"
            else:
                v = back.f[0]
                neq = [v.f[0].t != c.p] + [e.t != w for e, w in zip(v.f[1].f, c.h)]
                bad, goal = "the re-parsed address differs from the original (prefix or hash)", z3.Or(*neq)
        se = SE.SeqEq(list(r.pc))
        qr.queries += 1
        rr = se._check(se.abstract(goal))
        if rr == z3.unknown:
            qr.undecided.append("address string round trip: solver unknown")
        if bad is None or rr != z3.sat or reported:
            continue
        reported = True
        m = se.s.model()
        pv = bv_val(m, c.p)
        hv = bytes(bv_val(m, x) for x in c.h)
        if "rejected" in bad:
            # a concrete short address: three leading zero bytes of the payload, then the smallest remainder
            pv, hv = 0, bytes([0, 0, 1] + [0] * 17)
        req = {"tx": {"version": 1, "locktime": 0, "inputs": [], "outputs": []}, "ops": [{"op": "address_fields", "hash": hv.hex(), "prefix": pv}]}
        nat = {pr: C.Native.run(req, pr)[0] for pr in ("debug", "release")}
        item = {"message": f"address (prefix {pv:#04x}, hash {hv.hex()}): {bad}", "request": req, "op_index": 0, "expected": "address re-parsed from its own string equals the address", "native": nat}
        if any(not (v.get("ok") or {}).get("reparsed_equal", False) for v in nat.values()):
            qr.violations.append(item)
        else:
            qr.undecided.append(item["message"] + " — not reproduced natively: " + json.dumps(nat)[:200])
    finish(qr, ex)
    qr.samples.append({"obligation": qr.name, "quantified": "all 256 prefixes x all 20-byte hashes"})
    return qr
