"""CLI: python3-vt -m mirsym.run '<json spec>' <out.json>
spec: {"q": "bip143"|"legacy"|"wire"|..., ...params}"""
import json, sys, time, traceback
sys.path.insert(0, __import__("os").path.dirname(__import__("os").path.dirname(__import__("os").path.abspath(__file__))))
from mirsym.mirgen import get_mir
from mirsym.executor import Program, Unsupported
from mirsym import queries as Q
from mirsym import concrete as C


def main():
    spec = json.loads(sys.argv[1])
    out = sys.argv[2]
    t0 = time.time()
    res = {"spec": spec}
    try:
        import os
        repo = os.environ.get("MIRSYM_REPO", "/repo")   # development aid only; registered checks always use /repo
        mir, info = get_mir(repo)
        P = Program(mir, repo)
        env = Q.Env(P, spec.get("tier", "quick"))
        from mirsym import queries_sig as QS
        fn = getattr(Q, "q_" + spec["q"], None) or getattr(QS, "q_" + spec["q"], None)
        if fn is None and spec["q"] in ("opcode", "step_error", "if_branch", "step_vs_run"):
            from mirsym import queries_interp as QI
            fn = getattr(QI, "q_" + spec["q"])
        if fn is None and spec["q"] in ("hash_layer",):
            from mirsym import queries_hash as QH
            fn = getattr(QH, "q_" + spec["q"])
        if fn is None and spec["q"] in ("ecies", "aes_dispatch"):
            from mirsym import queries_ecies as QE
            fn = getattr(QE, "q_" + spec["q"])
        if fn is None and spec["q"] in ("asm_roundtrip",):
            from mirsym import queries_asm as QA
            fn = getattr(QA, "q_" + spec["q"])
        if fn is None and spec["q"] in ("script_parse", "script_enum"):
            from mirsym import queries_script as QSC
            fn = getattr(QSC, "q_" + spec["q"])
        if fn is None and spec["q"] in ("checksig", "interp_tx_total"):
            from mirsym import queries_checksig as QCS
            fn = getattr(QCS, "q_" + spec["q"])
        if fn is None and spec["q"] in ("ecdsa_glue", "recover_glue", "pubkey_derivation"):
            from mirsym import queries_sign as QSG
            fn = getattr(QSG, "q_" + spec["q"])
        if fn is None and spec["q"] in ("bip32", "bip32_path"):
            from mirsym import queries_bip32 as QB
            fn = getattr(QB, "q_" + spec["q"])
        if fn is None and spec["q"] in ("decoders", "pubkey_use"):
            from mirsym import queries_total as QTT
            fn = getattr(QTT, "q_" + spec["q"])
        if fn is None:
            from mirsym import queries_tmpl as QT
            fn = getattr(QT, "q_" + spec["q"])
        kw = {k: v for k, v in spec.items() if k not in ("q", "tier")}
        qr = fn(env, **kw)
        res.update(qr.as_dict())
        res["mir"] = info
        from mirsym import seqeq as _SE
        res["second_solver"] = {"solver": "cvc5 1.0.3", "queries_rechecked": _SE.CROSS["done"], "agree": _SE.CROSS["agree"], "inconclusive": _SE.CROSS["inconclusive"], "disagree": _SE.CROSS["disagree"]}
        if _SE.CROSS["disagree"]:
            res["undecided"] = list(res.get("undecided", [])) + ["second solver disagrees: " + "; ".join(_SE.CROSS["disagree"][:3])]
    except Unsupported as e:
        res.update({"violations": [], "undecided": [f"unsupported: {e}"], "queries": 0, "paths": 0, "solver_s": 0})
    except Exception as e:
        res.update({"violations": [], "undecided": [f"engine error: {e!r} :: {traceback.format_exc()[-1500:]}"], "queries": 0, "paths": 0, "solver_s": 0})
    finally:
        C.Native.cleanup()
    res["wall_s"] = round(time.time() - t0, 2)
    json.dump(res, open(out, "w"), indent=1)


if __name__ == "__main__":
    main()
