"""Value domain of the MIR symbolic executor."""
import z3

BV8 = z3.BitVecSort(8)
SEQ = z3.SeqSort(BV8)

INT_BITS = {"u8": 8, "u16": 16, "u32": 32, "u64": 64, "u128": 128, "usize": 64, "i8": 8, "i16": 16, "i32": 32, "i64": 64, "i128": 128, "isize": 64, "char": 32}


def is_signed(ty):
    return ty.startswith("i")


class Int:
    """machine integer: z3 bit-vector + rust type name"""
    __slots__ = ("t", "ty")

    def __init__(self, t, ty):
        if isinstance(t, int):
            t = z3.BitVecVal(t, INT_BITS[ty])
        self.t = t
        self.ty = ty

    def concrete(self):
        s = z3.simplify(self.t)
        if z3.is_bv_value(s):
            v = s.as_long()
            if is_signed(self.ty) and v >= 1 << (INT_BITS[self.ty] - 1):
                v -= 1 << INT_BITS[self.ty]
            return v
        return None

    def __repr__(self):
        return f"Int({z3.simplify(self.t)}:{self.ty})"


class Bool:
    __slots__ = ("t",)

    def __init__(self, t):
        if isinstance(t, bool):
            t = z3.BoolVal(t)
        self.t = t

    def concrete(self):
        s = z3.simplify(self.t)
        if z3.is_true(s):
            return True
        if z3.is_false(s):
            return False
        return None

    def __repr__(self):
        return f"Bool({z3.simplify(self.t)})"


class Bytes:
    """Vec<u8> / String-free byte string: z3 sequence of 8-bit vectors with symbolic length"""
    __slots__ = ("s",)

    def __init__(self, s):
        self.s = s

    def __repr__(self):
        return f"Bytes({z3.simplify(self.s)})"


class Struct:
    __slots__ = ("name", "f")

    def __init__(self, name, f):
        self.name = name
        self.f = list(f)

    def __repr__(self):
        return f"{self.name}{self.f}"


class Enum:
    __slots__ = ("name", "variant", "discr", "f")

    def __init__(self, name, variant, discr, f=()):
        self.name = name
        self.variant = variant
        self.discr = discr
        self.f = list(f)

    def __repr__(self):
        return f"{self.name}::{self.variant}{self.f if self.f else ''}"


class Arr:
    """fixed-size array [T; N] (also [u8; N], kept element-wise)"""
    __slots__ = ("f",)

    def __init__(self, f):
        self.f = list(f)

    def __repr__(self):
        return f"Arr{self.f}"


class ListV:
    """Vec<T> for non-u8 T: concrete length, symbolic elements"""
    __slots__ = ("f",)

    def __init__(self, f):
        self.f = list(f)

    def __repr__(self):
        return f"Vec{self.f}"


class Unit:
    def __repr__(self):
        return "()"


UNIT = Unit()


class Opaque:
    """a value whose content no property depends on (error payloads, strings, fmt::Arguments, ...)"""
    __slots__ = ("tag", "payload")

    def __init__(self, tag, payload=None):
        self.tag = tag
        self.payload = payload

    def __repr__(self):
        return f"Opaque({self.tag})"


class Transparent:
    """MaybeUninit/ManuallyDrop-style wrappers: every field projection is the wrapped slot itself"""
    __slots__ = ("f",)

    def __init__(self):
        self.f = [None]


class Ptr:
    """reference / raw pointer: a slot inside a Python container"""
    __slots__ = ("base", "key", "meta")

    def __init__(self, base, key, meta=None):
        self.base = base
        self.key = key
        self.meta = meta

    def get(self):
        try:
            return self.base[self.key]
        except KeyError:
            return None

    def set(self, v):
        self.base[self.key] = v

    def __repr__(self):
        return f"&{self.get()!r}"


def seq_units(s):
    """elements of a sequence built from units only (concrete length), else None"""
    out = []

    def walk(t):
        kd = t.decl().kind()
        if kd == z3.Z3_OP_SEQ_EMPTY:
            return True
        if kd == z3.Z3_OP_SEQ_UNIT:
            out.append(t.arg(0))
            return True
        if kd == z3.Z3_OP_SEQ_CONCAT:
            return all(walk(t.arg(i)) for i in range(t.num_args()))
        return False
    return out if walk(s) else None


class SeqElemPtr:
    """place `bytes[i]` inside a Bytes value"""
    __slots__ = ("bptr", "idx")

    def __init__(self, bptr, idx):
        self.bptr = bptr
        self.idx = idx

    def _concrete(self):
        i = self.idx
        if not isinstance(i, int):
            si = z3.simplify(i)
            if not z3.is_bv_value(si):
                return None, None
            i = si.as_long()
        items = seq_units(self.bptr.get().s)
        if items is None or i >= len(items):
            return None, None
        return items, i

    def get(self):
        items, i = self._concrete()
        if items is not None:
            return Int(items[i], "u8")
        s = self.bptr.get().s
        return Int(z3.SubSeq(s, z3.BV2Int(self.idx) if not isinstance(self.idx, int) else z3.IntVal(self.idx), z3.IntVal(1))[0], "u8")

    def set(self, v):
        items, ci = self._concrete()
        if items is not None:
            items = list(items)
            items[ci] = v.t
            self.bptr.set(Bytes(seq_of(items)))
            return
        s = self.bptr.get().s
        i = z3.BV2Int(self.idx) if not isinstance(self.idx, int) else z3.IntVal(self.idx)
        self.bptr.set(Bytes(z3.Concat(z3.SubSeq(s, z3.IntVal(0), i), z3.Unit(v.t), z3.SubSeq(s, i + 1, z3.Length(s) - i - 1))))


class FnItem:
    __slots__ = ("path",)

    def __init__(self, path):
        self.path = path

    def __repr__(self):
        return f"fn {self.path}"


def clone(v):
    """value semantics for copy/move of aggregates"""
    if isinstance(v, Struct):
        return Struct(v.name, [clone(x) for x in v.f])
    if isinstance(v, Enum):
        return Enum(v.name, v.variant, v.discr, [clone(x) for x in v.f])
    if isinstance(v, Arr):
        return Arr([clone(x) for x in v.f])
    if isinstance(v, ListV):
        return ListV([clone(x) for x in v.f])
    return v


def seq_of(items):
    """list of z3 bv8 terms -> Seq"""
    if not items:
        return z3.Empty(SEQ)
    if len(items) == 1:
        return z3.Unit(items[0])
    return z3.Concat(*[z3.Unit(x) for x in items])


def seq_concat(*parts):
    parts = [p for p in parts if not (z3.is_app(p) and p.decl().kind() == z3.Z3_OP_SEQ_EMPTY)]
    if not parts:
        return z3.Empty(SEQ)
    if len(parts) == 1:
        return parts[0]
    return z3.Concat(*parts)


def le_bytes(t, nbytes):
    return [z3.Extract(8 * i + 7, 8 * i, t) for i in range(nbytes)]


def be_bytes(t, nbytes):
    return list(reversed(le_bytes(t, nbytes)))
