"""Models for the ECIES / AES glue (C11, C20 dispatch): elliptic-curve operations, AES and key encodings are uninterpreted functions of
the bytes they are given; the crate's own code (key-slice selection, BIE1 framing, MAC coverage and ordering, algorithm dispatch,
ciphertext (de)serialisation offsets) is executed from MIR."""
import re
import z3
from .values import *
from .executor import Unsupported, PathPanic
from .models import ok, err, some, NONE, deref, uf

EMODELS = []


def model(pattern):
    def deco(fn):
        EMODELS.append((re.compile(pattern), fn))
        return fn
    return deco


def bvbytes(name, bits, *args):
    sorts = [a.sort() for a in args] + [z3.BitVecSort(bits)]
    return seq_of(be_bytes(uf(name, *sorts)(*args), bits // 8))


def set_len(ex, s, n):
    if not hasattr(ex, "len_vars"):
        ex.len_vars = {}
    ex.len_vars[s.get_id()] = n
    ex.__dict__.setdefault("_keep_alive", []).append(s)   # ids key the table: the term must stay alive


# ---------------------------------------------------------------- keys and points
@model(r"(^|::)SecretKey::to_nonzero_scalar$")
def m_to_scalar(ex, a, callee, canon):
    sk = deref(a[0])
    return Opaque("NonZeroScalar", sk.payload)


@model(r"^<NonZeroScalar(<.*>)? as Deref>::deref$")
def m_scalar_deref(ex, a, callee, canon):
    return Ptr([Opaque("Scalar", deref(a[0]).payload)], 0)


@model(r"(^|::)PrivateKey::get_point$")
def m_get_point(ex, a, callee, canon):
    pk = deref(a[0])
    idx = ex.P.structs["PrivateKey"]
    secret = pk.f[idx.index("secret_key")].payload.s
    flag = pk.f[idx.index("is_pub_key_compressed")]
    if ex.decide(flag.t):
        return Bytes(bvbytes("PUBKEY_COMPRESSED", 264, secret))
    return Bytes(bvbytes("PUBKEY_UNCOMPRESSED", 520, secret))


@model(r"(^|::)PublicKey::to_decompressed_impl$")
def m_decompress(ex, a, callee, canon):
    pk = deref(a[0])
    idx = ex.P.structs["PublicKey"]
    f = [None, None]
    f[idx.index("point")] = Bytes(bvbytes("POINT_DECOMPRESS", 520, pk.f[idx.index("point")].s))
    f[idx.index("is_compressed")] = Bool(False)
    return ok(Struct("PublicKey", f))


POINT_VALID = lambda s: uf("POINT_ENCODING_VALID", SEQ, z3.BoolSort())(s)


@model(r"^sec1::point::EncodedPoint::from_bytes$|(^|::)EncodedPoint::from_bytes$")
def m_encoded_point_from_bytes(ex, a, callee, canon):
    s = ex.bytes_of(a[0])
    if ex.decide(POINT_VALID(s)):
        return ok(Opaque("EncodedPoint", Bytes(s)))
    return err("sec1::Error")


@model(r"(^|::)EncodedPoint::compress$")
def m_point_compress(ex, a, callee, canon):
    p = deref(a[0])
    return Opaque("EncodedPointC", Bytes(bvbytes("POINT_COMPRESS", 264, p.payload.s)))


@model(r"(^|::)EncodedPoint::is_compressed$")
def m_point_is_compressed(ex, a, callee, canon):
    p = deref(a[0])
    if p.tag == "EncodedPointC":
        return Bool(True)
    return Bool(uf("POINT_IS_COMPRESSED", SEQ, z3.BoolSort())(p.payload.s))


@model(r"(^|::)EncodedPoint::as_bytes$")
def m_point_as_bytes(ex, a, callee, canon):
    return Ptr([deref(a[0]).payload], 0)


@model(r"(^|::)PublicKey::from_sec1_bytes$")
def m_from_sec1(ex, a, callee, canon):
    s = ex.bytes_of(a[0])
    if ex.decide(POINT_VALID(s)):
        return ok(Opaque("K256PublicKey", Bytes(s)))
    return err("elliptic_curve::Error")


@model(r"(^|::)PublicKey::to_projective$|(^|::)ProjectivePoint::to_affine$")
def m_point_identity(ex, a, callee, canon):
    return deref(a[0])


@model(r"^<(\w+::)*ProjectivePoint as Mul<(\w+::)*Scalar>>::mul$")
def m_point_mul(ex, a, callee, canon):
    p, k = deref(a[0]), deref(a[1])
    return Opaque("SharedPoint", (p.payload.s, k.payload.s))


@model(r"(^|::)PublicKey::from_affine$")
def m_from_affine(ex, a, callee, canon):
    return ok(deref(a[0]))


@model(r"ToEncodedPoint(<.*>)?>::to_encoded_point$")
def m_to_encoded_point(ex, a, callee, canon):
    p = deref(a[0])
    c = a[1]
    cc = c.concrete() if hasattr(c, "concrete") else None
    if p.tag != "SharedPoint" or cc is None:
        raise Unsupported("to_encoded_point on " + p.tag)
    pub, k = p.payload
    if cc:
        return Opaque("EncodedPointC", Bytes(bvbytes("ECDH_COMPRESSED", 264, k, pub)))
    return Opaque("EncodedPoint", Bytes(bvbytes("ECDH_UNCOMPRESSED", 520, k, pub)))


@model(r"^<&\[u8\] as Into<Vec<u8>>>::into$")
def m_slice_into_vec(ex, a, callee, canon):
    return Bytes(ex.bytes_of(a[0]))


# ---------------------------------------------------------------- AES
def _cipher(callee):
    m = re.search(r"Cbc(?:::)?<(?:\w+::)*(Aes\d+), (?:\w+::)*(\w+)>", callee)
    if m:
        return "CBC_" + m.group(1).upper() + "_" + m.group(2).upper()
    m = re.search(r"aes_ctr::<(?:\w+::)*(Aes\d+Ctr)>", callee)
    if m:
        return "CTR_" + m.group(1).upper()
    return None


KEYLEN = {"AES128": 16, "AES256": 32}


def _lens_ok(ex, what, key, iv):
    kl = KEYLEN["AES128" if "AES128" in what else "AES256"]
    return ex.decide(z3.And(ex.seq_len(key) == kl, ex.seq_len(iv) == 16))


@model(r"(^|::)Cbc::new_from_slices$|^<Cbc<.*> as BlockMode<.*>>::new_from_slices$")
def m_cbc_new(ex, a, callee, canon):
    what = _cipher(callee)
    if what is None:
        raise Unsupported("block mode " + callee[:120])
    key, iv = ex.bytes_of(a[0]), ex.bytes_of(a[1])
    if not _lens_ok(ex, what, key, iv):
        return err("InvalidKeyIvLength")
    return ok(Opaque("Cbc", (what, key, iv)))


@model(r"(^|::)Cbc::encrypt_vec$|^<Cbc<.*> as BlockMode<.*>>::encrypt_vec$")
def m_cbc_encrypt(ex, a, callee, canon):
    what, key, iv = deref(a[0]).payload
    msg = ex.bytes_of(a[1])
    out = uf(what + "_ENCRYPT", SEQ, SEQ, SEQ, SEQ)(key, iv, msg)
    n = ex.seq_len(msg)
    set_len(ex, out, (z3.LShR(n, 4) + 1) << 4)
    return Bytes(out)


@model(r"(^|::)Cbc::decrypt_vec$|^<Cbc<.*> as BlockMode<.*>>::decrypt_vec$")
def m_cbc_decrypt(ex, a, callee, canon):
    what, key, iv = deref(a[0]).payload
    ct = ex.bytes_of(a[1])
    if ex.decide(uf(what + "_DECRYPT_OK", SEQ, SEQ, SEQ, z3.BoolSort())(key, iv, ct)):
        out = uf(what + "_DECRYPT", SEQ, SEQ, SEQ, SEQ)(key, iv, ct)
        L = ex.fresh("plain_len", z3.BitVecSort(64))
        ex.pc_assume(z3.ULT(L, ex.seq_len(ct)))
        set_len(ex, out, L)
        return ok(Bytes(out))
    return err("BlockModeError")


class Ctr:
    def __init__(self, what, key, iv, pos=None):
        self.what, self.key, self.iv, self.pos = what, key, iv, pos


@model(r"^<T as NewCipher>::new_from_slices$")
def m_ctr_new(ex, a, callee, canon):
    site = " ".join(getattr(ex, "callsite_stack", [""])[-3:])
    m = re.search(r"aes_ctr::<(?:\w+::)*(Aes\d+)Ctr>", site)
    if not m:
        raise Unsupported("stream cipher type of aes_ctr::<T> not visible at the call site")
    what = "CTR_" + m.group(1).upper()
    key, iv = ex.bytes_of(a[0]), ex.bytes_of(a[1])
    if not _lens_ok(ex, what, key, iv):
        return err("InvalidLength")
    return ok(Ctr(what, key, iv))


@model(r"^<T as StreamCipherSeek>::seek$")
def m_ctr_seek(ex, a, callee, canon):
    c = deref(a[0])
    c.pos = a[1]
    return UNIT


@model(r"^<T as StreamCipher>::apply_keystream$")
def m_ctr_apply(ex, a, callee, canon):
    c = deref(a[0])
    tgt = a[1]
    while isinstance(tgt.get(), Ptr):
        tgt = tgt.get()
    data = ex.bytes_of(tgt.get())
    pos = c.pos.t if isinstance(c.pos, Int) else z3.BitVecVal(0xdead, c.pos.t.size() if c.pos is not None else 64) if c.pos is not None else z3.BitVecVal(0xffff, 64)
    if pos.size() != 64:
        pos = z3.ZeroExt(64 - pos.size(), pos) if pos.size() < 64 else z3.Extract(63, 0, pos)
    pos = z3.simplify(pos)
    out = uf(c.what + "_KEYSTREAM_XOR", SEQ, SEQ, z3.BitVecSort(64), SEQ, SEQ)(c.key, c.iv, pos, data)
    set_len(ex, out, ex.seq_len(data))
    tgt.set(Bytes(out))
    return UNIT


# ---------------------------------------------------------------- slicing a concatenation at piece boundaries
def _parts(ex, s):
    """top-level pieces of a Seq term with their 64-bit lengths"""
    out = []

    def walk(t):
        k = t.decl().kind()
        if k == z3.Z3_OP_SEQ_EMPTY:
            return
        if k == z3.Z3_OP_SEQ_CONCAT:
            for i in range(t.num_args()):
                walk(t.arg(i))
            return
        if k == z3.Z3_OP_SEQ_UNIT:
            out.append((t, z3.BitVecVal(1, 64)))
            return
        out.append((t, ex.seq_len(t)))
    walk(s)
    return out


@model(r"^<(\[u8\]|Vec<u8>) as Index(Mut)?<Range(From|To|Full)?<usize>>>::index(_mut)?$|^core::slice::index::<impl Index<Range(From|To)?<usize>> for \[u8\]>::index$")
def m_index_range_pieces(ex, a, callee, canon):
    from .models_decode import _range_terms
    v = deref(a[0])
    s = ex.bytes_of(v)
    n = ex.seq_len(s)
    lo, hi = _range_terms(ex, a[1], n)
    if not ex.decide(z3.ULE(lo, hi)):
        raise PathPanic("slice index starts after its end")
    if not ex.decide(z3.ULE(hi, n)):
        raise PathPanic("range end index out of range for slice")
    parts = _parts(ex, s)
    offs = [z3.BitVecVal(0, 64)]
    for _, L in parts:
        offs.append(z3.simplify(offs[-1] + L))

    def boundary(x):
        cx = z3.simplify(x)
        for i, o in enumerate(offs):
            if o.get_id() == cx.get_id():
                return i
        for i, o in enumerate(offs):
            if not ex.feasible(x != o):
                return i
        return None
    i, j = boundary(lo), boundary(hi)
    if i is None or j is None:
        sl = uf("SLICE", SEQ, z3.BitVecSort(64), z3.BitVecSort(64), SEQ)(s, lo, hi)
        set_len(ex, sl, hi - lo)
        return Ptr([Bytes(sl)], 0)
    if j < i:
        j = i
    return Ptr([Bytes(seq_concat(*[p for p, _ in parts[i:j]]) if j > i else z3.Empty(SEQ))], 0)



@model(r"^core::slice::<impl \[u8\]>::split_at$")
def m_split_at_pieces(ex, a, callee, canon):
    """split at a piece boundary of a concatenation (same boundary search as the range index above)"""
    v = deref(a[0])
    s = ex.bytes_of(v)
    n = ex.seq_len(s)
    mid = a[1].t
    if not ex.decide(z3.ULE(mid, n)):
        raise PathPanic("slice::split_at: mid > len")
    rng = lambda lo, hi: Struct("Range", [Int(lo, "usize"), Int(hi, "usize")])
    left = m_index_range_pieces(ex, [a[0], rng(z3.BitVecVal(0, 64), mid)], callee, canon)
    right = m_index_range_pieces(ex, [a[0], rng(mid, n)], callee, canon)
    return Struct("tuple", [left, right])
