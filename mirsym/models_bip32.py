"""Models for the BIP32 glue (C08): scalar / point arithmetic and key validity are uninterpreted functions; the crate's own code
(HMAC key and data layout, IL/IR split, fingerprint, depth, 78-byte serialisation and its parsing through std::io::Cursor) is executed
from MIR.  The cursor here is content-aware: fixed-size fields over a buffer of known length."""
import re
import z3
from .values import *
from .executor import Unsupported, PathPanic
from .models import ok, err, some, NONE, deref, uf, generic_arg

BMODELS = []


def model(pattern):
    def deco(fn):
        BMODELS.append((re.compile(pattern), fn))
        return fn
    return deco


SECRET_VALID = lambda bv: uf("SECRET_KEY_VALID", z3.BitVecSort(256), z3.BoolSort())(bv)
POINT_VALID = lambda s: uf("POINT_ENCODING_VALID", SEQ, z3.BoolSort())(s)


# ---------------------------------------------------------------- scalars and points
@model(r"(^|::)SecretKey::from_be_bytes$")
def m_secret_from(ex, a, callee, canon):
    items = ex.seq_items(ex.bytes_of(a[0]))
    if items is None or len(items) != 32:
        return err("elliptic_curve::Error")
    if ex.decide(SECRET_VALID(z3.Concat(*items))):
        return ok(Opaque("SecretKey", Bytes(seq_of(items))))
    return err("elliptic_curve::Error")


@model(r"(^|::)SecretKey::to_be_bytes$|(^|::)Scalar::to_bytes$")
def m_secret_to(ex, a, callee, canon):
    v = deref(a[0])
    return Arr([Int(t, "u8") for t in ex.seq_items(v.payload.s)])


def _bv(ex, v):
    return z3.Concat(*ex.seq_items(v.payload.s))


@model(r"^<(\w+::)*Scalar as Add>::add$|^<(\w+::)*NonZeroScalar(<.*>)? as Add<.*>>::add$")
def m_scalar_add(ex, a, callee, canon):
    x, y = deref(a[0]), deref(a[1])
    r = uf("SCALAR_ADD_MOD_N", z3.BitVecSort(256), z3.BitVecSort(256), z3.BitVecSort(256))(_bv(ex, x), _bv(ex, y))
    return Opaque("Scalar", Bytes(seq_of(be_bytes(r, 32))))


@model(r"(^|::)PublicKey::from_sec1_bytes$")
def m_from_sec1(ex, a, callee, canon):
    s = ex.bytes_of(a[0])
    items = ex.seq_items(s)
    if items is None or len(items) != 33:
        raise Unsupported("from_sec1_bytes on a key that is not 33 concrete-length bytes")
    if ex.decide(POINT_VALID(s)):
        return ok(Opaque("Point", z3.Concat(*items)))
    return err("elliptic_curve::Error")


@model(r"(^|::)PublicKey::to_projective$|(^|::)ProjectivePoint::to_affine$")
def m_identity(ex, a, callee, canon):
    return deref(a[0])


@model(r"^<(\w+::)*ProjectivePoint as Mul<(\w+::)*Scalar>>::mul$")
def m_mul(ex, a, callee, canon):
    p, k = deref(a[0]), deref(a[1])
    if p.tag != "Generator":
        raise Unsupported("scalar multiplication of a non-generator point in the BIP32 query")
    return Opaque("Point", uf("POINT_MUL_G", z3.BitVecSort(256), z3.BitVecSort(264))(_bv(ex, k)))


@model(r"^<(\w+::)*ProjectivePoint as Add>::add$")
def m_point_add(ex, a, callee, canon):
    p, q = deref(a[0]), deref(a[1])
    return Opaque("Point", uf("POINT_ADD", z3.BitVecSort(264), z3.BitVecSort(264), z3.BitVecSort(264))(p.payload, q.payload))


@model(r"(^|::)PublicKey::from_affine$")
def m_from_affine(ex, a, callee, canon):
    p = deref(a[0])
    if ex.decide(uf("POINT_IS_IDENTITY", z3.BitVecSort(264), z3.BoolSort())(p.payload)):
        return err("elliptic_curve::Error")
    return ok(p)


@model(r"ToEncodedPoint(<.*>)?>::to_encoded_point$")
def m_to_encoded(ex, a, callee, canon):
    p = deref(a[0])
    cc = a[1].concrete()
    if p.tag != "Point" or not cc:
        raise Unsupported("to_encoded_point(uncompressed) in the BIP32 query")
    return Opaque("EncodedPointC", Bytes(seq_of(be_bytes(p.payload, 33))))


# ---------------------------------------------------------------- chunks_exact
class Chunks:
    def __init__(self, items, n):
        self.items, self.n = items, n


@model(r"^core::slice::<impl \[u8\]>::chunks_exact$")
def m_chunks_exact(ex, a, callee, canon):
    items = ex.seq_items(ex.bytes_of(a[0]))
    n = a[1].concrete()
    if items is None or n is None or n == 0:
        raise Unsupported("chunks_exact on symbolic-length data")
    return Chunks(list(items), n)


@model(r"^<ChunksExact<.*> as Iterator>::next$")
def m_chunks_next(ex, a, callee, canon):
    c = deref(a[0])
    if len(c.items) < c.n:
        return NONE()
    head, c.items = c.items[:c.n], c.items[c.n:]
    return some(Ptr([Bytes(seq_of(head))], 0))


# ---------------------------------------------------------------- content-aware Cursor<Vec<u8>>
class VCursor:
    def __init__(self, items):
        self.items = list(items)
        self.pos = 0


def _cur(a0):
    c = deref(a0)
    if not isinstance(c, VCursor):
        raise Unsupported("cursor model on " + repr(c)[:60])
    return c


@model(r"^Cursor::new$")
def m_cursor_new(ex, a, callee, canon):
    items = ex.seq_items(ex.bytes_of(a[0]))
    if items is None:
        raise Unsupported("Cursor over a buffer of symbolic length in the BIP32 query")
    return VCursor(items)


def _write(c, units):
    for u in units:
        if c.pos < len(c.items):
            c.items[c.pos] = u
        elif c.pos == len(c.items):
            c.items.append(u)
        else:
            c.items.extend([z3.BitVecVal(0, 8)] * (c.pos - len(c.items)) + [u])
        c.pos += 1


@model(r"^<Cursor<Vec<u8>> as (byteorder::)?WriteBytesExt>::write_(u8|u16|u32|u64)$")
def m_cursor_write_int(ex, a, callee, canon):
    c = _cur(a[0])
    n = a[1].t.size() // 8
    if n == 1:
        bs = [a[1].t]
    else:
        endian = generic_arg(callee, 0) or ""
        bs = le_bytes(a[1].t, n) if "Little" in endian else be_bytes(a[1].t, n) if "Big" in endian else None
        if bs is None:
            raise Unsupported("byte order " + endian)
    _write(c, bs)
    return ok()


@model(r"^<Cursor<Vec<u8>> as (std::io::)?Write>::write(_all)?$")
def m_cursor_write(ex, a, callee, canon):
    c = _cur(a[0])
    items = ex.seq_items(ex.bytes_of(a[1]))
    if items is None:
        raise Unsupported("cursor write of symbolic-length data")
    _write(c, items)
    return ok() if canon.endswith("write_all") else ok(Int(len(items), "usize"))


@model(r"^Cursor::set_position$")
def m_cursor_set_pos(ex, a, callee, canon):
    c = _cur(a[0])
    p = a[1].concrete()
    if p is None:
        raise Unsupported("symbolic cursor position")
    c.pos = p
    return UNIT


@model(r"^Cursor::position$")
def m_cursor_pos(ex, a, callee, canon):
    return Int(_cur(a[0]).pos, "u64")


@model(r"^<Cursor<Vec<u8>> as (std::io::)?Read>::read_to_end$")
def m_cursor_read_to_end(ex, a, callee, canon):
    c = _cur(a[0])
    tgt = a[1]
    while isinstance(tgt.get(), Ptr):
        tgt = tgt.get()
    rest = c.items[min(c.pos, len(c.items)):]
    tgt.set(Bytes(seq_concat(ex.bytes_of(tgt.get()), seq_of(rest))))
    c.pos = max(c.pos, len(c.items))
    return ok(Int(len(rest), "usize"))


@model(r"^<Cursor<Vec<u8>> as (std::io::)?Read>::read_exact$")
def m_cursor_read_exact(ex, a, callee, canon):
    c = _cur(a[0])
    tgt = a[1]
    while isinstance(tgt.get(), Ptr):
        tgt = tgt.get()
    items = ex.seq_items(ex.bytes_of(tgt.get()))
    if items is None:
        raise Unsupported("read_exact into a buffer of symbolic length")
    n = len(items)
    if c.pos + n > len(c.items):
        c.pos = len(c.items)     # std: a short read_exact consumes the rest
        return err("UnexpectedEof")
    tgt.set(Bytes(seq_of(c.items[c.pos:c.pos + n])))
    c.pos += n
    return ok()


@model(r"^<Cursor<Vec<u8>> as (byteorder::)?ReadBytesExt>::read_(u8|u16|u32|u64)$")
def m_cursor_read_int(ex, a, callee, canon):
    c = _cur(a[0])
    ty = canon.rsplit("read_", 1)[1]
    n = INT_BITS[ty] // 8
    if c.pos + n > len(c.items):
        c.pos = len(c.items)
        return err("UnexpectedEof")
    us = c.items[c.pos:c.pos + n]
    c.pos += n
    if n == 1:
        return ok(Int(us[0], ty))
    endian = generic_arg(callee, 0) or ""
    if "Little" in endian:
        us = list(reversed(us))
    elif "Big" not in endian:
        raise Unsupported("byte order " + endian)
    return ok(Int(z3.simplify(z3.Concat(*us)), ty))


@model(r"^Cursor::get_ref$|^Cursor::into_inner$")
def m_cursor_get_ref(ex, a, callee, canon):
    c = _cur(a[0])
    v = Bytes(seq_of(c.items))
    return Ptr([v], 0) if canon.endswith("get_ref") else v


# ---------------------------------------------------------------- ASCII strings of known length (path components)
def _str_items(ex, v):
    items = ex.seq_items(ex.bytes_of(v))
    if items is None:
        raise Unsupported("string of symbolic length")
    return items


def _char(c):
    v = c.concrete()
    if v is None or v >= 128:
        raise Unsupported("non-ASCII or symbolic char pattern")
    return z3.BitVecVal(v, 8)


@model(r"^core::str::<impl str>::ends_with$")
def m_str_ends_with(ex, a, callee, canon):
    items = _str_items(ex, a[0])
    if not items:
        return Bool(False)
    return Bool(items[-1] == _char(a[1]))


@model(r"^(std|alloc|core)::str::<impl str>::to_lowercase$|^(std|alloc|core)::str::<impl str>::to_ascii_lowercase$")
def m_str_lower(ex, a, callee, canon):
    items = _str_items(ex, a[0])
    # ASCII only (the query assumes every byte < 0x80)
    out = []
    for t in items:
        l = ex.fresh("lower", z3.BitVecSort(8))
        ex.pc_assume(l == z3.If(z3.And(z3.UGE(t, 0x41), z3.ULE(t, 0x5a)), t + 0x20, t))
        out.append(l)
    return Bytes(seq_of(out))


@model(r"^<(std::string::|alloc::string::)?String as Deref>::deref$")
def m_string_deref(ex, a, callee, canon):
    return a[0] if isinstance(a[0], Ptr) else Ptr([a[0]], 0)


@model(r"^core::str::<impl str>::trim_end_matches$")
def m_trim_end(ex, a, callee, canon):
    items = list(_str_items(ex, a[0]))
    c = _char(a[1])
    while items and ex.decide(items[-1] == c):
        items.pop()
    return Ptr([Bytes(seq_of(items))], 0)


@model(r"^core::str::<impl str>::parse$")
def m_parse_u32(ex, a, callee, canon):
    ty = generic_arg(callee, 0)
    if ty != "u32":
        raise Unsupported("str::parse::<" + str(ty) + ">")
    items = list(_str_items(ex, a[0]))
    if not items:
        return err("ParseIntError")
    if len(items) > 1 and ex.decide(items[0] == 0x2b):      # a leading '+' is accepted by u32::from_str
        items = items[1:]
    if len(items) > 12:
        raise Unsupported("number longer than 12 characters")
    if not ex.decide(z3.And(*[z3.And(z3.UGE(t, 0x30), z3.ULE(t, 0x39)) for t in items])):
        return err("ParseIntError")
    v = z3.BitVecVal(0, 64)
    for t in items:
        v = v * 10 + z3.ZeroExt(56, t - 0x30)
    if not ex.decide(z3.ULE(v, 0xffffffff)):
        return err("ParseIntError")
    return ok(Int(z3.simplify(z3.Extract(31, 0, v)), "u32"))
