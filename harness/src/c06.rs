//! C06 — signature encodings: 65-byte compact recoverable form, DER, DER+flag.
use crate::{cov, okf, ReplaySrc, Src};
use bsv::{RecoveryInfo, SigHash, SighashSignature, Signature};

/// Every 65-byte string either is refused or parses to a signature whose compact
/// re-serialisation is the input (same r, s, recovery id and compression marker);
/// headers outside 27..=34 are refused; the header is 27 + recid + 4*compressed.
pub fn compact_parse_any<S: Src>(s: &mut S) {
    let b: [u8; 65] = s.bytes::<65>();
    cov!(b[0] < 27, "header<27");
    cov!(b[0] >= 27 && b[0] <= 30, "uncompressed");
    cov!(b[0] >= 31 && b[0] <= 34, "compressed");
    cov!(b[0] > 34, "header>34");
    let sig = okf(Signature::from_compact_bytes(&b));
    if b[0] < 27 || b[0] > 34 {
        assert!(sig.is_none(), "compact header outside 27..=34 accepted");
    }
    if let Some(sig) = sig {
        let back = sig.to_compact_bytes(None);
        assert!(back.len() == 65, "compact length");
        let mut i = 0;
        while i < 65 {
            assert!(back[i] == b[i], "compact signature does not round-trip (r, s or recovery/compression header changed)");
            i += 1;
        }
        let r = sig.r();
        let sv = sig.s();
        assert!(r.len() == 32 && sv.len() == 32);
        let mut j = 0;
        while j < 32 {
            assert!(r[j] == b[1 + j] && sv[j] == b[33 + j], "r()/s() differ from compact bytes");
            j += 1;
        }
        cov!(true, "accepted");
    }
    cov!(true, "end");
}

/// For an accepted signature and each of the 8 RecoveryInfo values: to_compact_bytes(Some(ri))
/// has header 27 + (x_reduced<<1 | y_odd) + 4*compressed and parses back to the same
/// (r, s, recovery data, compression marker).
pub fn compact_recovery_matrix<S: Src>(s: &mut S) {
    let b: [u8; 65] = s.bytes::<65>();
    let y = s.bool();
    let x = s.bool();
    let c = s.bool();
    s.assume(b[0] >= 27 && b[0] <= 34);
    let sig = okf(Signature::from_compact_bytes(&b));
    if let Some(sig) = sig {
        let out = sig.to_compact_bytes(Some(RecoveryInfo::new(y, x, c)));
        let want = 27u8 + ((x as u8) << 1 | (y as u8)) + if c { 4 } else { 0 };
        assert!(out.len() == 65 && out[0] == want, "compact header is not 27 + recid + 4*compressed");
        let mut i = 1;
        while i < 65 {
            assert!(out[i] == b[i], "r/s changed by to_compact_bytes");
            i += 1;
        }
        let sig2 = okf(Signature::from_compact_bytes(&out));
        assert!(sig2.is_some(), "own compact serialisation rejected");
        let out2 = sig2.unwrap().to_compact_bytes(None);
        let mut k = 0;
        while k < 65 {
            assert!(out2[k] == out[k], "recovery data / compression marker lost in compact round trip");
            k += 1;
        }
        cov!(x && y && c, "recid3 compressed");
        cov!(x && !y && !c, "recid2 uncompressed");
    }
    cov!(true, "end");
}

/// Quick-tier kernel: header/recovery logic over ALL 256 header bytes x 8 RecoveryInfo values with
/// two symbolic bytes in r and s (the rest fixed), so the 256-bit scalar range checks stay cheap.
pub fn compact_header_all<S: Src>(s: &mut S) {
    let h = s.u8();
    let rb = s.u8();
    let sb = s.u8();
    let y = s.bool();
    let x = s.bool();
    let c = s.bool();
    let mut b = [0x11u8; 65];
    let mut i = 33;
    while i < 65 {
        b[i] = 0x22;
        i += 1;
    }
    b[0] = h;
    b[17] = rb;
    b[64] = sb;
    let sig = okf(Signature::from_compact_bytes(&b));
    let valid_header = h >= 27 && h <= 34;
    assert!(sig.is_some() == valid_header, "compact header acceptance differs from 27..=34");
    cov!(h == 29, "recid2 uncompressed");
    cov!(h == 33, "recid2 compressed");
    cov!(h == 34, "recid3 compressed");
    if let Some(sig) = sig {
        let back = sig.to_compact_bytes(None);
        assert!(back.len() == 65);
        let mut k = 0;
        while k < 65 {
            assert!(back[k] == b[k], "compact signature does not round-trip (r, s or recovery/compression header changed)");
            k += 1;
        }
        let out = sig.to_compact_bytes(Some(RecoveryInfo::new(y, x, c)));
        let want = 27u8 + ((x as u8) << 1 | (y as u8)) + if c { 4 } else { 0 };
        assert!(out.len() == 65 && out[0] == want, "compact header is not 27 + recid + 4*compressed");
        let sig2 = okf(Signature::from_compact_bytes(&out));
        assert!(sig2.is_some(), "own compact serialisation rejected");
        let out2 = sig2.unwrap().to_compact_bytes(None);
        let mut m = 0;
        while m < 65 {
            assert!(out2[m] == out[m], "recovery data / compression marker lost in compact round trip");
            m += 1;
        }
    }
    cov!(true, "end");
}

/// from_compact_bytes on a buffer of concrete length L (symbolic content): returns, never panics.
pub fn compact_len<S: Src, const L: usize>(s: &mut S) {
    let b: [u8; L] = s.bytes::<L>();
    let r = okf(Signature::from_compact_bytes(&b));
    if L != 65 {
        assert!(r.is_none(), "compact signature of wrong length accepted");
    }
    cov!(true, "end");
}

pub fn register(v: &mut Vec<(&'static str, fn(&mut ReplaySrc))>) {
    v.push(("c06_compact_parse_any", compact_parse_any::<ReplaySrc>));
    v.push(("c06_compact_recovery_matrix", compact_recovery_matrix::<ReplaySrc>));
    v.push(("c06_compact_header_all", compact_header_all::<ReplaySrc>));
    v.push(("c06_compact_len_0", compact_len::<ReplaySrc, 0>));
    v.push(("c06_compact_len_1", compact_len::<ReplaySrc, 1>));
    v.push(("c06_compact_len_33", compact_len::<ReplaySrc, 33>));
    v.push(("c06_compact_len_64", compact_len::<ReplaySrc, 64>));
    v.push(("c06_compact_len_66", compact_len::<ReplaySrc, 66>));
}

#[cfg(kani)]
mod proofs {
    use super::*;
    use crate::KaniSrc;

    #[kani::proof]
    #[kani::unwind(67)]
    #[kani::stub(std::fmt::format, crate::stubs::fmt_format)]
    fn c06_compact_parse_any() {
        compact_parse_any(&mut KaniSrc)
    }

    #[kani::proof]
    #[kani::unwind(67)]
    #[kani::stub(std::fmt::format, crate::stubs::fmt_format)]
    fn c06_compact_recovery_matrix() {
        compact_recovery_matrix(&mut KaniSrc)
    }

    #[kani::proof]
    #[kani::unwind(67)]
    #[kani::stub(std::fmt::format, crate::stubs::fmt_format)]
    fn c06_compact_header_all() {
        compact_header_all(&mut KaniSrc)
    }

    macro_rules! clen {
        ($name:ident, $l:expr) => {
            #[kani::proof]
            #[kani::unwind(67)]
            #[kani::stub(std::fmt::format, crate::stubs::fmt_format)]
            fn $name() {
                compact_len::<KaniSrc, $l>(&mut KaniSrc)
            }
        };
    }
    clen!(c06_compact_len_0, 0);
    clen!(c06_compact_len_1, 1);
    clen!(c06_compact_len_33, 33);
    clen!(c06_compact_len_64, 64);
    clen!(c06_compact_len_66, 66);
}
