//! Stubs shared by the Kani harnesses.  Each stub is part of the claim and is
//! listed in the evidence of every obligation that uses it.

/// `alloc::fmt::format` — error paths build their messages with `format!`;
/// message text is never the subject of a property here.
#[cfg(kani)]
pub fn fmt_format(_args: core::fmt::Arguments<'_>) -> String {
    String::new()
}

/// `<core::io::CustomOwner as Drop>::drop` — dropping an `io::Error` makes
/// CBMC explore the `Custom(Box<dyn Error>)` arm and, from there, every
/// `dyn Error` destructor in the program.  The custom payload is never
/// produced by the code under test (only `UnexpectedEof` simple errors).
#[cfg(kani)]
pub fn custom_owner_drop(_this: &mut core::io::CustomOwner) {}
