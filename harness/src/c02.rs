use crate::ReplaySrc;
pub fn register(_v: &mut Vec<(&'static str, fn(&mut ReplaySrc))>) {}
