//! C02 — push-encoding helper: minimal push form for every data length.
use crate::{cov, okf, ReplaySrc, Src};
use bsv::{OpCodes, Script, VarInt};

/// Minimal push prefix per the script wire format: (bytes, len) or None when no push form exists.
pub fn spec_push_prefix(n: u64) -> Option<([u8; 5], usize)> {
    let mut b = [0u8; 5];
    if n == 0 || n > 0xffff_ffff {
        None
    } else if n <= 75 {
        b[0] = n as u8;
        Some((b, 1))
    } else if n <= 0xff {
        b[0] = 0x4c;
        b[1] = n as u8;
        Some((b, 2))
    } else if n <= 0xffff {
        b[0] = 0x4d;
        b[1] = n as u8;
        b[2] = (n >> 8) as u8;
        Some((b, 3))
    } else {
        b[0] = 0x4e;
        b[1] = n as u8;
        b[2] = (n >> 8) as u8;
        b[3] = (n >> 16) as u8;
        b[4] = (n >> 24) as u8;
        Some((b, 5))
    }
}

/// get_pushdata_bytes / get_pushdata_prefix_bytes return the minimal prefix for every
/// length 1..=2^32-1 and refuse lengths above 2^32-1.
pub fn push_prefix<S: Src>(s: &mut S) {
    let n = s.u64();
    s.assume(n >= 1);
    cov!(n == 75, "75");
    cov!(n == 76, "76");
    cov!(n == 255, "255");
    cov!(n == 256, "256");
    cov!(n == 65535, "65535");
    cov!(n == 65536, "65536");
    cov!(n == 0xffff_ffff, "2^32-1");
    cov!(n > 0xffff_ffff, "above 2^32-1");
    let got = okf(Script::get_pushdata_bytes(n as usize));
    let got2 = okf(Script::get_pushdata_prefix_bytes(n as usize));
    match spec_push_prefix(n) {
        Some((b, k)) => {
            assert!(got.is_some(), "get_pushdata_bytes rejects a length in 1..=2^32-1");
            assert!(got2.is_some(), "get_pushdata_prefix_bytes rejects a length in 1..=2^32-1");
            let g = got.unwrap();
            let g2 = got2.unwrap();
            assert!(g.len() == k && g2.len() == k, "push prefix is not the minimal form (length)");
            let mut i = 0;
            while i < k {
                assert!(g[i] == b[i] && g2[i] == b[i], "push prefix bytes differ from minimal form");
                i += 1;
            }
        }
        None => {
            assert!(got.is_none() && got2.is_none(), "push prefix returned for a length with no push form");
        }
    }
    cov!(true, "end");
}

/// VarInt::get_pushdata_opcode chooses the push opcode class of the minimal form.
pub fn push_opcode_class<S: Src>(s: &mut S) {
    let n = s.u64();
    cov!(n == 0x4b, "75");
    cov!(n == 0x4c, "76");
    cov!(n == 0x100, "256");
    cov!(n == 0x10000, "65536");
    let got = VarInt::get_pushdata_opcode(n);
    let want: Option<u8> = if n <= 75 {
        None
    } else if n <= 0xff {
        Some(0x4c)
    } else if n <= 0xffff {
        Some(0x4d)
    } else {
        Some(0x4e)
    };
    match (got, want) {
        (None, None) => {}
        (Some(o), Some(w)) => assert!(o as u8 == w, "get_pushdata_opcode chose the wrong push opcode"),
        _ => assert!(false, "get_pushdata_opcode direct-push/PUSHDATA class mismatch"),
    }
    let _ = OpCodes::OP_0;
    cov!(true, "end");
}

/// encode_pushdata(data) = minimal prefix ++ data, for data of length L (concrete L per instance).
pub fn encode_pushdata_n<S: Src, const L: usize>(s: &mut S) {
    let data: [u8; L] = s.bytes::<L>();
    let got = okf(Script::encode_pushdata(&data));
    assert!(got.is_some(), "encode_pushdata rejects data");
    let g = got.unwrap();
    let (b, k) = spec_push_prefix(L as u64).unwrap();
    assert!(g.len() == k + L, "encode_pushdata output length");
    let mut i = 0;
    while i < k {
        assert!(g[i] == b[i], "encode_pushdata prefix differs from minimal form");
        i += 1;
    }
    let mut j = 0;
    while j < L {
        assert!(g[k + j] == data[j], "encode_pushdata payload altered");
        j += 1;
    }
    cov!(true, "end");
}

pub fn register(v: &mut Vec<(&'static str, fn(&mut ReplaySrc))>) {
    v.push(("c02_push_prefix", push_prefix::<ReplaySrc>));
    v.push(("c02_push_opcode_class", push_opcode_class::<ReplaySrc>));
    v.push(("c02_encode_pushdata_1", encode_pushdata_n::<ReplaySrc, 1>));
    v.push(("c02_encode_pushdata_75", encode_pushdata_n::<ReplaySrc, 75>));
    v.push(("c02_encode_pushdata_76", encode_pushdata_n::<ReplaySrc, 76>));
    v.push(("c02_encode_pushdata_255", encode_pushdata_n::<ReplaySrc, 255>));
    v.push(("c02_encode_pushdata_256", encode_pushdata_n::<ReplaySrc, 256>));
}

#[cfg(kani)]
mod proofs {
    use super::*;
    use crate::KaniSrc;

    #[kani::proof]
    #[kani::unwind(8)]
    #[kani::stub(std::fmt::format, crate::stubs::fmt_format)]
    #[kani::stub(<core::io::CustomOwner as core::ops::Drop>::drop, crate::stubs::custom_owner_drop)]
    fn c02_push_prefix() {
        push_prefix(&mut KaniSrc)
    }

    #[kani::proof]
    #[kani::unwind(4)]
    #[kani::stub(std::fmt::format, crate::stubs::fmt_format)]
    fn c02_push_opcode_class() {
        push_opcode_class(&mut KaniSrc)
    }

    macro_rules! enc {
        ($name:ident, $l:expr, $u:expr) => {
            #[kani::proof]
            #[kani::unwind($u)]
            #[kani::stub(std::fmt::format, crate::stubs::fmt_format)]
            #[kani::stub(<core::io::CustomOwner as core::ops::Drop>::drop, crate::stubs::custom_owner_drop)]
            fn $name() {
                encode_pushdata_n::<KaniSrc, $l>(&mut KaniSrc)
            }
        };
    }
    enc!(c02_encode_pushdata_1, 1, 8);
    enc!(c02_encode_pushdata_75, 75, 78);
    enc!(c02_encode_pushdata_76, 76, 79);
    enc!(c02_encode_pushdata_255, 255, 258);
    enc!(c02_encode_pushdata_256, 256, 259);
}
