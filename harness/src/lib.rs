//! Harness crate for solver-based checking of bsv-wasm (/repo).
//!
//! Every property is written ONCE as a generic function over an input source
//! `S: Src`.  Under `cargo kani` the source is `KaniSrc` (every draw is a
//! `kani::any()`, i.e. a symbolic variable decided by CBMC's SAT back end);
//! natively the source is `ReplaySrc`, which feeds the concrete values of a
//! solver counterexample back into the *same* property function running
//! against the real, natively compiled crate (see src/bin/replay.rs).
//!
//! Discipline: a property function draws ALL of its inputs first, then runs
//! code.  Kani's concrete-playback lists nondeterministic values in trace
//! order, so the first N values are exactly the N draws.
#![cfg_attr(kani, feature(core_io, core_io_internals))]
#![allow(clippy::all)]
#![allow(dead_code)]

pub mod src;
pub use src::*;

pub mod stubs;

pub mod c01;
pub mod c02;
pub mod c06;
pub mod c07;
pub mod c09;
pub mod c14;

/// Registry used by the native replay binary: name -> property function.
pub fn registry() -> Vec<(&'static str, fn(&mut ReplaySrc))> {
    let mut v: Vec<(&'static str, fn(&mut ReplaySrc))> = Vec::new();
    c01::register(&mut v);
    c02::register(&mut v);
    c06::register(&mut v);
    c07::register(&mut v);
    c09::register(&mut v);
    c14::register(&mut v);
    v
}
