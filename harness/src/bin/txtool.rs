//! Native driver of the library's public transaction API, used by the mirsym engine for
//! (a) replaying SMT counterexamples against the real crate and (b) translator validation
//! (real outputs on concrete inputs vs. the evaluated SMT encoding).
//!   txtool <request.json>   -> prints one JSON array of per-op results
use bsv::*;
use serde_json::{json, Value};
use std::convert::TryFrom;
use std::panic::{catch_unwind, AssertUnwindSafe};

fn hx(v: &Value) -> Vec<u8> {
    hex::decode(v.as_str().unwrap_or("")).expect("hex")
}

fn mk_input(v: &Value) -> TxIn {
    let script = Script::from_bytes(&hx(&v["script"])).expect("input script must parse");
    let mut i = TxIn::new(&hx(&v["prev_tx_id"]), v["vout"].as_u64().unwrap() as u32, &script, Some(v["sequence"].as_u64().unwrap() as u32));
    if let Some(s) = v.get("satoshis").and_then(|x| x.as_u64()) {
        i.set_satoshis(s);
    }
    if let Some(l) = v.get("lockscript").and_then(|x| x.as_str()) {
        i.set_locking_script(&Script::from_bytes(&hex::decode(l).unwrap()).expect("locking script must parse"));
    }
    i
}

fn mk_output(v: &Value) -> TxOut {
    TxOut::new(v["value"].as_u64().unwrap(), &Script::from_bytes(&hx(&v["script"])).expect("output script must parse"))
}

fn build(v: &Value) -> Transaction {
    let mut tx = Transaction::new(v["version"].as_u64().unwrap() as u32, v["locktime"].as_u64().unwrap() as u32);
    for i in v["inputs"].as_array().unwrap() {
        tx.add_input(&mk_input(i));
    }
    for o in v["outputs"].as_array().unwrap() {
        tx.add_output(&mk_output(o));
    }
    tx
}

fn res_bytes(r: Result<Vec<u8>, BSVErrors>) -> Value {
    match r {
        Ok(b) => json!({ "ok": hex::encode(b) }),
        Err(e) => json!({ "err": e.to_string() }),
    }
}

fn run_op(tx: &mut Transaction, op: &Value) -> Value {
    let name = op["op"].as_str().unwrap();
    match name {
        "preimage" => {
            let flag = SigHash::try_from(op["flag"].as_u64().unwrap() as u8).expect("flag");
            let sub = Script::from_bytes(&hx(&op["subscript"])).expect("subscript must parse");
            res_bytes(tx.sighash_preimage(flag, op["idx"].as_u64().unwrap() as usize, &sub, op["value"].as_u64().unwrap()))
        }
        "add_input" => {
            tx.add_input(&mk_input(&op["input"]));
            json!({"unit": true})
        }
        "prepend_input" => {
            tx.prepend_input(&mk_input(&op["input"]));
            json!({"unit": true})
        }
        "insert_input" => {
            tx.insert_input(op["index"].as_u64().unwrap() as usize, &mk_input(&op["input"]));
            json!({"unit": true})
        }
        "set_input" => {
            tx.set_input(op["index"].as_u64().unwrap() as usize, &mk_input(&op["input"]));
            json!({"unit": true})
        }
        "add_output" => {
            tx.add_output(&mk_output(&op["output"]));
            json!({"unit": true})
        }
        "prepend_output" => {
            tx.prepend_output(&mk_output(&op["output"]));
            json!({"unit": true})
        }
        "insert_output" => {
            tx.insert_output(op["index"].as_u64().unwrap() as usize, &mk_output(&op["output"]));
            json!({"unit": true})
        }
        "set_output" => {
            tx.set_output(op["index"].as_u64().unwrap() as usize, &mk_output(&op["output"]));
            json!({"unit": true})
        }
        "set_version" => {
            let _ = tx.set_version(op["v"].as_u64().unwrap() as u32);
            json!({"unit": true})
        }
        "set_nlocktime" => {
            let _ = tx.set_nlocktime(op["v"].as_u64().unwrap() as u32);
            json!({"unit": true})
        }
        "clone" => {
            *tx = tx.clone();
            json!({"unit": true})
        }
        "reparse" => match tx.to_bytes().and_then(|b| Transaction::from_bytes(&b)) {
            Ok(t) => {
                *tx = t;
                json!({"unit": true})
            }
            Err(e) => json!({ "err": e.to_string() }),
        },
        "to_bytes" => res_bytes(tx.to_bytes()),
        "parse_fields" => {
            // serialise, parse back, and report every field of the parsed transaction in the request's own JSON shape
            match tx.to_bytes().and_then(|b| Transaction::from_bytes(&b)) {
                Ok(t) => {
                    let ins: Vec<Value> = (0..t.get_ninputs())
                        .map(|i| {
                            let x = t.get_input(i).unwrap();
                            json!({"prev_tx_id": hex::encode(x.get_prev_tx_id(None)), "vout": x.get_vout(), "script": x.get_unlocking_script_hex(), "sequence": x.get_sequence()})
                        })
                        .collect();
                    let outs: Vec<Value> = (0..t.get_noutputs())
                        .map(|i| {
                            let x = t.get_output(i).unwrap();
                            json!({"value": x.get_satoshis(), "script": x.get_script_pub_key_hex()})
                        })
                        .collect();
                    json!({"ok": {"version": t.get_version(), "locktime": t.get_n_locktime(), "inputs": ins, "outputs": outs}})
                }
                Err(e) => json!({ "err": e.to_string() }),
            }
        }
        "get_id" => res_bytes(tx.get_id_bytes()),
        "get_size" => match tx.get_size() {
            Ok(n) => json!({ "ok": n }),
            Err(e) => json!({ "err": e.to_string() }),
        },
        "satoshis_out" => json!({"ok": tx.satoshis_out()}),
        "satoshis_in" => json!({"ok": tx.satoshis_in()}),
        "is_coinbase" => json!({"ok": tx.is_coinbase()}),
        "outpoints" => json!({"ok": tx.get_outpoints().iter().map(hex::encode).collect::<Vec<_>>()}),
        "from_bytes" => match Transaction::from_bytes(&hx(&op["bytes"])) {
            Ok(t) => {
                *tx = t;
                json!({"unit": true})
            }
            Err(e) => json!({ "err": e.to_string() }),
        },
        "match_outputs" | "match_output" | "match_inputs" | "match_input" => {
            let mut c = MatchCriteria::new();
            if let Some(v) = op.get("exact").and_then(|x| x.as_u64()) {
                c.set_value(v);
            }
            if let Some(v) = op.get("min").and_then(|x| x.as_u64()) {
                c.set_min(v);
            }
            if let Some(v) = op.get("max").and_then(|x| x.as_u64()) {
                c.set_max(v);
            }
            match name {
                "match_outputs" => json!({"ok": tx.match_outputs(&c)}),
                "match_output" => json!({"ok": tx.match_output(&c)}),
                "match_inputs" => json!({"ok": tx.match_inputs(&c)}),
                _ => json!({"ok": tx.match_input(&c)}),
            }
        }
        // ---- operations that do not use the transaction -------------------------------------------------
        "compact_roundtrip" => {
            // parse a compact signature, re-serialise it (optionally with explicit recovery info)
            match Signature::from_compact_bytes(&hx(&op["bytes"])) {
                Ok(sig) => {
                    let ri = op.get("ri").and_then(|x| x.as_array()).map(|a| RecoveryInfo::new(a[0].as_bool().unwrap(), a[1].as_bool().unwrap(), a[2].as_bool().unwrap()));
                    json!({"ok": hex::encode(sig.to_compact_bytes(ri)), "r": hex::encode(sig.r()), "s": hex::encode(sig.s())})
                }
                Err(e) => json!({ "err": e.to_string() }),
            }
        }
        "interp" => {
            // run a script step by step; the first `setup_steps` steps only rebuild the initial stacks
            let script = Script::from_bytes(&hx(&op["script"])).expect("script must parse");
            let mut it = Interpreter::from_script(&script);
            let mut last: Option<State> = None;
            let mut failed: Option<String> = None;
            while let Some(r) = it.next() {
                match r {
                    Ok(s) => last = Some(s),
                    Err(e) => {
                        failed = Some(e.to_string());
                        break;
                    }
                }
            }
            let st = it.state();
            let dump = |s: &State| json!({"stack": s.stack.iter().map(hex::encode).collect::<Vec<_>>(), "alt": s.alt_stack.iter().map(hex::encode).collect::<Vec<_>>()});
            match failed {
                Some(e) => json!({"err": e, "state_after_error": dump(&st), "last_ok": last.as_ref().map(|s| dump(s))}),
                None => json!({ "ok": dump(&st) }),
            }
        }
        "template_match" => {
            let script = Script::from_bytes(&hx(&op["script"])).expect("script must parse");
            match ScriptTemplate::from_asm_string(op["template"].as_str().unwrap()) {
                Ok(t) => match script.matches(&t) {
                    Ok(v) => json!({"ok": v.iter().map(|(k, d)| json!([k.to_string(), hex::encode(d)])).collect::<Vec<_>>()}),
                    Err(e) => json!({ "err": e.to_string() }),
                },
                Err(e) => json!({ "toolerror": e.to_string() }),
            }
        }
        "decode" => {
            // decoder totality: every kind must come back with ok/err; a panic is caught by the caller of run_op
            let kind = op["kind"].as_str().unwrap();
            let bytes = op.get("hex").map(|h| hx(h)).unwrap_or_default();
            let text = op.get("text").and_then(|t| t.as_str()).unwrap_or("");
            let r: Result<(), String> = match kind {
                "ecies" => ECIESCiphertext::from_bytes(&bytes, op["flag"].as_bool().unwrap_or(false)).map(|_| ()).map_err(|e| e.to_string()),
                "wif" => PrivateKey::from_wif(text).map(|_| ()).map_err(|e| e.to_string()),
                "address" => P2PKHAddress::from_string(text).map(|_| ()).map_err(|e| e.to_string()),
                "xprv" => ExtendedPrivateKey::from_string(text).map(|_| ()).map_err(|e| e.to_string()),
                "xpub" => ExtendedPublicKey::from_string(text).map(|_| ()).map_err(|e| e.to_string()),
                "verify_hashbuf" | "sign_digest" | "recover_digest" => {
                    let key = PrivateKey::from_bytes(&[7u8; 32]).unwrap();
                    let pk = key.to_public_key().unwrap();
                    let sig = key.sign_message(b"m").unwrap();
                    match kind {
                        "verify_hashbuf" => ECDSA::verify_hashbuf(&bytes, &pk, &sig).map(|_| ()).map_err(|e| e.to_string()),
                        "sign_digest" => ECDSA::sign_digest_with_deterministic_k(&key, &bytes).map(|_| ()).map_err(|e| e.to_string()),
                        _ => sig.recover_public_key_from_digest(&bytes).map(|_| ()).map_err(|e| e.to_string()),
                    }
                }
                "aes" => {
                    let algo = match op["algo"].as_str().unwrap() {
                        "AES128_CBC" => AESAlgorithms::AES128_CBC,
                        "AES256_CBC" => AESAlgorithms::AES256_CBC,
                        "AES128_CTR" => AESAlgorithms::AES128_CTR,
                        _ => AESAlgorithms::AES256_CTR,
                    };
                    let (k, iv, m) = (hx(&op["key"]), hx(&op["iv"]), hx(&op["message"]));
                    if op["decrypt"].as_bool().unwrap_or(false) {
                        AES::decrypt(&k, &iv, &m, algo).map(|_| ()).map_err(|e| e.to_string())
                    } else {
                        AES::encrypt(&k, &iv, &m, algo).map(|_| ()).map_err(|e| e.to_string())
                    }
                }
                "pubkey_use" => {
                    // decode a public key, then use it through the public API: decompress, verify against a digest, interpreter-style tx verification
                    match PublicKey::from_bytes(&bytes) {
                        Err(e) => Err(e.to_string()),
                        Ok(pk) => {
                            let key = PrivateKey::from_bytes(&[7u8; 32]).unwrap();
                            let sig = key.sign_message(b"m").unwrap();
                            let _ = pk.to_decompressed();
                            let _ = pk.to_compressed();
                            let _ = ECDSA::verify_hashbuf(&[1u8; 32], &pk, &sig);
                            let _ = ECDSA::verify_digest(b"m", &pk, &sig, SigningHash::Sha256);
                            let _ = P2PKHAddress::from_pubkey(&pk);
                            let _ = ECDH::derive_shared_key(&key, &pk);
                            let _ = ECIES::derive_cipher_keys(&key, &pk);
                            Ok(())
                        }
                    }
                }
                "outpoint" => TxIn::from_outpoint_bytes(&bytes).map(|_| ()).map_err(|e| e.to_string()),
                "compact" => Signature::from_compact_bytes(&bytes).map(|_| ()).map_err(|e| e.to_string()),
                "sighash_sig" => SighashSignature::from_bytes(&bytes, &[]).map(|_| ()).map_err(|e| e.to_string()),
                "tx" => Transaction::from_bytes(&bytes).map(|_| ()).map_err(|e| e.to_string()),
                "txin" => TxIn::from_hex(&hex::encode(&bytes)).map(|_| ()).map_err(|e| e.to_string()),
                "txout" => TxOut::from_hex(&hex::encode(&bytes)).map(|_| ()).map_err(|e| e.to_string()),
                "script" => Script::from_bytes(&bytes).map(|_| ()).map_err(|e| e.to_string()),
                other => Err(format!("unknown decode kind {}", other)),
            };
            match r {
                Ok(()) => json!({"ok": true}),
                Err(e) => json!({ "err": e }),
            }
        }
        "script_roundtrip" => match Script::from_bytes(&hx(&op["hex"])) {
            Ok(mut sc) => {
                if op["remove_codeseparators"].as_bool().unwrap_or(false) {
                    sc.remove_codeseparators();
                }
                json!({ "ok": hex::encode(sc.to_bytes()) })
            }
            Err(e) => json!({ "err": e.to_string() }),
        },
        "wif_roundtrip" => {
            // encode a key as WIF with the library, decode it again, report what came back
            let key = PrivateKey::from_bytes(&hx(&op["key"])).expect("key").compress_public_key(op["compressed"].as_bool().unwrap());
            let wif = key.to_wif().expect("wif");
            match PrivateKey::from_wif(&wif) {
                Ok(k) => {
                    let pk = k.to_public_key().expect("pubkey");
                    json!({"ok": {"key": hex::encode(k.to_bytes()), "compressed": pk.is_compressed()}})
                }
                Err(e) => json!({ "err": e.to_string() }),
            }
        }
        "ecies" => {
            // library BIE1 vs an independent construction from the primitives; reparse; decrypt; single-bit tamper sweep
            use aes::Aes128;
            use block_modes::{block_padding::Pkcs7, BlockMode, Cbc};
            use hmac::{Hmac, Mac, NewMac};
            use k256::elliptic_curve::sec1::ToEncodedPoint;
            use sha2::{Digest, Sha256, Sha512};
            let sk_s = hx(&op["sender"]);
            let sk_r = hx(&op["recipient"]);
            let msg = hx(&op["message"]);
            let exclude = op["exclude"].as_bool().unwrap_or(false);
            let compressed = op["sender_compressed"].as_bool().unwrap_or(true);
            let sender = PrivateKey::from_bytes(&sk_s).unwrap().compress_public_key(compressed);
            let recipient = PrivateKey::from_bytes(&sk_r).unwrap();
            let rpub = PublicKey::from_private_key(&recipient);
            let spub = PublicKey::from_private_key(&sender);
            let ct = match ECIES::encrypt(&msg, &sender, &rpub, exclude) {
                Ok(c) => c,
                Err(e) => return json!({ "err": e.to_string() }),
            };
            let lib = ct.to_bytes();
            // reference
            let s_scalar = k256::SecretKey::from_be_bytes(&sk_s).unwrap();
            let r_secret = k256::SecretKey::from_be_bytes(&sk_r).unwrap();
            let r_point = r_secret.public_key().to_projective();
            let shared = (r_point * *s_scalar.to_nonzero_scalar()).to_affine().to_encoded_point(true);
            let h = Sha512::digest(shared.as_bytes());
            let (iv, ke, km) = (&h[0..16], &h[16..32], &h[32..64]);
            let body = Cbc::<Aes128, Pkcs7>::new_from_slices(ke, iv).unwrap().encrypt_vec(&msg);
            let mut reference = b"BIE1".to_vec();
            if !exclude {
                reference.extend_from_slice(s_scalar.public_key().to_encoded_point(true).as_bytes());
            }
            reference.extend_from_slice(&body);
            let mut mac = Hmac::<Sha256>::new_from_slice(km).unwrap();
            mac.update(&reference);
            let tag = mac.finalize().into_bytes();
            reference.extend_from_slice(&tag);
            // reparse + decrypt
            let reparsed = ECIESCiphertext::from_bytes(&lib, !exclude);
            let (reparse_equal, roundtrip) = match &reparsed {
                Ok(c2) => (c2.to_bytes() == lib, matches!(ECIES::decrypt(c2, &recipient, &spub), Ok(ref m) if *m == msg)),
                Err(_) => (false, false),
            };
            let direct = matches!(ECIES::decrypt(&ct, &recipient, &spub), Ok(ref m) if *m == msg);
            // tamper: flip one bit of every byte after the magic (the key prefix byte 02<->03 stays a valid point)
            let mut accepted = vec![];
            for pos in 4..lib.len() {
                let mut t = lib.clone();
                t[pos] ^= 1;
                let r = catch_unwind(AssertUnwindSafe(|| match ECIESCiphertext::from_bytes(&t, !exclude) {
                    Ok(c3) => ECIES::decrypt(&c3, &recipient, &spub).is_ok(),
                    Err(_) => false,
                }));
                if !matches!(r, Ok(false)) {
                    accepted.push(pos);
                }
            }
            let other = PrivateKey::from_bytes(&[7u8; 32]).unwrap();
            let wrong_key = ECIES::decrypt(&ct, &other, &spub).is_ok();
            json!({ "ok": { "lib": hex::encode(&lib), "matches_reference": lib == reference, "reparse_equal": reparse_equal, "roundtrip": roundtrip && direct, "tamper_accepted": accepted, "wrong_key_accepted": wrong_key } })
        }
        "aes_check" => {
            use aes::cipher::{NewCipher, StreamCipher};
            use aes::{Aes128, Aes128Ctr, Aes256, Aes256Ctr};
            use block_modes::{block_padding::Pkcs7, BlockMode, Cbc};
            let (key, iv, msg) = (hx(&op["key"]), hx(&op["iv"]), hx(&op["message"]));
            let (algo, reference) = match op["algo"].as_str().unwrap() {
                "AES128_CBC" => (AESAlgorithms::AES128_CBC, Cbc::<Aes128, Pkcs7>::new_from_slices(&key, &iv).unwrap().encrypt_vec(&msg)),
                "AES256_CBC" => (AESAlgorithms::AES256_CBC, Cbc::<Aes256, Pkcs7>::new_from_slices(&key, &iv).unwrap().encrypt_vec(&msg)),
                "AES128_CTR" => {
                    let mut d = msg.clone();
                    Aes128Ctr::new_from_slices(&key, &iv).unwrap().apply_keystream(&mut d);
                    (AESAlgorithms::AES128_CTR, d)
                }
                _ => {
                    let mut d = msg.clone();
                    Aes256Ctr::new_from_slices(&key, &iv).unwrap().apply_keystream(&mut d);
                    (AESAlgorithms::AES256_CTR, d)
                }
            };
            let algo2 = match op["algo"].as_str().unwrap() {
                "AES128_CBC" => AESAlgorithms::AES128_CBC,
                "AES256_CBC" => AESAlgorithms::AES256_CBC,
                "AES128_CTR" => AESAlgorithms::AES128_CTR,
                _ => AESAlgorithms::AES256_CTR,
            };
            match AES::encrypt(&key, &iv, &msg, algo) {
                Ok(ct) => {
                    let back = AES::decrypt(&key, &iv, &ct, algo2);
                    // decryption of corrupted ciphertexts must agree (value or rejection) with the reference implementation
                    let name = op["algo"].as_str().unwrap();
                    let mut corrupt_agrees = true;
                    for pos in (0..ct.len()).filter(|p| *p < 48 || *p + 48 >= ct.len()) {
                        for bit in [1u8, 0x80] {
                            let mut t = ct.clone();
                            t[pos] ^= bit;
                            let want: Option<Vec<u8>> = match name {
                                "AES128_CBC" => Cbc::<Aes128, Pkcs7>::new_from_slices(&key, &iv).unwrap().decrypt_vec(&t).ok(),
                                "AES256_CBC" => Cbc::<Aes256, Pkcs7>::new_from_slices(&key, &iv).unwrap().decrypt_vec(&t).ok(),
                                "AES128_CTR" => {
                                    let mut d = t.clone();
                                    Aes128Ctr::new_from_slices(&key, &iv).unwrap().apply_keystream(&mut d);
                                    Some(d)
                                }
                                _ => {
                                    let mut d = t.clone();
                                    Aes256Ctr::new_from_slices(&key, &iv).unwrap().apply_keystream(&mut d);
                                    Some(d)
                                }
                            };
                            let a3 = match name {
                                "AES128_CBC" => AESAlgorithms::AES128_CBC,
                                "AES256_CBC" => AESAlgorithms::AES256_CBC,
                                "AES128_CTR" => AESAlgorithms::AES128_CTR,
                                _ => AESAlgorithms::AES256_CTR,
                            };
                            if AES::decrypt(&key, &iv, &t, a3).ok() != want {
                                corrupt_agrees = false;
                            }
                        }
                    }
                    // truncated ciphertext (CBC: not a block multiple) must be rejected
                    if name.ends_with("CBC") && ct.len() > 1 {
                        let a4 = if name == "AES128_CBC" { AESAlgorithms::AES128_CBC } else { AESAlgorithms::AES256_CBC };
                        if AES::decrypt(&key, &iv, &ct[..ct.len() - 1], a4).is_ok() {
                            corrupt_agrees = false;
                        }
                    }
                    json!({ "ok": { "matches_reference": ct == reference, "roundtrip": matches!(back, Ok(ref m) if *m == msg), "corrupted_ciphertexts_agree_with_reference": corrupt_agrees } })
                }
                Err(e) => json!({ "err": e.to_string() }),
            }
        }
        "bip32" => {
            // library vs an independent BIP32 (HMAC-SHA512, k256 arithmetic, Base58Check) along a path of indices; neutering; string corruption
            use hmac::{Hmac, Mac, NewMac};
            use k256::elliptic_curve::sec1::ToEncodedPoint;
            use sha2::{Digest, Sha256, Sha512};
            fn h512(key: &[u8], data: &[u8]) -> Vec<u8> {
                let mut m = Hmac::<Sha512>::new_from_slice(key).unwrap();
                m.update(data);
                m.finalize().into_bytes().to_vec()
            }
            fn pubc(k: &[u8]) -> Vec<u8> {
                k256::SecretKey::from_be_bytes(k).unwrap().public_key().to_encoded_point(true).as_bytes().to_vec()
            }
            fn h160(b: &[u8]) -> Vec<u8> {
                use ripemd160::Ripemd160;
                Ripemd160::digest(&Sha256::digest(b)).to_vec()
            }
            fn ser(version: u32, depth: u8, fp: &[u8], index: u32, chain: &[u8], key: &[u8]) -> String {
                let mut b = version.to_be_bytes().to_vec();
                b.push(depth);
                b.extend_from_slice(fp);
                b.extend_from_slice(&index.to_be_bytes());
                b.extend_from_slice(chain);
                if key.len() == 32 {
                    b.push(0);
                }
                b.extend_from_slice(key);
                let c = Sha256::digest(&Sha256::digest(&b));
                b.extend_from_slice(&c[0..4]);
                bs58::encode(b).into_string()
            }
            let seed = hx(&op["seed"]);
            let path: Vec<u32> = op["path"].as_array().unwrap().iter().map(|v| v.as_u64().unwrap() as u32).collect();
            let mut problems: Vec<String> = vec![];
            let mut corrupt: Vec<String> = vec![];
            let i = h512(b"Bitcoin seed", &seed);
            let (mut k, mut c) = (i[0..32].to_vec(), i[32..64].to_vec());
            let (mut depth, mut fp, mut idx) = (0u8, vec![0u8; 4], 0u32);
            let mut lib = match ExtendedPrivateKey::from_seed(&seed) {
                Ok(x) => x,
                Err(e) => return json!({ "err": e.to_string() }),
            };
            let mut step = 0;
            loop {
                let want_prv = ser(0x0488ade4, depth, &fp, idx, &c, &k);
                let want_pub = ser(0x0488b21e, depth, &fp, idx, &c, &pubc(&k));
                let got_prv = lib.to_string().unwrap_or_default();
                let xpub = ExtendedPublicKey::from_xpriv(&lib);
                let got_pub = xpub.to_string().unwrap_or_default();
                if got_prv != want_prv {
                    problems.push(format!("step {}: xprv {} != reference {}", step, got_prv, want_prv));
                }
                if got_pub != want_pub {
                    problems.push(format!("step {}: xpub {} != reference {}", step, got_pub, want_pub));
                }
                // string round trips
                match ExtendedPrivateKey::from_string(&got_prv).and_then(|x| x.to_string()) {
                    Ok(s2) if s2 == got_prv => {}
                    other => problems.push(format!("step {}: xprv string does not round-trip: {:?}", step, other.map_err(|e| e.to_string()))),
                }
                match ExtendedPublicKey::from_string(&got_pub).and_then(|x| x.to_string()) {
                    Ok(s2) if s2 == got_pub => {}
                    other => problems.push(format!("step {}: xpub string does not round-trip: {:?}", step, other.map_err(|e| e.to_string()))),
                }
                // corruption: every byte position of the 82-byte payload, one bit flipped, must be rejected
                for (label, text) in [("xprv", &want_prv), ("xpub", &want_pub)] {
                    let raw = bs58::decode(text.as_str()).into_vec().unwrap();
                    for pos in 0..raw.len() {
                        let mut t = raw.clone();
                        t[pos] ^= 1;
                        let st = bs58::encode(t).into_string();
                        let accepted = catch_unwind(AssertUnwindSafe(|| if label == "xprv" { ExtendedPrivateKey::from_string(&st).is_ok() } else { ExtendedPublicKey::from_string(&st).is_ok() }));
                        if !matches!(accepted, Ok(false)) {
                            corrupt.push(format!("{}@step{}:byte{}", label, step, pos));
                        }
                    }
                }
                if step >= path.len() {
                    break;
                }
                let index = path[step];
                // neutered derivation
                let pub_child = xpub.derive(index);
                if index >= 0x80000000 {
                    if pub_child.is_ok() {
                        problems.push(format!("step {}: hardened derivation from xpub accepted", step));
                    }
                }
                // reference CKDpriv
                let mut data = if index >= 0x80000000 { let mut d = vec![0u8]; d.extend_from_slice(&k); d } else { pubc(&k) };
                data.extend_from_slice(&index.to_be_bytes());
                let i = h512(&c, &data);
                let parent = *k256::SecretKey::from_be_bytes(&k).unwrap().to_nonzero_scalar();
                let il = match k256::SecretKey::from_be_bytes(&i[0..32]) { Ok(s) => *s.to_nonzero_scalar(), Err(_) => break };
                let child = parent + il;
                fp = h160(&pubc(&k))[0..4].to_vec();
                k = child.to_bytes().to_vec();
                c = i[32..64].to_vec();
                depth += 1;
                idx = index;
                lib = match lib.derive(index) {
                    Ok(x) => x,
                    Err(e) => { problems.push(format!("step {}: derive failed: {}", step, e)); break }
                };
                if index < 0x80000000 {
                    match pub_child.and_then(|x| x.to_string()) {
                        Ok(sx) => {
                            let neutered = ExtendedPublicKey::from_xpriv(&lib).to_string().unwrap_or_default();
                            if sx != neutered {
                                problems.push(format!("step {}: public derivation {} != neutered private derivation {}", step, sx, neutered));
                            }
                        }
                        Err(e) => problems.push(format!("step {}: public derivation failed: {}", step, e)),
                    }
                }
                step += 1;
            }
            problems.truncate(6);
            let n_corrupt = corrupt.len();
            corrupt.truncate(4);
            json!({ "ok": { "problems": problems, "corrupted_strings_accepted": n_corrupt, "corrupted_examples": corrupt } })
        }
        "bip32_path" => {
            // derive_from_path("m/<component>") must equal derive(index) with the independently parsed index (or fail when that is out of range)
            let comp = op["component"].as_str().unwrap().to_string();
            let (digits, hardened) = match comp.chars().last() {
                Some('\'') | Some('h') | Some('H') => (&comp[..comp.len() - 1], true),
                _ => (&comp[..], false),
            };
            let value: Option<u64> = if !digits.is_empty() && digits.chars().all(|c| c.is_ascii_digit()) { digits.parse::<u64>().ok() } else { None };
            let want: Option<u32> = match value {
                Some(v) if v < 0x80000000 => Some(v as u32 + if hardened { 0x80000000 } else { 0 }),
                _ => None,
            };
            let mut problems: Vec<String> = vec![];
            let xprv = ExtendedPrivateKey::from_seed(&[0x42u8; 32]).unwrap();
            let xpub = ExtendedPublicKey::from_xpriv(&xprv);
            let path = format!("m/{}", comp);
            let got = xprv.derive_from_path(&path).and_then(|x| x.to_string()).ok();
            let exp = want.and_then(|i| xprv.derive(i).and_then(|x| x.to_string()).ok());
            if got != exp {
                problems.push(format!("xprv derive_from_path({}) = {:?}, derive({:?}) = {:?}", path, got, want, exp));
            }
            let gotp = xpub.derive_from_path(&path).and_then(|x| x.to_string()).ok();
            let expp = want.and_then(|i| xpub.derive(i).and_then(|x| x.to_string()).ok());
            if gotp != expp {
                problems.push(format!("xpub derive_from_path({}) = {:?}, derive({:?}) = {:?}", path, gotp, want, expp));
            }
            json!({ "ok": { "problems": problems } })
        }
        "ecdsa_check" => {
            // every signing entry point: verifies under the same hash choice, not under the other / another key / another message; low-S;
            // deterministic (plain nonce mode) = independent RFC 6979 + low-S; ECDH symmetric
            use ::ecdsa::hazmat::{rfc6979_generate_k, SignPrimitive};
            use k256::elliptic_curve::ops::Reduce;
            use sha2::{Digest, Sha256};
            let key = hx(&op["key"]);
            let msg = hx(&op["message"]);
            let compressed = op["compressed"].as_bool().unwrap_or(true);
            let sk = PrivateKey::from_bytes(&key).unwrap().compress_public_key(compressed);
            let pk = sk.to_public_key().unwrap();
            let other = PrivateKey::from_bytes(&[0x33u8; 32]).unwrap();
            let other_pk = other.to_public_key().unwrap();
            let mut problems: Vec<String> = vec![];
            let half_n = hex::decode("7fffffffffffffffffffffffffffffff5d576e7357a4501ddfe92f46681b20a0").unwrap();
            let mut other_msg = msg.clone();
            other_msg.push(1);
            for (aname, algo, oalgo) in [("Sha256", SigningHash::Sha256, SigningHash::Sha256d), ("Sha256d", SigningHash::Sha256d, SigningHash::Sha256)] {
                let mut sigs: Vec<(String, Signature)> = vec![];
                for rev in [false, true] {
                    match ECDSA::sign_with_deterministic_k(&sk, &msg, algo, rev) {
                        Ok(s1) => {
                            match ECDSA::sign_with_deterministic_k(&sk, &msg, algo, rev) {
                                Ok(s2) if s2.to_der_bytes() == s1.to_der_bytes() => {}
                                _ => problems.push(format!("{} deterministic reverse_k={} is not reproducible", aname, rev)),
                            }
                            sigs.push((format!("deterministic(reverse_k={})", rev), s1));
                        }
                        Err(e) => problems.push(format!("{} deterministic reverse_k={} failed: {}", aname, rev, e)),
                    }
                    match ECDSA::sign_with_random_k(&sk, &msg, algo, rev) {
                        Ok(s1) => sigs.push((format!("random(reverse_k={})", rev), s1)),
                        Err(e) => problems.push(format!("{} random reverse_k={} failed: {}", aname, rev, e)),
                    }
                }
                match ECDSA::sign_with_k(&sk, &other, &msg, algo) {
                    Ok(s1) => sigs.push(("with_k".into(), s1)),
                    Err(e) => problems.push(format!("{} with_k failed: {}", aname, e)),
                }
                for (name, sig) in &sigs {
                    if !ECDSA::verify_digest(&msg, &pk, sig, algo).unwrap_or(false) {
                        problems.push(format!("{} {}: signature does not verify", aname, name));
                    }
                    if ECDSA::verify_digest(&msg, &pk, sig, oalgo).unwrap_or(false) {
                        problems.push(format!("{} {}: verifies under the other hash choice", aname, name));
                    }
                    if ECDSA::verify_digest(&other_msg, &pk, sig, algo).unwrap_or(false) {
                        problems.push(format!("{} {}: verifies for a different message", aname, name));
                    }
                    if ECDSA::verify_digest(&msg, &other_pk, sig, algo).unwrap_or(false) {
                        problems.push(format!("{} {}: verifies under a different key", aname, name));
                    }
                    if sig.s() > half_n {
                        problems.push(format!("{} {}: high S", aname, name));
                    }
                    match sig.recover_public_key(&msg, algo) {
                        Ok(rk) if rk.to_bytes().ok() == pk.to_bytes().ok() => {}
                        _ => problems.push(format!("{} {}: recovery info does not recover the signer's key", aname, name)),
                    }
                }
                // independent RFC 6979 (HMAC-SHA256) + low-S
                let h1 = Sha256::digest(&msg);
                let digest = if aname == "Sha256" { h1 } else { Sha256::digest(&h1) };
                let d = *k256::SecretKey::from_be_bytes(&key).unwrap().to_nonzero_scalar();
                let z = <k256::Scalar as Reduce<k256::U256>>::from_be_bytes_reduced(digest);
                let k = rfc6979_generate_k::<k256::Secp256k1, Sha256>(&k256::SecretKey::from_be_bytes(&key).unwrap().to_nonzero_scalar(), &z, &[]);
                if let Ok((rs, _)) = d.try_sign_prehashed(**k, z) {
                    let mut rs = rs;
                    let _ = rs.normalize_s();
                    let want = rs.to_der().as_bytes().to_vec();
                    if let Some((_, s1)) = sigs.iter().find(|(n, _)| n == "deterministic(reverse_k=false)") {
                        if s1.to_der_bytes() != want {
                            problems.push(format!("{} deterministic(reverse_k=false) != independent RFC 6979: {} vs {}", aname, hex::encode(s1.to_der_bytes()), hex::encode(&want)));
                        }
                    }
                    if aname == "Sha256" {
                        if let Ok(s3) = ECDSA::sign_digest_with_deterministic_k(&sk, &digest) {
                            if !ECDSA::verify_hashbuf(&digest, &pk, &s3).unwrap_or(false) {
                                problems.push("digest signer: signature does not verify against the digest".into());
                            }
                            if s3.s() > half_n {
                                problems.push("digest signer: high S".into());
                            }
                            if s3.to_der_bytes() != want {
                                problems.push("digest signer: signature != independent RFC 6979 over the digest".into());
                            }
                        } else {
                            problems.push("digest signer failed".into());
                        }
                    }
                }
            }
            let a = ECDH::derive_shared_key(&sk, &other_pk).ok();
            let b = ECDH::derive_shared_key(&other, &pk).ok();
            if a.is_none() || a != b {
                problems.push("ECDH is not symmetric".into());
            }
            problems.truncate(8);
            json!({ "ok": { "problems": problems } })
        }
        "checksig" => {
            // spends assembled and signed through the API must be accepted; any change to signed data, value, key, signature or flag must be rejected
            fn accepted(tx: &Transaction, idx: usize) -> Result<bool, String> {
                let r = catch_unwind(AssertUnwindSafe(|| {
                    let mut i = match Interpreter::from_transaction(tx, idx) {
                        Ok(i) => i,
                        Err(_) => return false,
                    };
                    match i.run() {
                        Ok(()) => i.state().stack().last().map(|t| t.iter().any(|b| *b != 0)).unwrap_or(false),
                        Err(_) => false,
                    }
                }));
                r.map_err(|_| "panic".to_string())
            }
            let flag_byte = op["flag"].as_u64().unwrap_or(0x41) as u8;
            let flag = SigHash::try_from(flag_byte).unwrap();
            let value = op["value"].as_u64().unwrap_or(5000);
            let kind = op["kind"].as_str().unwrap_or("p2pkh");
            let keys: Vec<PrivateKey> = (1u8..=3).map(|i| PrivateKey::from_bytes(&[i * 17; 32]).unwrap()).collect();
            let pubs: Vec<PublicKey> = keys.iter().map(|k| k.to_public_key().unwrap()).collect();
            let pubhex: Vec<String> = pubs.iter().map(|p| p.to_hex().unwrap()).collect();
            // locking script (with a code separator in front when asked) and the subscript the signatures commit to
            let sep = op["separator"].as_bool().unwrap_or(false);
            let (m, n) = (op["m"].as_u64().unwrap_or(2) as usize, op["n"].as_u64().unwrap_or(3) as usize);
            let core = match kind {
                "p2pk" => format!("{} OP_CHECKSIG", pubhex[0]),
                "p2pkh" => format!("OP_DUP OP_HASH160 {} OP_EQUALVERIFY OP_CHECKSIG", Hash::hash_160(&pubs[0].to_bytes().unwrap()).to_hex()),
                _ => format!("OP_{} {} OP_{} OP_CHECKMULTISIG", m, pubhex[..n].join(" "), n),
            };
            let lock_asm = match op["lock_tpl"].as_str() {
                // a caller-supplied locking script around the core (conditionals / separators in front of it)
                Some(tpl) => tpl.replace("{core}", &core),
                None if sep => format!("OP_1 OP_DROP OP_CODESEPARATOR {}", core),
                None => core.clone(),
            };
            let locking = match Script::from_asm_string(&lock_asm) {
                Ok(l) => l,
                Err(e) => return json!({ "err": format!("lock_tpl: {}", e) }),
            };
            // reference subscript: opcodes still to be serialised after a separator inside a running branch (rest of the branch, OP_ENDIF), then the core
            let mut sub_bits: Vec<ScriptBit> = vec![];
            for nm in op["sub_prefix_ops"].as_array().cloned().unwrap_or_default() {
                match <OpCodes as std::str::FromStr>::from_str(nm.as_str().unwrap_or("")) {
                    Ok(code) => sub_bits.push(ScriptBit::OpCode(code)),
                    Err(_) => return json!({ "err": "sub_prefix_ops: unknown opcode" }),
                }
            }
            sub_bits.extend(Script::from_asm_string(&core).unwrap().to_script_bits());
            let subscript = Script::from_script_bits(sub_bits);
            let mut tx = Transaction::new(2, 7);
            let mut other = TxIn::new(&[9u8; 32], 1, &Script::from_asm_string("OP_1").unwrap(), Some(0xfffffffe));
            other.set_satoshis(1);
            other.set_locking_script(&Script::from_asm_string("OP_1").unwrap());
            let mut txin = TxIn::new(&[3u8; 32], 2, &Script::default(), Some(0xffffffff));
            txin.set_satoshis(value);
            txin.set_locking_script(&locking);
            tx.add_input(&other);
            tx.add_input(&txin);
            tx.add_output(&TxOut::new(1234, &Script::from_asm_string("OP_2").unwrap()));
            tx.add_output(&TxOut::new(99, &Script::from_asm_string("OP_3 OP_4").unwrap()));
            let idx = 1usize;
            let signers: Vec<usize> = if kind == "multisig" { (n - m..n).collect() } else { vec![0] };
            let mut sigs: Vec<String> = vec![];
            for k in &signers {
                sigs.push(tx.sign(&keys[*k], flag, idx, &subscript, value).unwrap().to_hex().unwrap());
            }
            let unlock_asm = |sigs: &Vec<String>| match kind {
                "p2pk" => sigs[0].clone(),
                "p2pkh" => format!("{} {}", sigs[0], pubhex[0]),
                _ => format!("OP_0 {}", sigs.join(" ")),
            };
            let with_unlock = |tx: &Transaction, asm: &str| {
                let mut t = tx.clone();
                let mut i = t.get_input(idx).unwrap();
                i.set_unlocking_script(&Script::from_asm_string(asm).unwrap());
                t.set_input(idx, &i);
                t
            };
            let good = with_unlock(&tx, &unlock_asm(&sigs));
            let mut depth_problems: Vec<String> = vec![];
            {
                // the signature opcodes consume exactly their operands: a standard spend leaves one item
                let depth = catch_unwind(AssertUnwindSafe(|| {
                    let mut i = Interpreter::from_transaction(&good, idx).ok()?;
                    i.run().ok()?;
                    Some(i.state().stack().len())
                }));
                if !matches!(depth, Ok(Some(1))) {
                    depth_problems.push(format!("spend signed through the API: final stack depth {:?}, expected 1", depth));
                }
            }
            let mut problems: Vec<String> = vec![];
            let mut expect = |what: &str, t: &Transaction, want: bool| match accepted(t, idx) {
                Ok(got) if got == want => {}
                Ok(got) => problems.push(format!("{}: accepted={} expected={}", what, got, want)),
                Err(e) => problems.push(format!("{}: {}", what, e)),
            };
            expect("spend signed through the API", &good, true);
            let base = flag_byte & 0x1f;
            let forkid = flag_byte & 0x40 != 0;
            let acp = flag_byte & 0x80 != 0;
            // signed-field mutations (only those the flag commits to)
            {
                let mut t = good.clone();
                t.set_version(3);
                expect("version changed after signing", &t, false);
                let mut t = good.clone();
                t.set_nlocktime(8);
                expect("locktime changed after signing", &t, false);
                if base == 1 {
                    let mut t = good.clone();
                    t.set_output(1, &TxOut::new(100, &Script::from_asm_string("OP_3 OP_4").unwrap()));
                    expect("an output value changed after signing", &t, false);
                }
                if !acp {
                    let mut t = good.clone();
                    let mut o = t.get_input(0).unwrap();
                    o.set_vout(5);
                    t.set_input(0, &o);
                    expect("another input's outpoint changed after signing", &t, false);
                }
                if forkid {
                    let mut t = good.clone();
                    let mut i = t.get_input(idx).unwrap();
                    i.set_satoshis(value + 1);
                    t.set_input(idx, &i);
                    expect("declared value of the spent output changed after signing", &t, false);
                }
                let mut t = good.clone();
                let mut i = t.get_input(idx).unwrap();
                i.set_sequence(5);
                t.set_input(idx, &i);
                expect("own sequence changed after signing", &t, false);
            }
            // signature / flag / key mutations
            {
                let mut s2 = sigs.clone();
                let mut raw = hex::decode(&s2[0]).unwrap();
                let l = raw.len();
                raw[l - 3] ^= 1;
                s2[0] = hex::encode(&raw);
                expect("one signature byte flipped", &with_unlock(&tx, &unlock_asm(&s2)), false);
                let mut s3 = sigs.clone();
                let mut raw = hex::decode(&s3[0]).unwrap();
                let l = raw.len();
                raw[l - 1] = if flag_byte == 0x41 { 0x42 } else { 0x41 };
                s3[0] = hex::encode(&raw);
                expect("flag byte of the signature changed", &with_unlock(&tx, &unlock_asm(&s3)), false);
                // signature by a key that is not the designated one
                let mut s4 = sigs.clone();
                let stranger = PrivateKey::from_bytes(&[0x77; 32]).unwrap();
                s4[0] = tx.clone().sign(&stranger, flag, idx, &subscript, value).unwrap().to_hex().unwrap();
                expect("signature by a different key", &with_unlock(&tx, &unlock_asm(&s4)), false);
                // signature over the byte-reversed digest of the right preimage
                let pre = tx.clone().sighash_preimage(flag, idx, &subscript, value).unwrap();
                let mut dg = Hash::sha_256d(&pre).to_bytes();
                dg.reverse();
                let rsig = ECDSA::sign_digest_with_deterministic_k(&keys[signers[0]], &dg).unwrap();
                let mut rb = rsig.to_der_bytes();
                rb.push(flag_byte);
                let mut s5 = sigs.clone();
                s5[0] = hex::encode(&rb);
                expect("signature over the byte-reversed sighash", &with_unlock(&tx, &unlock_asm(&s5)), false);
                // signature committing to the whole locking script although a code separator was executed before the check
                if sep {
                    let mut s6 = sigs.clone();
                    s6[0] = tx.clone().sign(&keys[signers[0]], flag, idx, &locking, value).unwrap().to_hex().unwrap();
                    expect("signature over the script including the part before the executed code separator", &with_unlock(&tx, &unlock_asm(&s6)), false);
                }
                // a byte that looks like a flag squeezed between a maximal-length DER signature and the real flag byte
                for kq in 1u8..60 {
                    let eph = PrivateKey::from_bytes(&[kq; 32]).unwrap();
                    if let Ok(sg) = tx.clone().sign_with_k(&keys[signers[0]], &eph, flag, idx, &subscript, value) {
                        let raw = sg.to_bytes().unwrap();
                        if raw.len() == 72 {
                            let mut padded = raw[..71].to_vec();
                            padded.push(0x01);
                            padded.push(flag_byte);
                            let mut s9 = sigs.clone();
                            s9[0] = hex::encode(&padded);
                            expect("an extra flag-like byte between the DER signature and the flag byte", &with_unlock(&tx, &unlock_asm(&s9)), false);
                            break;
                        }
                    }
                }
                if kind == "multisig" && m >= 2 {
                    let mut s7 = sigs.clone();
                    s7.reverse();
                    expect("multisig signatures in the wrong order", &with_unlock(&tx, &unlock_asm(&s7)), false);
                    let mut s8 = sigs.clone();
                    s8[1] = s8[0].clone();
                    expect("multisig with the same signature twice", &with_unlock(&tx, &unlock_asm(&s8)), false);
                }
            }
            problems.extend(depth_problems);
            problems.truncate(10);
            json!({ "ok": { "problems": problems } })
        }
        "interp_tx" => {
            // run the interpreter on input `index` of a one-input transaction with the given unlocking / locking script (asm)
            let mut tx = Transaction::new(2, 0);
            let mut txin = TxIn::new(&[3u8; 32], 2, &Script::from_asm_string(op["unlock_asm"].as_str().unwrap_or("")).unwrap(), Some(0xffffffff));
            txin.set_satoshis(op["value"].as_u64().unwrap_or(1));
            if let Some(l) = op.get("lock_asm").and_then(|l| l.as_str()) {
                txin.set_locking_script(&Script::from_asm_string(l).unwrap());
            }
            tx.add_input(&txin);
            let index = op["index"].as_u64().unwrap_or(0) as usize;
            match Interpreter::from_transaction(&tx, index) {
                Err(e) => json!({ "err": e.to_string() }),
                Ok(mut i) => match i.run() {
                    Ok(()) => json!({ "ok": { "stack": i.state().stack().iter().map(hex::encode).collect::<Vec<String>>() } }),
                    Err(e) => json!({ "err": e.to_string() }),
                },
            }
        }
        "interp_step_vs_run" => {
            // stepping to the end vs run() on the same script: same outcome and final stacks
            let script = Script::from_bytes(&hx(&op["script"])).expect("script must parse");
            let mut a = Interpreter::from_script(&script);
            let ra = a.run().is_ok();
            let mut b = Interpreter::from_script(&script);
            let mut rb = true;
            let mut steps = 0;
            while let Some(r) = b.next() {
                steps += 1;
                if r.is_err() || steps > 10000 {
                    rb = false;
                    break;
                }
            }
            let (sa, sb) = (a.state(), b.state());
            let same = ra == rb && sa.stack == sb.stack && sa.alt_stack == sb.alt_stack;
            // iterating to exhaustion without looking at the items must end
            let c = Interpreter::from_script(&script);
            let stepping_ends = c.take(10000).count() < 10000;
            json!({ "ok": { "same": same, "stepping_ends": stepping_ends } })
        }
        "asm_roundtrip" => {
            // bytes -> script -> ASM text -> script -> bytes (plain and extended rendering are reported)
            match Script::from_bytes(&hx(&op["hex"])) {
                Err(e) => json!({ "err": e.to_string() }),
                Ok(sc) => {
                    let asm = sc.to_asm_string();
                    let ext = sc.to_extended_asm_string();
                    match Script::from_asm_string(&asm) {
                        Ok(back) => json!({ "ok": { "asm": asm, "extended": ext, "reparsed": hex::encode(back.to_bytes()) } }),
                        Err(e) => json!({ "ok": { "asm": asm, "extended": ext, "reparse_error": e.to_string() } }),
                    }
                }
            }
        }
        "hash" => {
            let data = hx(&op["input"]);
            let key = op.get("key").map(|k| hx(k)).unwrap_or_default();
            let h = match op["fn"].as_str().unwrap() {
                "sha_256" => Hash::sha_256(&data),
                "sha_1" => Hash::sha_1(&data),
                "sha_512" => Hash::sha_512(&data),
                "ripemd_160" => Hash::ripemd_160(&data),
                "sha_256d" => Hash::sha_256d(&data),
                "hash_160" => Hash::hash_160(&data),
                "sha_512_hmac" => Hash::sha_512_hmac(&data, &key),
                "sha_256_hmac" => Hash::sha_256_hmac(&data, &key),
                "sha_256d_hmac" => Hash::sha_256d_hmac(&data, &key),
                "sha_1_hmac" => Hash::sha_1_hmac(&data, &key),
                "ripemd_160_hmac" => Hash::ripemd_160_hmac(&data, &key),
                _ => Hash::hash_160_hmac(&data, &key),
            };
            json!({ "ok": hex::encode(h.to_bytes()) })
        }
        "pbkdf2" => {
            let algo = match op["algo"].as_str().unwrap() {
                "SHA1" => PBKDF2Hashes::SHA1,
                "SHA256" => PBKDF2Hashes::SHA256,
                _ => PBKDF2Hashes::SHA512,
            };
            let k = KDF::pbkdf2(&hx(&op["password"]), Some(hx(&op["salt"])), algo, op["rounds"].as_u64().unwrap() as u32, op["len"].as_u64().unwrap() as usize);
            json!({ "ok": hex::encode(k.get_hash().to_bytes()) })
        }
        "adapter" => {
            use digest::{FixedOutput, Update};
            fn drive<D: FixedOutput + Update + Clone + Default + ReversibleDigest>(op: &Value) -> Value {
                let mut d = D::default();
                if op["reverse"].as_bool().unwrap_or(false) {
                    d = d.reverse();
                }
                for c in op["chunks"].as_array().unwrap() {
                    d.update(hx(c));
                }
                let fin = op["finalizer"].as_str().unwrap();
                let first = match fin {
                    "finalize_fixed" | "finalize_into_dirty" => d.clone().finalize_fixed().to_vec(),
                    "finalize_into" => {
                        let mut out = Default::default();
                        d.clone().finalize_into(&mut out);
                        out.to_vec()
                    }
                    "finalize_fixed_reset" => d.finalize_fixed_reset().to_vec(),
                    _ => {
                        let mut out = Default::default();
                        d.finalize_into_reset(&mut out);
                        out.to_vec()
                    }
                };
                let second = if fin.ends_with("_reset") {
                    d.update(hx(&op["after_reset"]));
                    Some(hex::encode(d.finalize_fixed()))
                } else {
                    None
                };
                json!({"ok": {"first": hex::encode(first), "second": second}})
            }
            match op["adapter"].as_str().unwrap() {
                "Sha256d" => drive::<bsv::hash::sha256d_digest::Sha256d>(op),
                "Sha256r" => drive::<Sha256r>(op),
                _ => drive::<bsv::hash::hash160_digest::Hash160>(op),
            }
        }
        "der_roundtrip" => match Signature::from_der(&hx(&op["bytes"])) {
            Ok(sig) => json!({ "ok": hex::encode(sig.to_der_bytes()) }),
            Err(e) => json!({ "err": e.to_string() }),
        },
        "sighash_sig_roundtrip" => match SighashSignature::from_bytes(&hx(&op["bytes"]), &[]) {
            Ok(ss) => res_bytes(ss.to_bytes()),
            Err(e) => json!({ "err": e.to_string() }),
        },
        "pubkey_derive" => {
            // every way the library derives the public key of a private key, against k256 called directly, for both key forms
            use k256::elliptic_curve::sec1::ToEncodedPoint;
            let key = hx(&op["key"]);
            let mut problems: Vec<String> = vec![];
            for compressed in [true, false] {
                let k = PrivateKey::from_bytes(&key).expect("key").compress_public_key(compressed);
                let want = k256::SecretKey::from_be_bytes(&key).unwrap().public_key().to_encoded_point(compressed).as_bytes().to_vec();
                let form = if compressed { "compressed" } else { "uncompressed" };
                if k.get_point() != want {
                    problems.push(format!("{} key: PrivateKey::get_point is not the {} SEC1 encoding of the public point", form, form));
                }
                let p1 = PublicKey::from_private_key(&k);
                if p1.to_bytes().ok() != Some(want.clone()) || p1.is_compressed() != compressed {
                    problems.push(format!("{} key: PublicKey::from_private_key gives {} (is_compressed {})", form, p1.to_hex().unwrap_or_default(), p1.is_compressed()));
                }
                match k.to_public_key() {
                    Ok(p2) if p2.to_bytes().ok() == Some(want.clone()) && p2.is_compressed() == compressed => {}
                    other => problems.push(format!("{} key: PrivateKey::to_public_key gives {:?}", form, other.map(|p| p.to_hex().unwrap_or_default()).map_err(|e| e.to_string()))),
                }
            }
            json!({ "ok": { "problems": problems } })
        }
        "bsm_verify" => {
            // sign `message` with the key, derive the key's P2PKH address under `prefix`, verify against it
            let key = PrivateKey::from_bytes(&hx(&op["key"])).expect("key").compress_public_key(op["compressed"].as_bool().unwrap_or(true));
            let msg = hx(&op["message"]);
            let sig = BSM::sign_message(&key, &msg).expect("sign");
            let pk = key.to_public_key().expect("pubkey");
            let addr = P2PKHAddress::from_pubkey(&pk).expect("addr");
            let p = op["prefix"].as_u64().unwrap() as u8;
            let addr = addr.set_chain_params(&ChainParams::new(p, 0, 0, 0, 0, 0)).expect("chain params");
            match BSM::verify_message(&msg, &sig, &addr) {
                Ok(b) => json!({ "ok": b }),
                Err(e) => json!({ "err": e.to_string() }),
            }
        }
        "bsm_magic" => {
            // the digest BSM signs must be SHA256d(varint(24) ++ magic ++ varint(len) ++ msg): a signature made by
            // BSM::sign_message must verify against the caller-supplied preimage (computed by the reference encoder)
            let key = PrivateKey::from_bytes(&hx(&op["key"])).expect("key");
            let msg = hx(&op["message"]);
            let sig = BSM::sign_message(&key, &msg).expect("sign");
            let pk = key.to_public_key().expect("pubkey");
            match ECDSA::verify_digest(&hx(&op["preimage"]), &pk, &sig, SigningHash::Sha256d) {
                Ok(b) => json!({ "ok": b }),
                Err(_) => json!({ "ok": false }),
            }
        }
        "unlock_own_key" => {
            // an address under any prefix must accept its own public key when an unlocking script is built
            let key = PrivateKey::from_bytes(&hx(&op["key"])).expect("key");
            let pk = key.to_public_key().expect("pubkey");
            let p = op["prefix"].as_u64().unwrap() as u8;
            let addr = P2PKHAddress::from_pubkey(&pk).expect("addr").set_chain_params(&ChainParams::new(p, 0, 0, 0, 0, 0)).expect("cp");
            let sig = key.sign_message(b"x").expect("sig");
            let ss = SighashSignature::new(&sig, SigHash::InputsOutputs, &[]);
            match addr.get_unlocking_script(&pk, &ss) {
                Ok(_) => json!({ "ok": true }),
                Err(e) => json!({ "err": e.to_string() }),
            }
        }
        "address_fields" => {
            // (prefix, hash, checksum consistency) of from_pubkey_hash + set_chain_params, observed through the public API
            let a = P2PKHAddress::from_pubkey_hash(&hx(&op["hash"])).expect("addr");
            let p = op["prefix"].as_u64().unwrap() as u8;
            let b = a.set_chain_params(&ChainParams::new(p, 0, 0, 0, 0, 0)).expect("cp");
            let s = b.to_string().expect("string");
            let back = P2PKHAddress::from_string(&s);
            json!({"ok": {"string": s, "hash": hex::encode(b.to_pubkey_hash()), "reparsed_equal": back.map(|x| x == b).unwrap_or(false)}})
        }
        other => json!({ "err": format!("unknown op {}", other) }),
    }
}

fn main() {
    let args: Vec<String> = std::env::args().collect();
    let req: Value = serde_json::from_str(&std::fs::read_to_string(&args[1]).expect("request file")).expect("json");
    std::panic::set_hook(Box::new(|_| {}));
    let mut out = Vec::new();
    let mut tx = match catch_unwind(AssertUnwindSafe(|| build(&req["tx"]))) {
        Ok(t) => t,
        Err(_) => {
            println!("{}", json!([{"panic": "building the transaction through the API panicked"}]));
            return;
        }
    };
    for op in req["ops"].as_array().unwrap() {
        let r = catch_unwind(AssertUnwindSafe(|| run_op(&mut tx, op)));
        match r {
            Ok(v) => out.push(v),
            Err(e) => {
                let msg = if let Some(s) = e.downcast_ref::<&str>() {
                    s.to_string()
                } else if let Some(s) = e.downcast_ref::<String>() {
                    s.clone()
                } else {
                    "panic".into()
                };
                out.push(json!({ "panic": msg }));
            }
        }
    }
    println!("{}", Value::Array(out));
}
