//! Native driver of the library's public transaction API, used by the mirsym engine for
//! (a) replaying SMT counterexamples against the real crate and (b) translator validation
//! (real outputs on concrete inputs vs. the evaluated SMT encoding).
//!   txtool <request.json>   -> prints one JSON array of per-op results
use bsv::*;
use serde_json::{json, Value};
use std::convert::TryFrom;
use std::panic::{catch_unwind, AssertUnwindSafe};

fn hx(v: &Value) -> Vec<u8> {
    hex::decode(v.as_str().unwrap_or("")).expect("hex")
}

fn mk_input(v: &Value) -> TxIn {
    let script = Script::from_bytes(&hx(&v["script"])).expect("input script must parse");
    let mut i = TxIn::new(&hx(&v["prev_tx_id"]), v["vout"].as_u64().unwrap() as u32, &script, Some(v["sequence"].as_u64().unwrap() as u32));
    if let Some(s) = v.get("satoshis").and_then(|x| x.as_u64()) {
        i.set_satoshis(s);
    }
    if let Some(l) = v.get("lockscript").and_then(|x| x.as_str()) {
        i.set_locking_script(&Script::from_bytes(&hex::decode(l).unwrap()).expect("locking script must parse"));
    }
    i
}

fn mk_output(v: &Value) -> TxOut {
    TxOut::new(v["value"].as_u64().unwrap(), &Script::from_bytes(&hx(&v["script"])).expect("output script must parse"))
}

fn build(v: &Value) -> Transaction {
    let mut tx = Transaction::new(v["version"].as_u64().unwrap() as u32, v["locktime"].as_u64().unwrap() as u32);
    for i in v["inputs"].as_array().unwrap() {
        tx.add_input(&mk_input(i));
    }
    for o in v["outputs"].as_array().unwrap() {
        tx.add_output(&mk_output(o));
    }
    tx
}

fn res_bytes(r: Result<Vec<u8>, BSVErrors>) -> Value {
    match r {
        Ok(b) => json!({ "ok": hex::encode(b) }),
        Err(e) => json!({ "err": e.to_string() }),
    }
}

fn run_op(tx: &mut Transaction, op: &Value) -> Value {
    let name = op["op"].as_str().unwrap();
    match name {
        "preimage" => {
            let flag = SigHash::try_from(op["flag"].as_u64().unwrap() as u8).expect("flag");
            let sub = Script::from_bytes(&hx(&op["subscript"])).expect("subscript must parse");
            res_bytes(tx.sighash_preimage(flag, op["idx"].as_u64().unwrap() as usize, &sub, op["value"].as_u64().unwrap()))
        }
        "add_input" => {
            tx.add_input(&mk_input(&op["input"]));
            json!({"unit": true})
        }
        "prepend_input" => {
            tx.prepend_input(&mk_input(&op["input"]));
            json!({"unit": true})
        }
        "insert_input" => {
            tx.insert_input(op["index"].as_u64().unwrap() as usize, &mk_input(&op["input"]));
            json!({"unit": true})
        }
        "set_input" => {
            tx.set_input(op["index"].as_u64().unwrap() as usize, &mk_input(&op["input"]));
            json!({"unit": true})
        }
        "add_output" => {
            tx.add_output(&mk_output(&op["output"]));
            json!({"unit": true})
        }
        "prepend_output" => {
            tx.prepend_output(&mk_output(&op["output"]));
            json!({"unit": true})
        }
        "insert_output" => {
            tx.insert_output(op["index"].as_u64().unwrap() as usize, &mk_output(&op["output"]));
            json!({"unit": true})
        }
        "set_output" => {
            tx.set_output(op["index"].as_u64().unwrap() as usize, &mk_output(&op["output"]));
            json!({"unit": true})
        }
        "set_version" => {
            let _ = tx.set_version(op["v"].as_u64().unwrap() as u32);
            json!({"unit": true})
        }
        "set_nlocktime" => {
            let _ = tx.set_nlocktime(op["v"].as_u64().unwrap() as u32);
            json!({"unit": true})
        }
        "clone" => {
            *tx = tx.clone();
            json!({"unit": true})
        }
        "reparse" => match tx.to_bytes().and_then(|b| Transaction::from_bytes(&b)) {
            Ok(t) => {
                *tx = t;
                json!({"unit": true})
            }
            Err(e) => json!({ "err": e.to_string() }),
        },
        "to_bytes" => res_bytes(tx.to_bytes()),
        "get_id" => res_bytes(tx.get_id_bytes()),
        "get_size" => match tx.get_size() {
            Ok(n) => json!({ "ok": n }),
            Err(e) => json!({ "err": e.to_string() }),
        },
        "satoshis_out" => json!({"ok": tx.satoshis_out()}),
        "satoshis_in" => json!({"ok": tx.satoshis_in()}),
        "is_coinbase" => json!({"ok": tx.is_coinbase()}),
        "outpoints" => json!({"ok": tx.get_outpoints().iter().map(hex::encode).collect::<Vec<_>>()}),
        "from_bytes" => match Transaction::from_bytes(&hx(&op["bytes"])) {
            Ok(t) => {
                *tx = t;
                json!({"unit": true})
            }
            Err(e) => json!({ "err": e.to_string() }),
        },
        "match_outputs" | "match_output" | "match_inputs" | "match_input" => {
            let mut c = MatchCriteria::new();
            if let Some(v) = op.get("exact").and_then(|x| x.as_u64()) {
                c.set_value(v);
            }
            if let Some(v) = op.get("min").and_then(|x| x.as_u64()) {
                c.set_min(v);
            }
            if let Some(v) = op.get("max").and_then(|x| x.as_u64()) {
                c.set_max(v);
            }
            match name {
                "match_outputs" => json!({"ok": tx.match_outputs(&c)}),
                "match_output" => json!({"ok": tx.match_output(&c)}),
                "match_inputs" => json!({"ok": tx.match_inputs(&c)}),
                _ => json!({"ok": tx.match_input(&c)}),
            }
        }
        "bsm_magic_digest" => {
            // not a transaction op: the double-SHA256 digest BSM signs is not exposed; handled by the caller
            json!({"err": "unsupported"})
        }
        other => json!({ "err": format!("unknown op {}", other) }),
    }
}

fn main() {
    let args: Vec<String> = std::env::args().collect();
    let req: Value = serde_json::from_str(&std::fs::read_to_string(&args[1]).expect("request file")).expect("json");
    std::panic::set_hook(Box::new(|_| {}));
    let mut out = Vec::new();
    let mut tx = match catch_unwind(AssertUnwindSafe(|| build(&req["tx"]))) {
        Ok(t) => t,
        Err(_) => {
            println!("{}", json!([{"panic": "building the transaction through the API panicked"}]));
            return;
        }
    };
    for op in req["ops"].as_array().unwrap() {
        let r = catch_unwind(AssertUnwindSafe(|| run_op(&mut tx, op)));
        match r {
            Ok(v) => out.push(v),
            Err(e) => {
                let msg = if let Some(s) = e.downcast_ref::<&str>() {
                    s.to_string()
                } else if let Some(s) = e.downcast_ref::<String>() {
                    s.clone()
                } else {
                    "panic".into()
                };
                out.push(json!({ "panic": msg }));
            }
        }
    }
    println!("{}", Value::Array(out));
}
