//! Native replay of a solver counterexample against the real crate.
//!   replay <harness> <values.json>
//! values.json: JSON array of byte arrays in draw order (as printed by Kani's
//! concrete playback).  Exit 0: property holds on this input; 3: input is
//! outside the harness precondition; 101 (panic): the violation reproduces.
use bsvverif::{registry, OutsidePrecondition, ReplaySrc};

fn parse_vals(s: &str) -> Vec<Vec<u8>> {
    // minimal parser for [[1,2],[3]] — no external crates
    let mut out = Vec::new();
    let mut cur: Option<Vec<u8>> = None;
    let mut num = String::new();
    let mut depth = 0;
    for ch in s.chars() {
        match ch {
            '[' => {
                depth += 1;
                if depth == 2 {
                    cur = Some(Vec::new());
                }
            }
            ']' => {
                if depth == 2 {
                    if !num.is_empty() {
                        cur.as_mut().unwrap().push(num.parse::<u16>().unwrap() as u8);
                        num.clear();
                    }
                    out.push(cur.take().unwrap());
                }
                depth -= 1;
            }
            ',' => {
                if depth == 2 && !num.is_empty() {
                    cur.as_mut().unwrap().push(num.parse::<u16>().unwrap() as u8);
                    num.clear();
                }
            }
            c if c.is_ascii_digit() => num.push(c),
            _ => {}
        }
    }
    out
}

fn main() {
    let args: Vec<String> = std::env::args().collect();
    if args.len() < 3 {
        eprintln!("usage: replay <harness> <values.json>");
        std::process::exit(2);
    }
    let name = &args[1];
    let vals = parse_vals(&std::fs::read_to_string(&args[2]).expect("values file"));
    let reg = registry();
    let f = match reg.iter().find(|(n, _)| n == name) {
        Some((_, f)) => *f,
        None => {
            eprintln!("unknown harness {}", name);
            std::process::exit(2);
        }
    };
    let mut src = ReplaySrc::new(vals);
    let r = std::panic::catch_unwind(std::panic::AssertUnwindSafe(|| f(&mut src)));
    match r {
        Ok(()) => {
            println!("REPLAY-HOLDS {}", name);
            std::process::exit(0)
        }
        Err(e) => {
            if e.downcast_ref::<OutsidePrecondition>().is_some() {
                println!("REPLAY-OUTSIDE-PRECONDITION {}", name);
                std::process::exit(3)
            }
            let msg = if let Some(s) = e.downcast_ref::<&str>() {
                s.to_string()
            } else if let Some(s) = e.downcast_ref::<String>() {
                s.clone()
            } else {
                "panic".to_string()
            };
            println!("REPLAY-VIOLATION {} :: {}", name, msg);
            std::process::exit(101)
        }
    }
}
