//! C01 — transaction wire format: compact-size integer kernels and outpoint codec.
use crate::{cov, okf, ReplaySrc, Src};
use bsv::{TxIn, VarInt, VarIntReader, VarIntWriter};
use std::io::Cursor;

/// Independent compact-size encoder written from the wire-format specification.
pub fn spec_varint(v: u64) -> ([u8; 9], usize) {
    let mut b = [0u8; 9];
    if v <= 252 {
        b[0] = v as u8;
        (b, 1)
    } else if v <= 0xffff {
        b[0] = 0xfd;
        b[1] = v as u8;
        b[2] = (v >> 8) as u8;
        (b, 3)
    } else if v <= 0xffff_ffff {
        b[0] = 0xfe;
        b[1] = v as u8;
        b[2] = (v >> 8) as u8;
        b[3] = (v >> 16) as u8;
        b[4] = (v >> 24) as u8;
        (b, 5)
    } else {
        b[0] = 0xff;
        let mut i = 0;
        while i < 8 {
            b[1 + i] = (v >> (8 * i)) as u8;
            i += 1;
        }
        (b, 9)
    }
}

/// Independent compact-size decoder: (value, width) from a 9-byte window.
pub fn spec_read_varint(b: &[u8; 9]) -> (u64, usize) {
    match b[0] {
        0xff => {
            let mut v = 0u64;
            let mut i = 0;
            while i < 8 {
                v |= (b[1 + i] as u64) << (8 * i);
                i += 1;
            }
            (v, 9)
        }
        0xfe => ((b[1] as u64) | (b[2] as u64) << 8 | (b[3] as u64) << 16 | (b[4] as u64) << 24, 5),
        0xfd => ((b[1] as u64) | (b[2] as u64) << 8, 3),
        x => (x as u64, 1),
    }
}

fn eq_prefix(a: &[u8], spec: &[u8; 9], n: usize) -> bool {
    if a.len() != n {
        return false;
    }
    let mut i = 0;
    while i < n {
        if a[i] != spec[i] {
            return false;
        }
        i += 1;
    }
    true
}

/// write_varint (Vec<u8> and Cursor<Vec<u8>> writers) emits exactly the
/// specified bytes for every u64, read_varint inverts it consuming exactly the
/// written width, and get_varint_size agrees with the written width.
pub fn varint_write_read<S: Src>(s: &mut S) {
    let v = s.u64();
    let (spec, n) = spec_varint(v);
    cov!(v <= 252, "width1");
    cov!(v > 252 && v <= 0xffff, "width3");
    cov!(v > 0xffff && v <= 0xffff_ffff, "width5");
    cov!(v > 0xffff_ffff, "width9");

    let mut buf: Vec<u8> = Vec::new();
    let r = buf.write_varint(v);
    assert!(r.is_ok(), "write_varint(Vec) failed");
    assert!(eq_prefix(&buf, &spec, n), "write_varint(Vec) bytes differ from compact-size spec");

    let mut cur: Cursor<Vec<u8>> = Cursor::new(Vec::new());
    let r2 = cur.write_varint(v);
    assert!(r2.is_ok(), "write_varint(Cursor) failed");
    let written = cur.into_inner();
    assert!(eq_prefix(&written, &spec, n), "write_varint(Cursor) bytes differ from compact-size spec");

    // reader 1: Cursor<Vec<u8>>
    let mut rc = Cursor::new(buf.clone());
    let back = rc.read_varint();
    assert!(matches!(back, Ok(x) if x == v), "read_varint(Cursor<Vec>) does not invert write_varint");
    assert!(rc.position() as usize == n, "read_varint(Cursor<Vec>) consumed a different width");
    // reader 2: Cursor<&[u8]>
    let mut rs: Cursor<&[u8]> = Cursor::new(&buf[..]);
    let back2 = rs.read_varint();
    assert!(matches!(back2, Ok(x) if x == v), "read_varint(Cursor<&[u8]>) does not invert write_varint");
    assert!(rs.position() as usize == n, "read_varint(Cursor<&[u8]>) consumed a different width");
    // reader 3: Vec<u8>
    let mut rv = buf.clone();
    let back3 = rv.read_varint();
    assert!(matches!(back3, Ok(x) if x == v), "read_varint(Vec) does not invert write_varint");

    let sz = VarInt::get_varint_size(v);
    let total = if sz == 1 { 1 } else { 1 + sz };
    assert!(total == n, "get_varint_size disagrees with written width");
    cov!(true, "end");
}

/// VarInt::get_varint_bytes(v) is the compact-size encoding of v (same bytes as the writer).
pub fn varint_bytes_helper<S: Src>(s: &mut S) {
    let v = s.u64();
    let (spec, n) = spec_varint(v);
    cov!(v > 252 && v <= 0xff, "253..255");
    cov!(v > 0xff && v <= 0xffff, "256..65535");
    cov!(v > 0xffff && v <= 0xffff_ffff, "65536..2^32-1");
    cov!(v > 0xffff_ffff, ">=2^32");
    let got = VarInt::get_varint_bytes(v);
    assert!(eq_prefix(&got, &spec, n), "get_varint_bytes differs from compact-size spec");
    cov!(true, "end");
}

/// Reader on an arbitrary 9-byte window (non-canonical encodings included):
/// value and consumed width equal the independent decoder's; never an error
/// when the window is long enough; truncated windows give Err, never a value.
pub fn varint_read_any<S: Src>(s: &mut S) {
    let w: [u8; 9] = s.bytes::<9>();
    let cut = s.u8();
    s.assume(cut <= 9);
    let (v, n) = spec_read_varint(&w);
    cov!(w[0] == 0xfd, "fd");
    cov!(w[0] == 0xfe, "fe");
    cov!(w[0] == 0xff, "ff");
    let avail = cut as usize;
    let mut cur = Cursor::new(w[..avail].to_vec());
    let r = cur.read_varint();
    if avail >= n {
        assert!(matches!(r, Ok(x) if x == v), "read_varint value differs from independent decoder");
        assert!(cur.position() as usize == n, "read_varint width differs from independent decoder");
    } else {
        assert!(r.is_err(), "read_varint returned a value from a truncated compact-size integer");
    }
    cov!(avail < n, "truncated");
    cov!(true, "end");
}

/// TxIn::from_outpoint_bytes / get_outpoint_bytes(Some(true)) are inverse on
/// all 36-byte strings; vout is little-endian; prev_tx_id kept reversed.
pub fn outpoint_roundtrip<S: Src>(s: &mut S) {
    let o: [u8; 36] = s.bytes::<36>();
    let txin = okf(TxIn::from_outpoint_bytes(&o));
    assert!(txin.is_some(), "36-byte outpoint rejected");
    let txin = txin.unwrap();
    let vout = (o[32] as u32) | (o[33] as u32) << 8 | (o[34] as u32) << 16 | (o[35] as u32) << 24;
    assert!(txin.get_vout() == vout, "vout not little-endian");
    let back = txin.get_outpoint_bytes(Some(true));
    assert!(back.len() == 36, "outpoint length");
    let mut i = 0;
    while i < 36 {
        assert!(back[i] == o[i], "outpoint bytes do not round-trip");
        i += 1;
    }
    let id = txin.get_prev_tx_id(None);
    assert!(id.len() == 32);
    let mut j = 0;
    while j < 32 {
        assert!(id[j] == o[31 - j], "prev_tx_id not stored byte-reversed");
        j += 1;
    }
    assert!(txin.get_sequence() == u32::MAX, "default sequence");
    cov!(true, "end");
}

pub fn register(v: &mut Vec<(&'static str, fn(&mut ReplaySrc))>) {
    v.push(("c01_varint_write_read", varint_write_read::<ReplaySrc>));
    v.push(("c01_varint_bytes_helper", varint_bytes_helper::<ReplaySrc>));
    v.push(("c01_varint_read_any", varint_read_any::<ReplaySrc>));
    v.push(("c01_outpoint_roundtrip", outpoint_roundtrip::<ReplaySrc>));
}

#[cfg(kani)]
mod proofs {
    use super::*;
    use crate::KaniSrc;

    #[kani::proof]
    #[kani::unwind(12)]
    #[kani::stub(std::fmt::format, crate::stubs::fmt_format)]
    #[kani::stub(<core::io::CustomOwner as core::ops::Drop>::drop, crate::stubs::custom_owner_drop)]
    fn c01_varint_write_read() {
        varint_write_read(&mut KaniSrc)
    }

    #[kani::proof]
    #[kani::unwind(12)]
    #[kani::stub(std::fmt::format, crate::stubs::fmt_format)]
    fn c01_varint_bytes_helper() {
        varint_bytes_helper(&mut KaniSrc)
    }

    #[kani::proof]
    #[kani::unwind(12)]
    #[kani::stub(std::fmt::format, crate::stubs::fmt_format)]
    #[kani::stub(<core::io::CustomOwner as core::ops::Drop>::drop, crate::stubs::custom_owner_drop)]
    fn c01_varint_read_any() {
        varint_read_any(&mut KaniSrc)
    }

    #[kani::proof]
    #[kani::unwind(38)]
    #[kani::stub(std::fmt::format, crate::stubs::fmt_format)]
    fn c01_outpoint_roundtrip() {
        outpoint_roundtrip(&mut KaniSrc)
    }
}
