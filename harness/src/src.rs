//! Input sources.

/// coverage marker: `kani::cover!` under Kani (reported per harness as
/// satisfied/unsatisfiable — the vacuity witness), no-op natively.
#[macro_export]
macro_rules! cov {
    ($c:expr, $m:literal) => {{
        #[cfg(kani)]
        kani::cover!($c, $m);
        #[cfg(not(kani))]
        let _ = $c;
    }};
}

pub trait Src {
    fn u8(&mut self) -> u8;
    fn bool(&mut self) -> bool;
    fn u16(&mut self) -> u16;
    fn u32(&mut self) -> u32;
    fn u64(&mut self) -> u64;
    fn i64(&mut self) -> i64;
    fn usize(&mut self) -> usize;
    fn bytes<const N: usize>(&mut self) -> [u8; N];
    /// precondition (kani::assume / native: silently ends the replay as "input outside precondition")
    fn assume(&mut self, c: bool);
}

#[cfg(kani)]
pub struct KaniSrc;

#[cfg(kani)]
impl Src for KaniSrc {
    fn u8(&mut self) -> u8 {
        kani::any()
    }
    fn bool(&mut self) -> bool {
        kani::any()
    }
    fn u16(&mut self) -> u16 {
        kani::any()
    }
    fn u32(&mut self) -> u32 {
        kani::any()
    }
    fn u64(&mut self) -> u64 {
        kani::any()
    }
    fn i64(&mut self) -> i64 {
        kani::any()
    }
    fn usize(&mut self) -> usize {
        kani::any()
    }
    fn bytes<const N: usize>(&mut self) -> [u8; N] {
        kani::any()
    }
    fn assume(&mut self, c: bool) {
        kani::assume(c)
    }
}

/// Native replay: values in draw order, little-endian byte vectors exactly as
/// printed by Kani's concrete playback.
pub struct ReplaySrc {
    pub vals: std::collections::VecDeque<Vec<u8>>,
    pub outside_precondition: bool,
}

impl ReplaySrc {
    pub fn new(vals: Vec<Vec<u8>>) -> Self {
        ReplaySrc { vals: vals.into(), outside_precondition: false }
    }
    fn take(&mut self, n: usize) -> Vec<u8> {
        let mut v = self.vals.pop_front().unwrap_or_else(|| vec![0; n]);
        v.resize(n, 0);
        v
    }
}

impl Src for ReplaySrc {
    fn u8(&mut self) -> u8 {
        self.take(1)[0]
    }
    fn bool(&mut self) -> bool {
        self.take(1)[0] & 1 == 1
    }
    fn u16(&mut self) -> u16 {
        let v = self.take(2);
        u16::from_le_bytes([v[0], v[1]])
    }
    fn u32(&mut self) -> u32 {
        let v = self.take(4);
        u32::from_le_bytes([v[0], v[1], v[2], v[3]])
    }
    fn u64(&mut self) -> u64 {
        let v = self.take(8);
        let mut a = [0u8; 8];
        a.copy_from_slice(&v);
        u64::from_le_bytes(a)
    }
    fn i64(&mut self) -> i64 {
        self.u64() as i64
    }
    fn usize(&mut self) -> usize {
        self.u64() as usize
    }
    fn bytes<const N: usize>(&mut self) -> [u8; N] {
        let mut a = [0u8; N];
        for i in 0..N {
            a[i] = self.take(1)[0];
        }
        a
    }
    fn assume(&mut self, c: bool) {
        if !c {
            self.outside_precondition = true;
            // unwinding out of the property function: the replay binary reports this as
            // "outside precondition", never as a reproduced violation
            std::panic::panic_any(OutsidePrecondition);
        }
    }
}

pub struct OutsidePrecondition;

/// `Result` -> `Option` without touching `E`: no `Debug` formatting (which `unwrap` drags in)
/// and no drop glue of the error enum (`BSVErrors` -> io::Error / serde / dyn Error destructors
/// explode CBMC's symex).  Leaking the error value is irrelevant to every property here.
pub fn okf<T, E>(r: Result<T, E>) -> Option<T> {
    match r {
        Ok(v) => Some(v),
        Err(e) => {
            core::mem::forget(e);
            None
        }
    }
}
